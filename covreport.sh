#!/bin/bash
# covreport.sh [props...] — auxiliary, not part of any check: which lines of /repo/src do the harness's quick
# runs execute?  Builds the harness with source-based coverage (nightly toolchain, its llvm-tools), runs the
# generators + executors of the given properties (default: all), and writes .cache/cov/uncovered.txt
# (per file: uncovered line ranges) and .cache/cov/summary.txt.  Used to find generator gaps; a line that no
# case executes cannot be distinguished from any change to it.
set -u
cd /verif
PROPS=${@:-C01 C02 C03 C04 C05 C06 C07 C08 C09 C10 C11 C12 C13 C14 C15 C16 C17 C18 C19 C20}
TOOLS=$(dirname $(find ~/.rustup/toolchains/nightly-x86_64-unknown-linux-gnu -name llvm-profdata | head -1))
OUT=/verif/.cache/cov; rm -rf $OUT; mkdir -p $OUT/prof
export CARGO_NET_OFFLINE=true
RUSTFLAGS="--cfg libhaystack_verif -Awarnings -C instrument-coverage" CARGO_TARGET_DIR=/verif/.cache/cov-target \
  cargo +nightly build --release --offline --manifest-path harness/Cargo.toml 2>&1 | tail -2
BIN=/verif/.cache/cov-target/release/hsverif
for p in $PROPS; do
  mkdir -p $OUT/run/$p
  LLVM_PROFILE_FILE="$OUT/prof/$p-%p-%m.profraw" VERIF_CASE_TIMEOUT_MS=600000 timeout 1800 $BIN run $p quick 1 $OUT/run/$p > /dev/null 2>&1
  echo "$p rc=$?"
done
$TOOLS/llvm-profdata merge -sparse $OUT/prof/*.profraw -o $OUT/all.profdata
$TOOLS/llvm-cov report $BIN -instr-profile=$OUT/all.profdata --ignore-filename-regex='(registry|rustc|harness)' > $OUT/summary.txt 2>&1
$TOOLS/llvm-cov export $BIN -instr-profile=$OUT/all.profdata --format=lcov --ignore-filename-regex='(registry|rustc|harness)' > $OUT/all.lcov 2>/dev/null
python3 - $OUT/all.lcov > $OUT/uncovered.txt <<'PY'
import sys
cur=None; unc={}
for l in open(sys.argv[1]):
    l=l.strip()
    if l.startswith('SF:'): cur=l[3:]; unc[cur]=[]
    elif l.startswith('DA:'):
        n,c=l[3:].split(',')[:2]
        if int(c)==0: unc[cur].append(int(n))
for f,ls in sorted(unc.items()):
    if not ls: continue
    r=[]; s=p=ls[0]
    for x in ls[1:]:
        if x==p+1: p=x; continue
        r.append((s,p)); s=p=x
    r.append((s,p))
    print(f, len(ls), ' '.join(f'{a}-{b}' if a!=b else str(a) for a,b in r))
PY
tail -3 $OUT/summary.txt
