#!/bin/bash
# benignsweep.sh [slots] [regex on the change's name] — runs every behaviour-preserving change of /verif/benign against the quick check of every
# property anchored in a file it touches (benigntest.sh), in parallel slots; prints one line per (change, check).
# Any VIOLATION is a false alarm of the machinery.  Results also go to /tmp/bsweep/<slot>.txt.
N=${1:-4}
PAT=${2:-.}
mkdir -p /tmp/bsweep; rm -f /tmp/bsweep/*.txt
ls -d /verif/benign/*/ | sort | grep -E "$PAT" > /tmp/bsweep/all.lst
for s in $(seq 1 $N); do
  ( i=0; while read d; do i=$((i+1)); [ $(( (i-1) % N + 1 )) -eq $s ] || continue
      id=$(basename $d); echo "--- $id"
      /verif/benigntest.sh $d/patch.diff w$s 2>&1 | grep -E "^==|PATCH-DOES|no anchored" | sed -E 's/KNOWN-FINDING[^;]*;//g' | cut -c1-200
    done < /tmp/bsweep/all.lst > /tmp/bsweep/$s.txt 2>&1 ) &
done
wait
cat /tmp/bsweep/[0-9]*.txt | grep -c VIOLATION | sed 's/^/false alarms: /'
