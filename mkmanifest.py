#!/usr/bin/env python3
"""Regenerates MANIFEST.json from props.py (claimed properties) and properties.jsonl."""
import json, os, sys
V = os.path.dirname(os.path.abspath(__file__))
sys.path.insert(0, V)
from props import PROPS
ids = [json.loads(l)["id"] for l in open(os.path.join(V, "properties.jsonl"))]
checks = []
for pid in ids:
    if pid not in PROPS or not PROPS[pid].get("claimed", True):
        continue
    c = PROPS[pid]
    checks.append({
        "property_id": pid,
        "quick_cmd": f"./check {pid} --tier quick",
        "thorough_cmd": f"./check {pid} --tier thorough",
        "evidence_file": f"evidence/{pid}.json",
        "replay_cmd_template": f"./check {pid} --replay {{path}}",
        "engine": "lean4-model+correspondence",
        "level_claimed": {
            "category": "proof",
            "text": c.get("level_text", ""),
            "design_ref": f"DESIGN.md §5 {pid}",
        },
        "level_note": c.get("level_note", ""),
        "technique": c.get("technique", "Lean 4 theorems about an executable model + differential correspondence check against the Rust code"),
    })
na = [{"property_id": pid, "reason": PROPS.get(pid, {}).get("na_reason", "check not built yet in this round; no claim is made")}
      for pid in ids if pid not in PROPS or not PROPS[pid].get("claimed", True)]
m = {
    "version": 1,
    "setup_cmd": "./check --setup",
    "hooks": {
        "guard": "libhaystack_verif",
        "enable": "RUSTFLAGS=\"--cfg libhaystack_verif\" (set by ./check for every harness build)",
        "baseline_off_cmd": "cd /repo && cargo test --workspace --no-fail-fast --offline",
        "source_commits": ["4b31ef5"],
        "add_only": True,
    },
    "engines": [{
        "name": "lean4-model+correspondence",
        "path": "check",
        "serves_properties": [c["property_id"] for c in checks],
        "kind_free_text": "Lean 4 model (lean/Hs/Model) with theorems (lean/Hs/Thm), tables regenerated from /repo by gen/*.py, "
                          "Rust harness (harness/) executing the real code against the compiled Lean driver (lean/Main.lean)",
    }],
    "checks": checks,
    "notes": "See DESIGN.md.  known_findings.json lists recorded defects and the fix: commits made in /repo.",
    "not_applicable": na,
}
json.dump(m, open(os.path.join(V, "MANIFEST.json"), "w"), indent=1)
# merged known-findings file
kf = {"comment": "Genuine defects of j2inn/libhaystack found by the checks (merged from known/*.json by mkmanifest.py). "
                 "`findings` with status open are recorded, not repaired: the check prints a KNOWN-FINDING line for each one "
                 "that still reproduces and exits 0.  `fixed` entries record repairs (fix: commits in /repo) and suppress nothing.",
      "findings": [], "fixed": []}
kd = os.path.join(V, "known")
for f in sorted(os.listdir(kd)):
    if f.endswith(".json"):
        j = json.load(open(os.path.join(kd, f)))
        kf["findings"] += j.get("findings", [])
        kf["fixed"] += j.get("fixed", [])
json.dump(kf, open(os.path.join(V, "known_findings.json"), "w"), indent=1)
print(f"{len(checks)} checks, {len(na)} not claimed, {len(kf['findings'])} known findings, {len(kf['fixed'])} fixed")
