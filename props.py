"""Per-property configuration of the check driver (which translators, what the evidence says)."""

PROPS = {
    "C12": {
        "gen": [],
        "canon": False,
        "level_text": "Theorems over ALL NaN-free values (any nesting/size): ==, Hash, Ord, PartialOrd of the model are mutually "
                      "consistent (reflexive/symmetric/transitive ==, equal => same hasher writes, antisymmetric/transitive cmp, "
                      "cmp=Equal <=> ==, partial_cmp=Some(o) => cmp=o).  The model is tied to val/*.rs by differential execution "
                      "on near-collision pairs/triples; the same laws are checked directly on the real impls.",
        "level_note": "Trusted: Lean kernel + 3 standard axioms; harness; derive semantics of rustc (lexicographic, variant order); "
                      "IEEE order = sign-magnitude key order for non-NaN; Unit identified by its symbol.",
        "technique": "Lean 4 proof by structural induction over a mutual inductive value type (point-wise total-preorder "
                     "predicate closed under lexicographic/Option/variant constructions) + differential correspondence",
        "rule": "cases are triples (a,b,c) of Values: (1) a fixed pool of near-collisions (+0/-0, same magnitude with "
                "different/absent unit, Refs differing in dis, equal instants in different zones, same payload under "
                "different kinds, dicts differing in one key or value, list prefixes) crossed pair-wise, (2) random values "
                "of all 18 kinds (depth<=3) with their structural mutants.  A case is non-trivial when it parses to three "
                "values; distinct = distinct by hash of the VX text.",
        "assumptions": [
            "IEEE-754 order of non-NaN doubles equals the order of their sign-magnitude keys (validated on every pair run)",
            "a Unit is determined by its symbol (table theorem of C15)",
            "String order = code point order (UTF-8 is order preserving)",
        ],
    },
}
