"""Per-property configuration of the check driver: one JSON file per claimed property in propcfg/."""
import json, os

_D = os.path.join(os.path.dirname(os.path.abspath(__file__)), "propcfg")
PROPS = {}
for _f in sorted(os.listdir(_D)):
    if _f.endswith(".json"):
        PROPS[_f[:-5]] = json.load(open(os.path.join(_D, _f)))
