#!/usr/bin/env python3
"""
units_q.py — translator for property C16:  /repo/src/haystack/units/units_generated.rs  ->  lean/Hs/Gen/UnitsQ.lean

usage: python3 gen/units_q.py /repo lean/Hs/Gen

Extracts, in SOURCE ORDER,
  * every `pub static ref X: Unit = Unit { quantity, ids, dimensions, scale, offset };`
    - quantity   : `None` | `Some("…".to_string(),)`
    - ids        : `["…".to_string(), …].to_vec()`
    - dimensions : `None` | `Some(UnitDimensions { kg, m, sec, k, a, mol, cd },)`   (7 integer literals)
    - scale, offset : decimal float literals, read as EXACT rationals (`0.3048` -> 3048/10000 = 381/1250,
      `1.6666666666666667e-5`, `1e-6`, `1.0E-6` …); the f64 the compiler makes of the literal is NOT used
  * the entries `("key", &*X)` of the `UNITS` map, in the order of the array literal (the run-time HashMap
    iterates in another, unspecified order: the model quantifies over every order, the driver uses this one).
Exits non-zero with a message when an item does not have the expected shape.
"""
import re, sys, os
from fractions import Fraction

DIM_FIELDS = ["kg", "m", "sec", "k", "a", "mol", "cd"]


def die(msg):
    print(f"units_q.py: unexpected shape: {msg}")
    sys.exit(1)


STR = r'"((?:[^"\\]|\\.)*)"'


def rust_str(body):
    """decode the body of a Rust string literal (only the escapes that can occur in an identifier table)"""
    out, i = [], 0
    while i < len(body):
        c = body[i]
        if c != "\\":
            out.append(c); i += 1; continue
        n = body[i + 1] if i + 1 < len(body) else ""
        if n in ('"', "\\", "'"):
            out.append(n); i += 2
        elif n == "u":
            m = re.match(r"\\u\{([0-9a-fA-F_]{1,8})\}", body[i:])
            if not m:
                die(f"string escape in {body!r}")
            out.append(chr(int(m.group(1).replace("_", ""), 16))); i += len(m.group(0))
        else:
            die(f"string escape \\{n} in {body!r}")
    return "".join(out)


def lean_str(s):
    o = ['"']
    for c in s:
        if c == '"':
            o.append('\\"')
        elif c == "\\":
            o.append("\\\\")
        elif ord(c) < 0x20 or ord(c) == 0x7f:
            o.append("\\u{%x}" % ord(c))
        else:
            o.append(c)
    o.append('"')
    return "".join(o)


DEC = re.compile(r"^(-?)(\d+)(?:\.(\d+))?(?:[eE]([+-]?\d+))?(?:_?f64)?$")


def decimal(lit, where):
    m = DEC.match(lit.replace("_", "") if not lit.endswith("f64") else lit)
    if not m:
        die(f"{where}: `{lit}` is not a decimal float literal")
    sign, ip, fp, ex = m.group(1), m.group(2), m.group(3) or "", int(m.group(4) or 0)
    q = Fraction(int(ip + fp), 10 ** len(fp)) * (Fraction(10) ** ex)
    return -q if sign else q


def lean_rat(q):
    if q.denominator == 1:
        return str(q.numerator) if q.numerator >= 0 else f"({q.numerator})"
    n = str(q.numerator) if q.numerator >= 0 else f"({q.numerator})"
    return f"(mkRat {n} {q.denominator})"


def main():
    if len(sys.argv) != 3:
        print(__doc__); sys.exit(2)
    repo, outdir = sys.argv[1], sys.argv[2]
    path = os.path.join(repo, "src/haystack/units/units_generated.rs")
    try:
        src = open(path, encoding="utf-8").read()
    except OSError as e:
        die(f"cannot read {path}: {e}")
    # strip line comments (none may occur inside a string: unit ids never contain `//`… assert it)
    for m in re.finditer(STR, src):
        if "//" in m.group(1):
            die(f"string literal containing `//`: {m.group(0)}")
    src = re.sub(r"//[^\n]*", "", src)
    flat = re.sub(r"\s+", " ", src)

    # ---- the statics ------------------------------------------------------------------------
    heads = list(re.finditer(r"pub static ref ([A-Z][A-Z0-9_]*)\s*:\s*([^=]+?)\s*=", flat))
    units, names = [], {}
    units_map_head = None
    for h in heads:
        name, ty = h.group(1), h.group(2).strip()
        if name == "UNITS":
            if not re.fullmatch(r"HashMap<&'static str, &'static Unit>", ty):
                die(f"type of UNITS is `{ty}`")
            units_map_head = h
            continue
        if ty != "Unit":
            die(f"static {name} has type `{ty}`, expected `Unit`")
        rest = flat[h.end():]
        m = re.match(
            r"\s*Unit \{ quantity: (None|Some\( ?" + STR + r"\.to_string\(\) ?,? ?\)) ?, "
            r"ids: \[ ?((?:" + STR + r"\.to_string\(\) ?,? ?)*)\] ?\.to_vec\(\) ?, "
            r"dimensions: (None|Some\( ?UnitDimensions \{([^}]*)\} ?,? ?\)) ?, "
            r"scale: ([^, ]+) ?, offset: ([^, ]+) ?,? ?\} ?;", rest)
        if not m:
            die(f"static {name}: body does not match `Unit {{ quantity, ids, dimensions, scale, offset }}`: {rest[:200]}")
        quantity = None if m.group(1) == "None" else rust_str(m.group(2))
        ids = [rust_str(x) for x in re.findall(STR + r"\.to_string\(\)", m.group(3))]
        if m.group(5) == "None":
            dims = None
        else:
            fields = re.findall(r"(\w+): (-?\d+)(?:_?i8)?", m.group(6))
            if [f for f, _ in fields] != DIM_FIELDS or re.sub(r"(\w+): (-?\d+)(?:_?i8)? ?,? ?", "", m.group(6)).strip():
                die(f"static {name}: dimensions `{m.group(6)}` are not the 7 integer fields {DIM_FIELDS}")
            dims = [int(v) for _, v in fields]
            if any(not (-128 <= v <= 127) for v in dims):
                die(f"static {name}: dimension exponent outside i8")
        scale = decimal(m.group(7), f"static {name} scale")
        offset = decimal(m.group(8), f"static {name} offset")
        if name in names:
            die(f"static {name} defined twice")
        names[name] = len(units)
        units.append((name, quantity, ids, dims, scale, offset))
    if units_map_head is None:
        die("static UNITS not found")
    if len(units) + 1 != len(re.findall(r"\bstatic ref\b", flat)):
        die("a `static ref` item was not recognised")
    if len(units) < 10:
        die(f"only {len(units)} units found")

    # ---- the UNITS map ----------------------------------------------------------------------
    rest = flat[units_map_head.end():]
    m = re.match(r"\s*\[(.*?)\] ?\.iter\(\) ?\.cloned\(\) ?\.collect\(\) ?;", rest)
    if not m:
        die("UNITS is not `[ (key, &*X), … ].iter().cloned().collect();`")
    body = m.group(1)
    entry = re.compile(r"\( ?" + STR + r" ?, ?&\*([A-Z][A-Z0-9_]*) ?,? ?\) ?,? ?")
    entries, pos = [], 0
    body = body.strip()
    while pos < len(body):
        e = entry.match(body, pos)
        if not e:
            die(f"UNITS entry not of the form (\"key\", &*X): {body[pos:pos+80]}")
        key, ref = rust_str(e.group(1)), e.group(2)
        if ref not in names:
            die(f"UNITS entry {key!r} refers to unknown static {ref}")
        entries.append((key, names[ref]))
        pos = e.end()
    if len(entries) != body.count("&*"):
        die("UNITS entry count mismatch")
    if len(entries) < len(units):
        die(f"UNITS has {len(entries)} entries for {len(units)} units")

    # ---- write ------------------------------------------------------------------------------
    L = []
    L.append("/- GENERATED by gen/units_q.py from src/haystack/units/units_generated.rs — do not edit. -/")
    L.append("import Hs.Model.UnitArith")
    L.append("namespace Hs.Gen.UnitsQ")
    L.append("open Hs.UnitArith")
    L.append("")
    L.append(f"/-- the {len(units)} `static ref … : Unit` items in source order; scale/offset are the exact values of the decimal literals -/")
    L.append("def units : List QUnit := [")
    rows = []
    for (name, quantity, ids, dims, scale, offset) in units:
        q = "none" if quantity is None else f"some {lean_str(quantity)}"
        d = "none" if dims is None else "some ⟨" + ", ".join(str(v) if v >= 0 else f"({v})" for v in dims) + "⟩"
        i = "[" + ", ".join(lean_str(x) for x in ids) + "]"
        rows.append(f"  ⟨{q}, {i}, {d}, {lean_rat(scale)}, {lean_rat(offset)}⟩  -- {len(rows)} {name}")
    # comma placement: before the trailing comment
    for k, r in enumerate(rows):
        head, _, tail = r.partition("  -- ")
        L.append(head + ("," if k + 1 < len(rows) else "") + "  -- " + tail)
    L.append("]")
    L.append("")
    L.append(f"/-- the {len(entries)} entries `(key, &*X)` of the `UNITS` array literal, in source order, `X` as index into `units` -/")
    L.append("def entries : List (String × Nat) := [")
    for k, (key, idx) in enumerate(entries):
        L.append(f"  ({lean_str(key)}, {idx})" + ("," if k + 1 < len(entries) else ""))
    L.append("]")
    L.append("")
    L.append("end Hs.Gen.UnitsQ")
    os.makedirs(outdir, exist_ok=True)
    out = os.path.join(outdir, "UnitsQ.lean")
    text = "\n".join(L) + "\n"
    old = None
    try:
        old = open(out, encoding="utf-8").read()
    except OSError:
        pass
    if old != text:
        open(out, "w", encoding="utf-8").write(text)
    print(f"units_q.py: {len(units)} units, {len(entries)} entries -> {out}")


if __name__ == "__main__":
    main()
