#!/usr/bin/env python3
"""
gen/zones.py — translator for C06 (timestamps keep their instant and zone).

  python3 gen/zones.py /repo lean/Hs/Gen     writes lean/Hs/Gen/Zones.lean

Extracted from /repo's CURRENT sources (shape asserted, exit 1 with a message otherwise):
  * src/haystack/timezone/iana.rs `find_timezone`: exact `name.parse()` first, then the region prefix vector,
    tried in order as `format!("{prefix}/{name}").parse()`;  `timezone_short_name` (text after the first '/');
    `is_utc` (`== UTC`);  `make_date_time` / `make_date_time_with_tz` (instant kept: `with_timezone`);
    `make_date_time_from_text` (the whole body: conversion, the zone offset rounded to the minute
    `signum * ((abs + 30) / 60) * 60`, the comparison with the written offset, the subtraction of the
    seconds and the re-check of the zone offset at the new instant);
  * src/haystack/timezone/mod.rs `fixed_timezone`: the slicing constants and literals of the offset-text ->
    `Etc/GMT-+N` mapping;
  * src/haystack/encoding/zinc/decode/scalar/date_time.rs `parse_time_zone_name`: first-byte range and the extra
    characters of the zone-name lexing class, the minimum length; `parse_time_zone`: the `"UTC"` literal;
    `parse_datetime`: the `UTC` shortcut, `make_date_time_with_tz` for `Z Name`, `make_date_time_from_text`
    for a text with an offset;
  * the other call sites of the two constructors: src/haystack/encoding/json/decode.rs `parse_datetime`
    (whole body: `val` must pass `DateTime::parse_from_rfc3339`, is parsed again by chrono and goes through
    `make_date_time_from_text` when there is a `tz`), src/haystack/val/datetime.rs `parse_from_rfc3339` /
    `parse_from_rfc3339_with_timezone`, src/c_api/value.rs `haystack_value_make_tz_datetime`
    (`make_date_time_with_tz`), and the two writers (`to_rfc3339_opts(SecondsFormat::AutoSi, true)`, the
    city name unless `is_utc`).
and from the COMPILED chrono-tz:
  * the zone id list: `<verif>/.cache/cargo-target/release/hsverif dump zones` (one IANA id per line); when the
    harness has not been built yet, the `name()` table of the generated `timezones.rs` in the cargo build
    directory, else the Zone/Link lines of the tz sources shipped in the chrono-tz crate.
The zone list is written three ways: the ids (`List (List Char)`), their keys (the id read as one base-256
number behind a leading 1) and a balanced search tree over the keys.
"""
import re, sys, os, glob, subprocess


sys.path.insert(0, os.path.dirname(os.path.abspath(__file__)))
from _exec import dump  # noqa: E402


def die(msg):
    print(f"gen/zones.py: shape assertion failed: {msg}")
    sys.exit(1)


class Soft(Exception):
    """the source text of a modelled item no longer has the shape this translator knows"""


def drift(msg):
    """A body that is MODELLED BY HAND (its parameters, if any, are taken from the second source or from the pinned
    expectation) changed its text.  Not a failure by itself: the model is tied to these functions by the differential
    run, which `check` widens when it sees this line."""
    print("DRIFT zones: " + " ".join(msg.split())[:500])


# what the model was written against (used when the text can no longer be parsed; validated by the differential run)
PINNED = {"colon_default": 3, "hour_start": 1, "utc_name": "UTC", "etc_prefix": "Etc/GMT",
          "first_lo": "A", "first_hi": "Z", "extra": "_/+-", "bad_len": 1}


def norm(s):
    return re.sub(r"\s+", " ", s.replace("\r\n", "\n")).strip()


def strip_comments(src):
    return re.sub(r"//[^\n]*", "", src.replace("\r\n", "\n"))


def fn_text(src, name):
    """source text of `fn name…{ … }` (brace matched)"""
    m = re.search(r"fn " + re.escape(name) + r"\b", src)
    if not m:
        die(f"fn {name} not found")
    i = src.index("{", m.end())
    # skip a `-> Result<…>` etc.: the body is the first `{` after the closing `)` of the parameter list
    depth, j = 0, i
    while True:
        if j >= len(src):
            die(f"fn {name}: unbalanced braces")
        if src[j] == "{":
            depth += 1
        elif src[j] == "}":
            depth -= 1
            if depth == 0:
                return src[m.start():j + 1]
        j += 1


def block_text(src, header):
    """source text of the item that starts with `header` up to its matching closing brace"""
    k = src.find(header)
    if k < 0:
        die(f"`{header}` not found")
    depth, j = 0, src.index("{", k)
    while True:
        if j >= len(src):
            die(f"`{header}`: unbalanced braces")
        if src[j] == "{":
            depth += 1
        elif src[j] == "}":
            depth -= 1
            if depth == 0:
                return src[k:j + 1]
        j += 1


def verif_root():
    return os.environ.get("VERIF_ROOT") or os.path.dirname(os.path.dirname(os.path.abspath(__file__)))


def zone_ids():
    root = verif_root()
    exe = os.path.join(root, ".cache", "cargo-target", "release", "hsverif")
    if os.path.exists(exe):
        try:
            r = subprocess.run([exe, "dump", "zones"], stdout=subprocess.PIPE, stderr=subprocess.DEVNULL, timeout=60, text=True)
            ids = [l.strip() for l in r.stdout.splitlines() if l.strip()]
            if r.returncode == 0 and len(ids) >= 500:
                return ids, "hsverif dump zones"
        except Exception:
            pass
    for f in sorted(glob.glob(os.path.join(root, ".cache", "cargo-target", "release", "build", "chrono-tz-*", "out", "timezones.rs"))):
        src = open(f, encoding="utf-8").read()
        m = re.search(r"pub fn name\(self\) -> &'static str \{\s*match self \{(.*?)\n\s*\}\s*\}", src, re.S)
        if m:
            ids = re.findall(r'Tz::\w+ => "([^"]+)"', m.group(1))
            if len(ids) >= 500:
                return ids, os.path.relpath(f, root)
    # the tz sources chrono-tz-build reads
    for d in sorted(glob.glob(os.path.expanduser("~/.cargo/registry/src/*/chrono-tz-0.6.3/tz"))):
        ids = set()
        for name in ["africa", "antarctica", "asia", "australasia", "backward", "etcetera", "europe", "northamerica", "southamerica"]:
            p = os.path.join(d, name)
            if not os.path.exists(p):
                continue
            for line in open(p, encoding="utf-8", errors="replace"):
                line = line.split("#", 1)[0]
                t = line.split()
                if len(t) >= 2 and t[0] == "Zone":
                    ids.add(t[1])
                elif len(t) >= 3 and t[0] == "Link":
                    ids.add(t[2])
        if len(ids) >= 500:
            return sorted(ids), "tz sources of chrono-tz-0.6.3"
    die("no source for the zone list (harness binary, generated timezones.rs, tz sources) was found")


def key(s):
    k = 1
    for b in s.encode("utf-8"):
        k = k * 256 + b
    return k


def chars(s):
    def one(c):
        if c == "'":
            return "'\\''"
        if c == "\\":
            return "'\\\\'"
        return f"'{c}'"
    return "[" + ", ".join(one(c) for c in s) + "]"


def tree(items):
    """balanced tree over sorted (key, id) pairs as a Lean term"""
    if not items:
        return ".leaf"
    mid = len(items) // 2
    k, s = items[mid]
    return f"(.node {tree(items[:mid])} {k} {chars(s)} {tree(items[mid + 1:])})"


def main():
    repo, outdir = sys.argv[1], sys.argv[2]
    iana = strip_comments(open(os.path.join(repo, "src/haystack/timezone/iana.rs"), encoding="utf-8", newline="").read())
    modrs = strip_comments(open(os.path.join(repo, "src/haystack/timezone/mod.rs"), encoding="utf-8", newline="").read())
    zdt = strip_comments(open(os.path.join(repo, "src/haystack/encoding/zinc/decode/scalar/date_time.rs"), encoding="utf-8", newline="").read())
    jdec = strip_comments(open(os.path.join(repo, "src/haystack/encoding/json/decode.rs"), encoding="utf-8", newline="").read())
    jenc = strip_comments(open(os.path.join(repo, "src/haystack/encoding/json/encode.rs"), encoding="utf-8", newline="").read())
    zenc = strip_comments(open(os.path.join(repo, "src/haystack/encoding/zinc/encode.rs"), encoding="utf-8", newline="").read())
    vdt = strip_comments(open(os.path.join(repo, "src/haystack/val/datetime.rs"), encoding="utf-8", newline="").read())
    capi = strip_comments(open(os.path.join(repo, "src/c_api/value.rs"), encoding="utf-8", newline="").read())

    # ---- find_timezone -------------------------------------------------------------------------------
    prefixes = None
    try:
        ft = fn_text(iana, "find_timezone")
        m = re.search(r"let prefixes = vec!\[(.*?)\];", ft, re.S)
        if not m:
            raise Soft("find_timezone: `let prefixes = vec![…]` not found")
        items = [x.strip() for x in m.group(1).split(",") if x.strip()]
        got = []
        for it in items:
            mm = re.fullmatch(r'"([A-Za-z_]+)"', it)
            if not mm:
                raise Soft(f"find_timezone: prefix entry `{it}` is not a plain string literal")
            got.append(mm.group(1))
        if len(got) < 5 or len(set(got)) != len(got):
            raise Soft(f"find_timezone: implausible prefix list {got}")
        skeleton = norm(ft.replace(m.group(0), "PREFIXES"))
        expected = norm("""fn find_timezone(name: &str) -> Result<Tz, String> { match name.parse() { Ok(tz) => Ok(tz), Err(err) => {
            PREFIXES if let Some(tz) = prefixes.into_iter().find_map(|prefix| -> Option<Tz> {
            match format!("{prefix}/{name}").parse() { Ok(tz) => Some(tz), Err(_) => None, } }) { Ok(tz) } else { Err(err) } } } }""")
        if skeleton != expected:
            raise Soft(f"find_timezone does not have the modelled shape (exact parse, then `prefix/name` in order): `{skeleton}`")
        prefixes = got
    except (Soft, SystemExit) as e:
        why = str(e) if isinstance(e, Soft) else "fn find_timezone not found"
        d = dump("c06")
        if d is None or d.get("cyclic") or d.get("mismatches") or len(d.get("prefixes", [])) < 5:
            die(f"{why}; and the second source (`hsverif dump c06`) gives no prefix list that reproduces the function: {d}")
        prefixes = d["prefixes"]
        print(f"FALLBACK zones: {' '.join(why.split())[:300]}; the region prefix list was measured on the real function by `hsverif dump c06` "
              f"(the list reproduces the resolution of all {d['names_checked']} zone ids and suffixes of zone ids)")

    def same_body(what, got, want):
        if got != norm(want):
            drift(f"{what} does not have the modelled text: `{got}`")

    def block_of(src, header):
        try:
            return norm(block_text(src, header))
        except SystemExit:
            return f"(`{header}` not found)"

    def text_of(src, name):
        try:
            return norm(fn_text(src, name))
        except SystemExit:
            return f"(fn {name} not found)"

    sn = text_of(iana, "timezone_short_name")
    if sn != norm("""fn timezone_short_name(date: &DateTimeType) -> String { let tz_id = date.offset().tz_id();
        tz_id[tz_id.find('/').map_or(0, |v| v + 1)..].to_string() }"""):
        drift(f"timezone_short_name does not have the modelled shape: `{sn}`")
    iu = text_of(iana, "is_utc")
    if iu != norm("fn is_utc(date: &DateTimeType) -> bool { date.timezone() == UTC }"):
        drift(f"is_utc does not have the modelled shape: `{iu}`")
    md = text_of(iana, "make_date_time")
    if md != norm("""fn make_date_time(date: StdDateTime<FixedOffset>) -> Result<DateTimeType, String> {
        if let Ok(tz) = find_timezone(&fixed_timezone(&date.offset().to_string())) { Ok(date.with_timezone(&tz)) }
        else { Err("Invalid timezone".into()) } }"""):
        drift(f"make_date_time does not have the modelled shape (zone from the offset text, instant kept by with_timezone): `{md}`")
    mt = text_of(iana, "make_date_time_with_tz")
    if mt != norm("""fn make_date_time_with_tz( datetime: &StdDateTime<FixedOffset>, tz: &str, ) -> Result<DateTimeType, String> {
        if let Ok(tz) = find_timezone(tz) { Ok(datetime.with_timezone(&tz)) }
        else { Err(format!("Can't create datetime with timezone {tz}")) } }"""):
        drift(f"make_date_time_with_tz does not have the modelled shape: `{mt}`")
    mf = text_of(iana, "make_date_time_from_text")
    if mf != norm("""fn make_date_time_from_text( datetime: &StdDateTime<FixedOffset>, tz: &str, ) -> Result<DateTimeType, String> {
        use chrono::Offset;
        let converted = make_date_time_with_tz(datetime, tz)?;
        let zone_secs = converted.offset().fix().local_minus_utc();
        let rounded = zone_secs.signum() * ((zone_secs.abs() + 30) / 60) * 60;
        let seconds = zone_secs - rounded;
        if seconds != 0 && rounded == datetime.offset().local_minus_utc() {
            let exact = converted - chrono::Duration::seconds(seconds.into());
            if exact.offset().fix().local_minus_utc() == zone_secs { return Ok(exact); }
        }
        Ok(converted) }"""):
        drift("make_date_time_from_text does not have the modelled shape (convert; rounded = signum * ((abs + 30) / 60) * 60; "
            f"seconds != 0 && rounded == written offset; converted - seconds; offset re-checked): `{mf}`")

    # ---- fixed_timezone ------------------------------------------------------------------------------
    fz = text_of(modrs, "fixed_timezone")
    mfz = re.fullmatch(
        r"fn fixed_timezone\(offset: &str\) -> String \{ "
        r"let colon = offset\.find\(':'\)\.unwrap_or\((\d+)\); "
        r"let gmt_offset = offset\[(\d+)\.\.colon\]\.trim_start_matches\('0'\)\.to_string\(\); "
        r"if gmt_offset\.is_empty\(\) \|\| offset\[colon\.\.\]\.chars\(\)\.any\(\|c\| c != ':' && c != '0'\) \{ return \"([A-Za-z/]+)\"\.into\(\); \} "
        r"let gmt_sign = offset\[0\.\.1\]\.to_string\(\); "
        r"format!\( \"([A-Za-z/]+)\{sign\}\{gmt_offset\}\", sign = if gmt_sign == \"-\" \{ \"\+\" \} else \{ \"-\" \} \) \}", fz)
    if not mfz:
        drift(f"fixed_timezone does not have the modelled shape (all hour digits, minutes must be zero): `{fz}`; its four constants are the pinned ones")
        colon_default, hour_start, utc_name, etc_prefix = PINNED["colon_default"], PINNED["hour_start"], PINNED["utc_name"], PINNED["etc_prefix"]
    else:
        colon_default, hour_start, utc_name, etc_prefix = int(mfz.group(1)), int(mfz.group(2)), mfz.group(3), mfz.group(4)

    # ---- zinc zone-name lexing -----------------------------------------------------------------------
    pn = text_of(zdt, "parse_time_zone_name")
    mpn = re.fullmatch(
        r"fn parse_time_zone_name<R: Read>\(scanner: &mut Scanner<R>\) -> Result<String, Error> \{ "
        r"let mut name = vec!\[scanner\.expect_and_consume_any_in_range\(&\(b'(.)'\.\.=b'(.)'\)\)\?\]; "
        r"while !scanner\.is_eof && \(scanner\.is_alpha_num\(\) \|\| scanner\.is_any_of\(\"([^\"]*)\"\)\) \{ name\.push\(scanner\.cur\); scanner\.advance\(\)\? \} "
        r"let name = String::from_utf8_lossy\(&name\)\.to_string\(\); "
        r"if name\.len\(\) == (\d+) \{ scanner\.make_generic_err\(&format!\(\"Invalid timezone name '\{name\}'\.\"\)\) \} else \{ Ok\(name\) \} \}", pn)
    if not mpn:
        drift(f"parse_time_zone_name does not have the modelled shape: `{pn}`; its lexing class is the pinned one")
        first_lo, first_hi, extra, bad_len = PINNED["first_lo"], PINNED["first_hi"], PINNED["extra"], PINNED["bad_len"]
    else:
        first_lo, first_hi, extra, bad_len = mpn.group(1), mpn.group(2), mpn.group(3), int(mpn.group(4))
    ptz = text_of(zdt, "parse_datetime")
    if 'if tz == "UTC" { Ok(utc.into()) }' not in ptz:
        drift("parse_datetime: the `tz == \"UTC\"` shortcut is not there")
    ptz_tail = ptz[ptz.find("let (tz, fixed_offset)"):] if "let (tz, fixed_offset)" in ptz else ""
    if ptz_tail != norm("""let (tz, fixed_offset) = parse_time_zone(scanner)?;
        let datetime = date.and_time(*time.deref());
        let utc = Utc.from_utc_datetime(&datetime);
        if tz == "UTC" { Ok(utc.into()) } else {
            fixed_offset .map_or_else(
                || make_date_time_with_tz(&utc.with_timezone(&Utc.fix()), &tz),
                |offset| { offset .with_ymd_and_hms( date.year(), date.month(), date.day(), time.hour(), time.minute(), time.second(), )
                    .single() .and_then(|dt| dt.with_nanosecond(time.nanosecond())) .ok_or_else(|| String::from("Invalid date time."))
                    .and_then(|fixed| make_date_time_from_text(&fixed, &tz)) }, )
            .map(DateTime::from) .or_else(|err| scanner.make_generic_err(&err)) } }"""):
        drift("parse_datetime: the paths after `parse_time_zone` are not as modelled (`Z Name`: make_date_time_with_tz on the "
            f"fields as UTC; `+hh:mm Name`: make_date_time_from_text on the fields at that offset): `{ptz_tail}`")
    ptzz = text_of(zdt, "parse_time_zone")
    for frag in ["Duration::hours(gmt_offset[1..3].parse::<i64>().unwrap_or(0))", "Duration::minutes(gmt_offset[4..6].parse::<i64>().unwrap_or(0))",
                 'if gmt_sign == "+" { FixedOffset::east_opt(dur.num_seconds() as i32) } else { FixedOffset::west_opt(dur.num_seconds() as i32) }',
                 'Ok(("UTC".into(), None))']:
        if frag not in ptzz:
            drift(f"parse_time_zone: `{frag}` not found")

    # ---- the other call sites ------------------------------------------------------------------------
    jp = text_of(jdec, "parse_datetime")
    if jp != norm("""fn parse_datetime(dict: &Dict) -> Result<HVal, JsonErr> { match dict.get_str("val") {
        Some(val) => match DateTime::parse_from_rfc3339(&val.value) {
            Ok(date) => match dict.get_str("tz") {
                Some(tz) => {
                    let datetime = chrono::DateTime::parse_from_rfc3339(&val.value) .map_err(|err| err.to_string())
                        .and_then(|written| make_date_time_from_text(&written, &tz.value));
                    match datetime { Ok(datetime) => Ok(HVal::DateTime(datetime.into())), Err(err) => Err(JsonErr::custom(err)), } }
                None => Ok(HVal::make_datetime(date)), },
            Err(err) => Err(JsonErr::custom(format!("Invalid datetime 'val', {err}"))), },
        None => Err(JsonErr::custom("Missing or invalid 'val'")), } }"""):
        drift(f"json parse_datetime does not have the modelled shape (parse_from_rfc3339(val), then make_date_time_from_text of the re-parsed val when there is a tz): `{jp}`")
    vp = text_of(vdt, "parse_from_rfc3339")
    if vp != norm("""fn parse_from_rfc3339(arg: &str) -> Result<DateTime, String> { match DateTimeImpl::<FixedOffset>::parse_from_rfc3339(arg) {
        Ok(value) => Ok(DateTime { value: make_date_time(value)?, }), Err(err) => Err(format!("Can't parse date time {err}")), } }"""):
        drift(f"DateTime::parse_from_rfc3339 does not have the modelled shape: `{vp}`")
    vw = text_of(vdt, "parse_from_rfc3339_with_timezone")
    if vw != norm("""fn parse_from_rfc3339_with_timezone(datetime: &str, tz: &str) -> Result<DateTime, String> {
        match DateTimeImpl::<FixedOffset>::parse_from_rfc3339(datetime) {
        Ok(value) => Ok(DateTime { value: make_date_time_from_text(&value, tz)?, }), Err(err) => Err(format!("Can't parse date time {err}")), } }"""):
        drift(f"DateTime::parse_from_rfc3339_with_timezone does not have the modelled shape (make_date_time_from_text): `{vw}`")
    cm = text_of(capi, "haystack_value_make_tz_datetime")
    if "match make_date_time_with_tz(&datetime.with_timezone(&Utc.fix()), tz) {" not in cm or "make_date_time_from_text" in cm:
        drift("haystack_value_make_tz_datetime: `make_date_time_with_tz(&datetime.with_timezone(&Utc.fix()), tz)` is not there")
    ze = block_of(zenc, "impl ToZinc for DateTime {")
    if ze != norm("""impl ToZinc for DateTime { fn to_zinc<W: std::io::Write>(&self, writer: &mut W) -> Result<()> {
        if self.is_utc() { write_str(writer, &self.to_rfc3339_opts(SecondsFormat::AutoSi, true))?; }
        else { writer.write_fmt(format_args!( "{} {}", &self.to_rfc3339_opts(SecondsFormat::AutoSi, true), &self.timezone_short_name() ))? }
        Ok(()) } }"""):
        drift(f"impl ToZinc for DateTime does not have the modelled shape: `{ze}`")
    je = block_of(jenc, "impl Serialize for DateTime {")
    if je != norm("""impl Serialize for DateTime { fn serialize<S: Serializer>(&self, serializer: S) -> Result<S::Ok, S::Error> {
        let mut map = serializer.serialize_map(Some(2))?;
        map.serialize_entry("_kind", "dateTime")?;
        map.serialize_entry("val", &self.to_rfc3339_opts(SecondsFormat::AutoSi, true))?;
        if !self.is_utc() { map.serialize_entry("tz", &self.timezone_short_name())?; }
        map.end() } }"""):
        drift(f"impl Serialize for DateTime does not have the modelled shape: `{je}`")

    # ---- zones ---------------------------------------------------------------------------------------
    ids, source = zone_ids()
    if len(ids) < 500:
        die(f"only {len(ids)} zone ids")
    if len(set(ids)) != len(ids):
        die("duplicate zone ids")
    for z in ids:
        if not re.fullmatch(r"[\x21-\x7e]+", z):
            die(f"zone id {z!r} is not printable ASCII")
    ids = sorted(ids, key=key)      # NB: ordered by key (shorter ids first), which is the tree's order
    keyed = [(key(z), z) for z in ids]

    L = []
    L.append("/- GENERATED by gen/zones.py from /repo/src/haystack/timezone/{iana,mod}.rs,")
    L.append("   encoding/zinc/decode/scalar/date_time.rs and the compiled chrono-tz — do not edit. -/")
    L.append("namespace Hs.Gen.Zones")
    L.append("")
    L.append("/-- `find_timezone`: the region prefixes tried in order after the exact parse -/")
    L.append("def prefixes : List (List Char) :=")
    L.append("  [" + ",\n   ".join(chars(p) for p in prefixes) + "]")
    L.append("")
    L.append("/-- `fixed_timezone`: `offset.find(':').unwrap_or(…)`, start of the hour digits, the two literals -/")
    L.append(f"def colonDefault : Nat := {colon_default}")
    L.append(f"def hourStart : Nat := {hour_start}")
    L.append(f"def utcName : List Char := {chars(utc_name)}")
    L.append(f"def etcPrefix : List Char := {chars(etc_prefix)}")
    L.append("")
    L.append("/-- `parse_time_zone_name`: first byte range, extra characters besides ASCII letters and digits,")
    L.append("the length that is rejected -/")
    L.append(f"def tzNameFirstLo : Char := '{first_lo}'")
    L.append(f"def tzNameFirstHi : Char := '{first_hi}'")
    L.append(f"def tzNameExtra : List Char := {chars(extra)}")
    L.append(f"def tzNameBadLen : Nat := {bad_len}")
    L.append("")
    L.append("/-- search tree over the zone ids: key = the id read as a base-256 number behind a leading 1 -/")
    L.append("inductive ZTree where")
    L.append("  | leaf")
    L.append("  | node (l : ZTree) (k : Nat) (id : List Char) (r : ZTree)")
    L.append("")
    L.append(f"/-- the {len(ids)} zone ids of the compiled chrono-tz, ordered by key -/")
    L.append("def zones : List (List Char) :=")
    L.append("  [" + ",\n   ".join(chars(z) for z in ids) + "]")
    L.append("")
    L.append("def zoneKeys : List Nat :=")
    L.append("  [" + ",\n   ".join(str(k) for k, _ in keyed) + "]")
    L.append("")
    L.append("set_option maxRecDepth 100000 in")
    L.append("def zoneTree : ZTree :=")
    L.append("  " + tree(keyed))
    L.append("")
    L.append("end Hs.Gen.Zones")
    L.append("")
    text = "\n".join(L)
    os.makedirs(outdir, exist_ok=True)
    path = os.path.join(outdir, "Zones.lean")
    old = open(path, encoding="utf-8").read() if os.path.exists(path) else None
    if old != text:
        open(path, "w", encoding="utf-8").write(text)


if __name__ == "__main__":
    main()
