#!/usr/bin/env python3
"""
gen/dis.py — translator for C20 (display names).

  python3 gen/dis.py /repo lean/Hs/Gen     writes lean/Hs/Gen/Dis.lean

Extracted from /repo's CURRENT sources:
  * src/haystack/val/dict.rs `dict_to_dis`: the ordered sequence of `if let Some(val) = dict.get("<tag>") { … }`
    blocks (the precedence chain) and, per block, which of the four body shapes it has
      plain  `return decode_str_from_value(val);`
      macro  Str -> dis_macro(&val.value, |val| dict.get(val)…, get_localized), else decode_str_from_value(val)
      key    Str -> get_localized(&…) if Some, then decode_str_from_value(val)
      ref    Ref -> val.dis or val.value, else decode_str_from_value(val)
    and the final `def.unwrap_or(Cow::Borrowed(""))`;
  * `decode_str_from_value`: Str -> the string, everything else -> `val.to_string()`;
  * src/haystack/val/dis_macro.rs: the single regex literal, parsed into its three alternatives
      (\$(HEAD TAIL q))|(\$\{(HEAD TAIL q)\})|(\$<([^>] q)>)
    (character classes as code point ranges, quantifiers as minimum repetition counts), and the
    capture-group numbers the replacer reads (2 or 4 -> tag, 6 -> localisation key).
Exits non-zero with a message when an item does not have the expected shape.
"""
import re, sys, os


sys.path.insert(0, os.path.dirname(os.path.abspath(__file__)))
from _exec import ShapeMismatch, dump  # noqa: E402


def die(msg):
    raise ShapeMismatch(msg)


def strip_comments(src):
    return re.sub(r"//[^\n]*", "", src)


def norm(s):
    return re.sub(r"\s+", " ", s).strip()


def lean_str(s):
    out = '"'
    for ch in s:
        if ch == '"':
            out += '\\"'
        elif ch == "\\":
            out += "\\\\"
        elif ch == "\n":
            out += "\\n"
        else:
            out += ch
    return out + '"'


# ---- dict_to_dis ---------------------------------------------------------------------------------
PLAIN = "return decode_str_from_value(val);"
MACRO = ("return if let Value::Str(val) = val { dis_macro( &val.value, |val| dict.get(val).map(Cow::Borrowed), "
         "get_localized, ) } else { decode_str_from_value(val) };")
KEY = ("if let Value::Str(val_str) = val { if let Some(val_str) = get_localized(&val_str.value) { return val_str; } } "
       "return decode_str_from_value(val);")
REF = ("return if let Value::Ref(val) = val { Cow::Borrowed(val.dis.as_ref().unwrap_or(&val.value)) } "
       "else { decode_str_from_value(val) };")
SHAPES = {norm(PLAIN): "plain", norm(MACRO): "macro", norm(KEY): "key", norm(REF): "ref"}


def chain_of(dict_rs):
    src = strip_comments(dict_rs)
    m = re.search(r"pub fn dict_to_dis<[^>]*>\s*\((.*?)\)\s*->\s*Cow<'a, str>\s*where.*?\{", src, re.S)
    if not m:
        die("dict_to_dis: signature not found")
    params = norm(m.group(1))
    if not re.fullmatch(r"dict: &'a Dict, get_localized: &'a GetLocalizedFunc, def: Option<Cow<'a, str>>,?", params):
        die(f"dict_to_dis: unexpected parameters `{params}`")
    start = m.end() - 1
    depth, j = 0, start
    while True:
        if j >= len(src):
            die("dict_to_dis: unbalanced braces")
        if src[j] == "{":
            depth += 1
        elif src[j] == "}":
            depth -= 1
            if depth == 0:
                break
        j += 1
    body = src[start + 1:j]
    # split the body into top-level statements: `if let Some(val) = dict.get("x") { … }` blocks and a tail
    pos = 0
    chain = []
    head = re.compile(r'\s*if let Some\(val\) = dict\.get\("([^"]*)"\)\s*\{')
    while True:
        hm = head.match(body, pos)
        if not hm:
            break
        tag = hm.group(1)
        d, k = 1, hm.end()
        while d > 0:
            if k >= len(body):
                die(f"dict_to_dis: block of `{tag}` is not closed")
            if body[k] == "{":
                d += 1
            elif body[k] == "}":
                d -= 1
            k += 1
        inner = norm(body[hm.end():k - 1])
        shape = SHAPES.get(inner)
        if shape is None:
            die(f"dict_to_dis: the block of `{tag}` has an unknown body: `{inner}`")
        chain.append((tag, shape))
        pos = k
    tail = norm(body[pos:])
    if tail != 'def.unwrap_or(Cow::Borrowed(""))':
        die(f"dict_to_dis: unexpected tail after the tag blocks: `{tail}`")
    if len(chain) < 1:
        die("dict_to_dis: no `dict.get(\"…\")` block found")
    if len(set(t for t, _ in chain)) != len(chain):
        die("dict_to_dis: a tag is tested twice")
    n_get = len(re.findall(r"dict\.get\(\"", body))
    if n_get != len(chain):
        die(f"dict_to_dis: {n_get} literal dict.get calls but {len(chain)} top-level blocks")
    # decode_str_from_value
    m = re.search(r"fn decode_str_from_value\(val: &'_ Value\) -> Cow<'_, str>\s*\{(.*?)\n\}", src, re.S)
    if not m:
        die("decode_str_from_value not found")
    if norm(m.group(1)) != norm("match val { Value::Str(val) => Cow::Borrowed(&val.value), _ => Cow::Owned(val.to_string()), }"):
        die(f"decode_str_from_value: unexpected body `{norm(m.group(1))}`")
    # HaystackDict::dis
    if not re.search(r"fn dis\(&self\) -> Cow<'_, str>\s*\{\s*dict_to_dis\(self, &\|_\| None, None\)\s*\}", src):
        die("HaystackDict::dis is not `dict_to_dis(self, &|_| None, None)`")
    return chain


# ---- the regex -----------------------------------------------------------------------------------
def parse_class(cls):
    """`[a-zA-Z0-9_]` -> list of (lo, hi) code points; negated classes are handled by the caller."""
    assert cls[0] == "[" and cls[-1] == "]"
    inner = cls[1:-1]
    out = []
    i = 0
    while i < len(inner):
        c = inner[i]
        if c in "\\[]^":
            die(f"regex: unsupported character `{c}` in class `{cls}`")
        if i + 2 < len(inner) and inner[i + 1] == "-":
            lo, hi = ord(c), ord(inner[i + 2])
            if lo > hi:
                die(f"regex: bad range in `{cls}`")
            out.append((lo, hi))
            i += 3
        else:
            if c == "-":
                die(f"regex: stray `-` in `{cls}`")
            out.append((ord(c), ord(c)))
            i += 1
    return out


def quant_min(q):
    if q == "+":
        return 1
    if q == "*":
        return 0
    die(f"regex: unsupported quantifier `{q}`")


def regex_of(macro_rs):
    src = strip_comments(macro_rs.split("#[cfg(test)]")[0])
    lits = re.findall(r'Regex::new\(\s*r"([^"]*)"\s*,?\s*\)', src)
    if len(lits) != 1:
        die(f"dis_macro.rs: expected exactly one `Regex::new(r\"…\")`, found {len(lits)}")
    rx = lits[0]
    ident = r"(\[[^\]]*\])(\[[^\]]*\])([+*])"
    shape = re.compile(r"\(\\\$\(" + ident + r"\)\)\|\(\\\$\\\{\(" + ident + r"\)\\\}\)\|\(\\\$<\(\[\^(.)\]([+*])\)(.)\)")
    m = shape.fullmatch(rx)
    if not m:
        die(f"dis_macro.rs: the regex `{rx}` is not of the form "
            r"(\$(HEAD TAIL q))|(\$\{(HEAD TAIL q)\})|(\$<([^c] q)c)")
    h1, t1, q1, h2, t2, q2, stop, q3, close = m.groups()
    if stop != close:
        die(f"regex: the key class excludes `{stop}` but the key is closed by `{close}`")
    head1, tail1, head2, tail2 = parse_class(h1), parse_class(t1), parse_class(h2), parse_class(t2)
    # greedy matching without backtracking is exact only if the terminator cannot be consumed by the class before it
    for (lo, hi) in tail2:
        if lo <= ord("}") <= hi:
            die("regex: `}` belongs to the identifier class of the `${…}` alternative (backtracking would matter)")
    # the replacer: groups 2 / 4 are tags, group 6 is the localisation key, group 0 is the fallback
    if not re.search(r"caps\.get\(2\)\.or_else\(\|\| caps\.get\(4\)\)", src):
        die("DisReplacer: the tag capture is not `caps.get(2).or_else(|| caps.get(4))`")
    if not re.search(r"else if let Some\(cap_match\) = caps\.get\(6\)", src):
        die("DisReplacer: the localisation capture is not `caps.get(6)`")
    if not re.search(r"dst\.push_str\(caps\.get\(0\)\.unwrap\(\)\.as_str\(\)\)", src):
        die("DisReplacer: the fallback is not the whole match `caps.get(0)`")
    if not re.search(r"if let Value::Ref\(val\) = value\.as_ref\(\) \{\s*dst\.push_str\(val\.dis\.as_ref\(\)\.unwrap_or\(&val\.value\)\);\s*"
                     r"\} else if let Value::Str\(val\) = value\.as_ref\(\) \{\s*dst\.push_str\(&val\.value\);\s*"
                     r"\} else \{\s*dst\.push_str\(&value\.to_string\(\)\);\s*\}", src):
        die("DisReplacer: the value-to-text cases are not Ref (dis or id) / Str / to_string()")
    if not re.search(r"\.replace_all\(\s*pattern,", src):
        die("dis_macro: the regex is not applied with `replace_all(pattern, …)`")
    return rx, head1, tail1, quant_min(q1), head2, tail2, quant_min(q2), ord(stop), quant_min(q3)


def ranges(rs):
    return "[" + ", ".join(f"({lo}, {hi})" for lo, hi in rs) + "]"


def main():
    repo, outdir = sys.argv[1], sys.argv[2]
    dict_rs = open(os.path.join(repo, "src/haystack/val/dict.rs"), encoding="utf-8").read()
    macro_rs = open(os.path.join(repo, "src/haystack/val/dis_macro.rs"), encoding="utf-8").read()
    code = {"plain": 0, "macro": 1, "key": 2, "ref": 3}
    name_of = {v: k for k, v in code.items()}
    d = None
    try:
        chain = chain_of(dict_rs)
    except ShapeMismatch as e:
        d = dump("c20")
        if d is None:
            print(f"gen/dis.py: shape assertion failed: {e}")
            sys.exit(1)
        print(f"FALLBACK dis: dict_to_dis no longer has the parsed shape ({e}); the precedence chain was measured on the real "
              "function (pairwise dominance of the eight tags, treatment of Str / Ref / other values per tag, thirteen near-miss names) by `hsverif dump c20`")
        code.update({"shape9": 9}); name_of[9] = "shape9"
        chain = [(t, name_of.get(c, "shape9")) for t, c in d["chain"]]
    try:
        rx, head1, tail1, min1, head2, tail2, min2, stop, min3 = regex_of(macro_rs)
        # canonical form (the same whichever source the table comes from): ranges in ascending order
        head1, tail1, head2, tail2 = sorted(head1), sorted(tail1), sorted(head2), sorted(tail2)
    except ShapeMismatch as e:
        d = d or dump("c20")
        if d is None:
            print(f"gen/dis.py: shape assertion failed: {e}")
            sys.exit(1)
        print(f"FALLBACK dis: dis_macro.rs no longer has the parsed shape ({e}); the three macro forms were measured on the real "
              "function (every Unicode scalar value in head, tail and key position; minimum lengths; the closing character) by `hsverif dump c20`")
        rx = "(measured by execution)"
        head1, tail1, head2, tail2 = ([tuple(r) for r in d[k]] for k in ("head1", "tail1", "head2", "tail2"))
        min1, min2, stop, min3 = d["tailMin1"], d["tailMin2"], d["keyStop"], d["keyMin"]
        if min(min1, min2, min3) < 0:
            print("gen/dis.py: execution found no `$name` / `${name}` / `$<key>` form at all")
            sys.exit(1)
    lines = [
        "/- GENERATED by gen/dis.py from /repo/src/haystack/val/{dict,dis_macro}.rs — do not edit. -/",
        "namespace Hs.Gen.Dis",
        "",
        "/-- `dict_to_dis`: the tags tested by the if-chain, in order, with the shape of each block",
        "(0 plain, 1 disMacro: Str -> macro, 2 disKey: Str -> localisation, 3 id: Ref -> dis or id). -/",
        "def chain : List (String × Nat) :=",
        "  [" + ", ".join(f"({lean_str(t)}, {code[s]})" for t, s in chain) + "]",
        "",
        "/-- the regex literal of `dis_macro` -/",
        f"def regexSrc : String := {lean_str(rx)}",
        "",
        "/-- alternative 1 `\\$(HEAD TAIL q)`: classes as code point ranges, minimum length of the TAIL run -/",
        f"def head1 : List (Nat × Nat) := {ranges(head1)}",
        f"def tail1 : List (Nat × Nat) := {ranges(tail1)}",
        f"def tailMin1 : Nat := {min1}",
        "/-- alternative 2 `\\$\\{(HEAD TAIL q)\\}` -/",
        f"def head2 : List (Nat × Nat) := {ranges(head2)}",
        f"def tail2 : List (Nat × Nat) := {ranges(tail2)}",
        f"def tailMin2 : Nat := {min2}",
        "/-- alternative 3 `\\$<([^c] q)c`: the excluded = closing code point, minimum key length -/",
        f"def keyStop : Nat := {stop}",
        f"def keyMin : Nat := {min3}",
        "",
        "end Hs.Gen.Dis",
        "",
    ]
    os.makedirs(outdir, exist_ok=True)
    path = os.path.join(outdir, "Dis.lean")
    text = "\n".join(lines)
    old = open(path, encoding="utf-8").read() if os.path.exists(path) else None
    if old != text:
        open(path, "w", encoding="utf-8").write(text)


if __name__ == "__main__":
    main()
