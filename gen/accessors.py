#!/usr/bin/env python3
"""
gen/accessors.py — translator for the typed accessors of `Value` and `Dict` (C19).

  python3 gen/accessors.py /repo lean/Hs/Gen      writes lean/Hs/Gen/Accessors.lean

From /repo/src/haystack/val/*.rs (current working tree):
  * every `impl TryFrom<&Value> for T`: body must be
        match value { Value::V(v)? => Ok(EXPR), _ => Err("…"), }
    -> (T, V, payload class) where the class says what EXPR returns:
        whole  = the stored payload (`*v`, `v.clone()`)
        value  = its field `value` (`v.value`, `v.value.clone()`)
        unit   = the unit struct of a payload-free variant (`Marker`, `Na`, `Remove`)
  * the macros `dict_get!` / `dict_has!` of dict.rs (bodies asserted) and every use in `impl HaystackDict for Dict`:
        fn get_x<'a>(&'a self, key: &str) -> Option<&'a T> { dict_get! {self, key, V} }      -> (get_x, get, V)
        fn has_x(&self, key: &str) -> bool { dict_has! {self, key, V} }                     -> (has_x, has, V)
  * the getters with a fixed key: `self.get_x("key")` in `id`, `safe_id`, `ts`                 -> (fn, get_x, key)
"""
import glob
import os
import re
import sys


sys.path.insert(0, os.path.dirname(os.path.abspath(__file__)))
from _exec import ShapeMismatch, dump  # noqa: E402


def die(msg):
    raise ShapeMismatch(msg)


def lean_chars(s):
    out = []
    for c in s:
        if c.isascii() and (c.isalnum() or c in "_ -.:/"):
            out.append(f"'{c}'")
        else:
            out.append(f"Char.ofNat {ord(c)}")
    return "[" + ", ".join(out) + "]"


def block_after(src, start):
    i = src.index("{", start)
    depth = 0
    for j in range(i, len(src)):
        if src[j] == "{":
            depth += 1
        elif src[j] == "}":
            depth -= 1
            if depth == 0:
                return src[i + 1:j]
    die("unbalanced braces")


def paren_block(src, start):
    """text between the `(` at/after `start` and its matching `)`"""
    i = src.index("(", start)
    depth = 0
    for j in range(i, len(src)):
        if src[j] == "(":
            depth += 1
        elif src[j] == ")":
            depth -= 1
            if depth == 0:
                return src[i + 1:j]
    die("unbalanced parentheses")


def strip_comments(s):
    return re.sub(r"(?m)^\s*//[^\n]*", "", s)


def squash(s):
    return " ".join(s.split())


def extract(repo):
    vdir = os.path.join(repo, "src/haystack/val")
    files = sorted(glob.glob(os.path.join(vdir, "*.rs")))
    if not files:
        die("no file in src/haystack/val")

    # ---- TryFrom<&Value> ---------------------------------------------------------------------
    try_froms = []
    for f in files:
        src = strip_comments(open(f, encoding="utf-8").read())
        base = os.path.basename(f)
        n_hdr = len(re.findall(r"impl\s+TryFrom<&\s*Value>", src))
        n = 0
        for m in re.finditer(r"impl TryFrom<&Value> for (\w+)\s*\{", src):
            n += 1
            target = m.group(1)
            body = squash(block_after(src, m.start()))
            mm = re.fullmatch(
                r"type Error = &'static str; fn try_from\(value: &Value\) -> Result<Self, Self::Error> \{ "
                r"match value \{ Value::(\w+)(\((\w+)\))? => Ok\(([^()]*(?:\(\))?)\), _ => Err\(\"[^\"]*\"\),? \} \}", body)
            if not mm:
                die(f"{base}: `impl TryFrom<&Value> for {target}` is not a two-arm match `Value::V… => Ok(…), _ => Err(\"…\")`: {body[:160]}")
            variant, binder, expr = mm.group(1), mm.group(3), mm.group(4)
            if binder is not None and expr in (f"*{binder}", f"{binder}.clone()"):
                cls = "whole"
            elif binder is not None and expr in (f"{binder}.value", f"{binder}.value.clone()"):
                cls = "value"
            elif binder is None and expr == target:
                cls = "unit"
            else:
                die(f"{base}: TryFrom<&Value> for {target}: payload expression `{expr}` not recognised")
            try_froms.append((target, variant, cls))
        if n != n_hdr:
            die(f"{base}: {n_hdr} `impl TryFrom<&Value>` headers but {n} parsed")
    if not try_froms:
        die("no `impl TryFrom<&Value> for T` found")
    tg = [t for t, _, _ in try_froms]
    if len(set(tg)) != len(tg):
        die("two TryFrom<&Value> impls for the same target type")

    # ---- dict.rs macros and getters ----------------------------------------------------------
    dsrc = strip_comments(open(os.path.join(vdir, "dict.rs"), encoding="utf-8").read())
    m = re.search(r"macro_rules! dict_get\(", dsrc)
    if not m:
        die("macro dict_get not found")
    g = squash(paren_block(dsrc, m.start()))
    if g != ("{ $self:ident, $key:expr, $type:ident } => { { if let Some(value) = $self.get($key) { match value { "
             "Value::$type(val) => Some(&val), _ => None, } } else { None } } };"):
        die(f"macro dict_get has another body: {g}")
    m = re.search(r"macro_rules! dict_has\(", dsrc)
    if not m:
        die("macro dict_has not found")
    h = squash(paren_block(dsrc, m.start()))
    if h != "{ $self:ident, $key:expr, $type:ident } => { { let entry = $self.get($key); matches!(entry, Some(Value::$type)) } };":
        die(f"macro dict_has has another body: {h}")

    m = re.search(r"impl HaystackDict for Dict\s*\{", dsrc)
    if not m:
        die("`impl HaystackDict for Dict` not found")
    impl = block_after(dsrc, m.start())
    getters, keyed = [], []
    n_uses = len(re.findall(r"dict_(get|has)!", impl))
    for fm in re.finditer(r"fn (\w+)(<'a>)?\((&'a self|&self)(, key: &str)?\) -> ([^{]+?)\s*\{", impl):
        fn, ret = fm.group(1), squash(fm.group(5))
        b = squash(block_after(impl, fm.end() - 1))
        mg = re.fullmatch(r"dict_(get|has)! ?\{ ?self, key, (\w+) ?\}", b)
        if mg:
            kind, ty = mg.group(1), mg.group(2)
            if fm.group(4) is None:
                die(f"{fn}: uses dict_{kind}! without a `key: &str` parameter")
            if kind == "get" and ret != f"Option<&'a {ty}>":
                die(f"{fn}: dict_get! with type {ty} but return type {ret}")
            if kind == "has" and ret != "bool":
                die(f"{fn}: dict_has! but return type {ret}")
            getters.append((fn, kind, ty))
            continue
        if "dict_get!" in b or "dict_has!" in b:
            die(f"{fn}: unrecognised use of dict_get!/dict_has!: {b}")
        mk = re.fullmatch(r"self\.(get_\w+)\(\"([^\"\\]*)\"\)(\.map_or\(Ref::default\(\), \|id\| id\.clone\(\)\))?", b)
        if mk:
            keyed.append((fn, mk.group(1), mk.group(2)))
    if len(getters) != n_uses:
        die(f"{n_uses} uses of dict_get!/dict_has! in impl HaystackDict but {len(getters)} parsed")
    gnames = {g for g, _, _ in getters}
    for fn, g, _ in keyed:
        if g not in gnames:
            die(f"{fn}: calls self.{g}, which is not a dict_get! getter")

    return try_froms, getters, keyed


def by_execution():
    d = dump("c19")
    if d is None:
        return None
    return [tuple(x) for x in d["tryFroms"]], [tuple(x) for x in d["getters"]], [tuple(x) for x in d["keyedGetters"]]


def main():
    if len(sys.argv) != 3:
        print("usage: accessors.py <repo> <outdir>")
        sys.exit(2)
    repo, outdir = sys.argv[1], sys.argv[2]
    how = "source text"
    try:
        tables = extract(repo)
    except ShapeMismatch as e:
        tables = by_execution()
        if tables is None:
            print(f"gen/accessors.py: shape mismatch: {e}")
            sys.exit(1)
        how = "execution"
        print(f"FALLBACK accessors: val/*.rs no longer has the parsed shape ({e}); tables taken from `hsverif dump c19` (every typed conversion and getter executed on a value of each variant)")
    try_froms, getters, keyed = tables

    def triples(name, doc, tbl):
        out = [f"/-- {doc} -/", f"def {name} : List (List Char × List Char × List Char) := ["]
        out.append(",\n".join(f"  ({lean_chars(a)}, {lean_chars(b)}, {lean_chars(c)})" for a, b, c in tbl))
        out += ["]", ""]
        return out

    L = ["/-  GENERATED by gen/accessors.py from /repo/src/haystack/val/*.rs — do not edit.  -/",
         "namespace Hs.Gen.Accessors", ""]
    L += triples("tryFroms", "`impl TryFrom<&Value> for T`: (T, accepted variant of `Value`, what `Ok` carries: whole | value | unit)", try_froms)
    L += triples("getters", "`HaystackDict` methods written with `dict_get!` / `dict_has!`: (method, get | has, accepted variant)", getters)
    L += triples("keyedGetters", "`HaystackDict` methods that call a getter with a fixed key: (method, getter, key)", keyed)
    L.append("end Hs.Gen.Accessors")
    text = "\n".join(L) + "\n"
    os.makedirs(outdir, exist_ok=True)
    out = os.path.join(outdir, "Accessors.lean")
    if not (os.path.exists(out) and open(out, encoding="utf-8").read() == text):
        open(out, "w", encoding="utf-8").write(text)
    print(f"gen/accessors.py ({how}): {len(try_froms)} TryFrom<&Value> impls, {len(getters)} dict getters, {len(keyed)} keyed -> {out}")


if __name__ == "__main__":
    main()
