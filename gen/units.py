#!/usr/bin/env python3
"""
gen/units.py — translator for the unit database (C15, C16, C01, C02).

  python3 gen/units.py /repo lean/Hs/Gen      writes lean/Hs/Gen/Units.lean

Extracted from /repo's CURRENT sources (regex over the named Rust items; every shape that is relied on is
asserted, a mismatch exits non-zero with a message):

  units/units_generated.rs   every `pub static ref X: Unit = Unit { quantity, ids, dimensions, scale, offset }`
                             and the `UNITS` HashMap literal of `(id, &*X)` pairs, both in source order
  units/mod.rs               get_unit = `units_generated::UNITS.get(unit).copied()`
  units/unit.rs              name() = first id, symbol() = last id, Display writes symbol()
  zinc/encode.rs             `impl ToZinc for Number` writes `{value}{unit}`
  zinc/decode/scalar/number.rs  the byte classes of `is_unit_char`, `parse_decimal` and of the exponent test
  json/encode.rs, decode.rs  Number with unit: entry "unit" = unit.symbol(); decoder calls get_unit on it
"""
import os
import re
import sys


def die(msg):
    print(f"gen/units.py: shape mismatch: {msg}")
    sys.exit(1)


def read(repo, rel):
    p = os.path.join(repo, rel)
    try:
        return open(p, encoding="utf-8").read()
    except OSError as e:
        die(f"cannot read {rel}: {e}")


def lean_char(c):
    o = ord(c)
    if c.isascii() and (c.isalnum() or c in "_$%/ .-+"):
        return f"'{c}'"
    return f"Char.ofNat {o}"


def lean_chars(s):
    return "[" + ", ".join(lean_char(c) for c in s) + "]"


def comment_safe(s):
    return s.replace("-/", "- /").replace("/-", "/ -")


STR = r'"((?:[^"\\])*)"'          # string literal without escapes (asserted below)
FLOAT = re.compile(r"-?\d+(\.\d+)?(e-?\d+)?\Z")
DIMS = ["kg", "m", "sec", "k", "a", "mol", "cd"]


def parse_units(src):
    n_decl = len(re.findall(r"pub static ref \w+\s*:\s*Unit\s*=", src))
    items = re.findall(r"lazy_static!\s*\{\s*pub static ref (\w+): Unit = Unit \{(.*?)\n    \};\s*\}", src, re.S)
    if len(items) != n_decl or n_decl == 0:
        die(f"{n_decl} `pub static ref X: Unit` declarations but {len(items)} parsed struct literals")
    units = []
    seen = set()
    for name, body in items:
        if name in seen:
            die(f"static {name} declared twice")
        seen.add(name)
        m = re.fullmatch(
            r"\s*quantity:\s*(?P<q>None|Some\(\s*" + STR + r"\.to_string\(\)\s*,?\s*\))\s*,"
            r"\s*ids:\s*\[(?P<ids>.*?)\]\s*\.to_vec\(\)\s*,"
            r"\s*dimensions:\s*(?P<d>None|Some\(\s*UnitDimensions\s*\{(?P<df>.*?)\}\s*,?\s*\))\s*,"
            r"\s*scale:\s*(?P<s>[^,\s]+)\s*,"
            r"\s*offset:\s*(?P<o>[^,\s]+)\s*,?\s*", body, re.S)
        if not m:
            die(f"struct literal of {name} does not have the fields quantity/ids/dimensions/scale/offset in the expected form")
        if "\\" in body:
            die(f"{name}: string literal with an escape sequence (not handled)")
        quantity = None
        if m.group("q") != "None":
            quantity = re.search(STR, m.group("q")).group(1)
        ids_txt = m.group("ids")
        ids = re.findall(STR + r"\.to_string\(\)", ids_txt)
        rest = re.sub(STR + r"\.to_string\(\)", "", ids_txt)
        if rest.replace(",", "").strip() != "":
            die(f"{name}: unparsed text in ids: {rest.strip()!r}")
        dims = None
        if m.group("d") != "None":
            fields = re.findall(r"(\w+)\s*:\s*(-?\d+)", m.group("df"))
            if [f for f, _ in fields] != DIMS:
                die(f"{name}: UnitDimensions fields are {[f for f, _ in fields]}, expected {DIMS}")
            left = re.sub(r"(\w+)\s*:\s*(-?\d+)", "", m.group("df")).replace(",", "").strip()
            if left:
                die(f"{name}: unparsed text in dimensions: {left!r}")
            dims = [int(v) for _, v in fields]
            if any(not -128 <= v <= 127 for v in dims):
                die(f"{name}: dimension outside i8")
        for f in ("s", "o"):
            if not FLOAT.match(m.group(f)):
                die(f"{name}: {f} literal {m.group(f)!r} is not a plain float literal")
        units.append(dict(name=name, quantity=quantity, ids=ids, dims=dims, scale=m.group("s"), offset=m.group("o")))
    return units


def parse_entries(src, unit_index):
    m = re.search(r"pub static ref UNITS\s*:\s*HashMap<&'static str,\s*&'static Unit>\s*=\s*\[(.*?)\]\s*\.iter\(\)\s*\.cloned\(\)\s*\.collect\(\);",
                  src, re.S)
    if not m:
        die("`pub static ref UNITS: HashMap<&'static str, &'static Unit> = [ … ].iter().cloned().collect();` not found")
    block = m.group(1)
    if "\\" in block:
        die("UNITS: string literal with an escape sequence (not handled)")
    pair_re = r"\(\s*" + STR + r"\s*,\s*&\*(\w+)\s*,?\s*\)"
    pairs = re.findall(pair_re, block)
    left = re.sub(pair_re, "", block).replace(",", "").strip()
    if left:
        die(f"UNITS: unparsed text: {left[:80]!r}")
    if not pairs:
        die("UNITS: no entry")
    out = []
    for key, ref in pairs:
        if ref not in unit_index:
            die(f"UNITS entry {key!r} points to {ref}, which is not a parsed unit static")
        out.append((key, unit_index[ref]))
    return out


def drift(msg):
    """A body that is MODELLED BY HAND changed its text (its byte classes, if any, are then the pinned ones).  Not a
    failure by itself: the model is tied to these functions by the differential run, which `check` widens on this line."""
    print("DRIFT units: " + " ".join(msg.split())[:400])


# the byte classes the model was written against (used when the text can no longer be parsed)
PINNED = {"unit_any": "$/%_", "unit_above": 128, "dec_any": "_.-", "dec_skip": "_", "exp_letters": "eE", "exp_next": "+-"}


def parse_classes(repo):
    num = read(repo, "src/haystack/encoding/zinc/decode/scalar/number.rs")
    scn = read(repo, "src/haystack/encoding/zinc/decode/scanner.rs")
    m = re.search(r"fn is_unit_char<R: Read>\(scanner: &mut Scanner<R>\) -> bool \{\s*"
                  r"scanner\.is_alpha\(\)\s*\|\|\s*scanner\.is_any_of\(\"([^\"\\]*)\"\)\s*\|\|\s*scanner\.cur\s*>\s*(\d+)\s*\}", num)
    if not m:
        drift("number.rs is_unit_char is not `scanner.is_alpha() || scanner.is_any_of(\"…\") || scanner.cur > N`; the unit character class is the pinned one")
        unit_any, unit_above = PINNED["unit_any"], PINNED["unit_above"]
    else:
        unit_any, unit_above = m.group(1), int(m.group(2))
    if not re.search(r"pub fn is_alpha\(&self\) -> bool \{\s*self\.is_lower\(\) \|\| self\.is_upper\(\)\s*\}", scn) \
            or not re.search(r"pub fn is_lower\(&self\) -> bool \{\s*self\.cur\.is_ascii_lowercase\(\)\s*\}", scn) \
            or not re.search(r"pub fn is_upper\(&self\) -> bool \{\s*self\.cur\.is_ascii_uppercase\(\)\s*\}", scn) \
            or not re.search(r"pub fn is_digit\(&self\) -> bool \{\s*self\.cur\.is_ascii_digit\(\)\s*\}", scn) \
            or not re.search(r"pub fn is_any_of\(&self, chars: &str\) -> bool \{\s*chars\.as_bytes\(\)\.contains\(&self\.cur\)\s*\}", scn):
        drift("scanner.rs is_alpha/is_lower/is_upper/is_digit/is_any_of do not have the expected ASCII-class bodies")
    m = re.search(r"fn parse_unit<R: Read>\(scanner: &mut Scanner<R>\) -> Result<String, Error> \{\s*let mut unit = Vec::new\(\);\s*"
                  r"while !scanner\.is_eof && is_unit_char\(scanner\) \{\s*unit\.push\(scanner\.cur\);\s*scanner\.advance\(\)\?;?\s*\}\s*"
                  r"Ok\(String::from_utf8_lossy\(&unit\)\.to_string\(\)\)\s*\}", num)
    if not m:
        drift("number.rs parse_unit is not the loop `while !is_eof && is_unit_char { push cur; advance }`")
    m = re.search(r"while !scanner\.is_eof && \(scanner\.is_digit\(\) \|\| scanner\.is_any_of\(\"([^\"\\]*)\"\)\) \{\s*"
                  r"if scanner\.cur != b'(.)' \{\s*id\.push\(scanner\.cur\);\s*\}\s*scanner\.advance\(\)\?;?\s*\}", num)
    if not m:
        drift("number.rs parse_decimal loop is not `while !is_eof && (is_digit() || is_any_of(\"…\")) { if cur != b'_' { push } advance }`; its classes are the pinned ones")
        dec_any, dec_skip = PINNED["dec_any"], PINNED["dec_skip"]
    else:
        dec_any, dec_skip = m.group(1), m.group(2)
    m = re.search(r"if !scanner\.is_eof && scanner\.is_any_of\(\"([^\"\\]*)\"\) \{\s*let next = scanner\.peek\(\)\?;\s*"
                  r"if ((?:next == b'.'\s*\|\|\s*)*)next\.is_ascii_digit\(\) \{\s*exponent = Some\(parse_exponent\(scanner\)\?\);", num)
    if not m:
        drift("number.rs parse_number exponent test is not `is_any_of(\"eE\")` + `next == b'+' || next == b'-' || next.is_ascii_digit()`; its classes are the pinned ones")
        exp_letters, exp_next = PINNED["exp_letters"], list(PINNED["exp_next"])
    else:
        exp_letters = m.group(1)
        exp_next = re.findall(r"next == b'(.)'", m.group(2))
    if not re.search(r"if !scanner\.is_eof && is_unit_char\(scanner\) \{\s*let unit_str = parse_unit\(scanner\)\?;\s*"
                     r"unit = get_unit\(unit_str\.as_str\(\)\);\s*if unit\.is_none\(\) \{\s*return scanner\.make_generic_err", num):
        drift("number.rs parse_number no longer reads the unit with parse_unit + get_unit")
    for s in (unit_any, dec_any, dec_skip, exp_letters, "".join(exp_next)):
        if not s.isascii():
            die("non-ASCII byte class")  # HARD
    return dict(unit_any=unit_any, unit_above=unit_above, dec_any=dec_any, dec_skip=dec_skip,
                exp_letters=exp_letters, exp_next="".join(exp_next))


def check_glue(repo):
    mod = read(repo, "src/haystack/units/mod.rs")
    if not re.search(r"pub fn get_unit\(unit: &str\) -> Option<&'static Unit> \{\s*#\[cfg\(feature = \"units-db\"\)\]\s*\{\s*"
                     r"units_generated::UNITS\.get\(unit\)\.copied\(\)\s*\}", mod):
        drift("units/mod.rs get_unit is not `units_generated::UNITS.get(unit).copied()`")
    unit = read(repo, "src/haystack/units/unit.rs")
    if not re.search(r"pub fn symbol\(&self\) -> &str \{\s*self\.ids\.last\(\)\.map_or\(\"\", \|v\| v\.as_str\(\)\)\s*\}", unit):
        drift("units/unit.rs symbol() is not `self.ids.last().map_or(\"\", …)`")
    if not re.search(r"pub fn name\(&self\) -> &str \{\s*self\.ids\.first\(\)\.map_or\(\"\", \|v\| v\.as_str\(\)\)\s*\}", unit):
        drift("units/unit.rs name() is not `self.ids.first().map_or(\"\", …)`")
    if not re.search(r"impl Display for Unit \{\s*fn fmt\(&self, fmt: &mut std::fmt::Formatter<'_>\) -> std::fmt::Result \{\s*"
                     r"write!\(fmt, \"\{\}\", self\.symbol\(\)\)\s*\}\s*\}", unit):
        drift("units/unit.rs Display for Unit does not write symbol()")
    enc = read(repo, "src/haystack/encoding/zinc/encode.rs")
    m = re.search(r"impl ToZinc for Number \{(.*?)\n\}", enc, re.S)
    if not m or not re.search(r"else if let Some\(unit\) = &self\.unit \{\s*writer\.write_fmt\(format_args!\(\"\{\}\{\}\", self\.value, unit\)\)\?",
                              m.group(1)):
        drift("zinc/encode.rs `impl ToZinc for Number` does not write `{value}{unit}`")
    jenc = read(repo, "src/haystack/encoding/json/encode.rs")
    m = re.search(r"impl Serialize for Number \{(.*?)\n\}", jenc, re.S)
    if not m or not re.search(r"map\.serialize_entry\(\"unit\", unit\.symbol\(\)\)\?", m.group(1)):
        drift("json/encode.rs `impl Serialize for Number` does not write the entry \"unit\" = unit.symbol()")
    jdec = read(repo, "src/haystack/encoding/json/decode.rs")
    m = re.search(r"fn parse_number\(dict: &Dict\) -> Result<HVal, JsonErr> \{(.*?)\n\}", jdec, re.S)
    if not m or not re.search(r"dict\.get_str\(\"unit\"\)", m.group(1)) or not re.search(r"get_unit\(unit\.as_str\(\)\)", m.group(1)):
        drift("json/decode.rs parse_number does not resolve the entry \"unit\" with get_unit")


CHUNK = 40


def main():
    if len(sys.argv) != 3:
        print("usage: units.py <repo> <outdir>")
        sys.exit(2)
    repo, outdir = sys.argv[1], sys.argv[2]
    src = read(repo, "src/haystack/units/units_generated.rs")
    units = parse_units(src)
    index = {u["name"]: i for i, u in enumerate(units)}
    entries = parse_entries(src, index)
    classes = parse_classes(repo)
    check_glue(repo)

    L = []
    L.append("/-  GENERATED by gen/units.py from /repo/src/haystack/units/units_generated.rs (and number.rs) — do not edit.  -/")
    L.append("namespace Hs.Gen.Units")
    L.append("")
    L.append("/-- one `pub static ref X: Unit = Unit { … }` -/")
    L.append("structure Row where")
    L.append("  name     : List Char                 -- the static's name")
    L.append("  quantity : Option (List Char)")
    L.append("  ids      : List (List Char)          -- `ids`, in order (first = name(), last = symbol())")
    L.append("  dims     : Option (List Int)         -- kg m sec k a mol cd")
    L.append("  scale    : List Char                 -- literal text")
    L.append("  offset   : List Char                 -- literal text")
    L.append("")
    nchunks = (len(units) + CHUNK - 1) // CHUNK
    for c in range(nchunks):
        L.append(f"def units{c} : List Row := [")
        rows = []
        for u in units[c * CHUNK:(c + 1) * CHUNK]:
            q = "none" if u["quantity"] is None else f"some {lean_chars(u['quantity'])}"
            d = "none" if u["dims"] is None else "some [" + ", ".join(str(v) for v in u["dims"]) + "]"
            ids = "[" + ", ".join(lean_chars(i) for i in u["ids"]) + "]"
            rows.append(f"  -- {comment_safe(' | '.join(u['ids']))}\n"
                        f"  ⟨{lean_chars(u['name'])}, {q},\n   {ids},\n   {d}, {lean_chars(u['scale'])}, {lean_chars(u['offset'])}⟩")
        L.append(",\n".join(rows))
        L.append("]")
        L.append("")
    L.append("/-- every unit static, in source order -/")
    L.append("def units : List Row := " + " ++ ".join(f"units{c}" for c in range(nchunks)))
    L.append("")
    nech = (len(entries) + 2 * CHUNK - 1) // (2 * CHUNK)
    for c in range(nech):
        L.append(f"def entries{c} : List (List Char × Nat) := [")
        rows = []
        for key, idx in entries[c * 2 * CHUNK:(c + 1) * 2 * CHUNK]:
            rows.append(f"  ({lean_chars(key)}, {idx})  /- {comment_safe(key)} -> {units[idx]['name']} -/")
        L.append(",\n".join(rows))
        L.append("]")
        L.append("")
    L.append("/-- the `UNITS` HashMap literal: (id, index into `units` of the static it points to), in source order -/")
    L.append("def entries : List (List Char × Nat) := " + " ++ ".join(f"entries{c}" for c in range(nech)))
    L.append("")
    L.append("/-! byte classes of zinc/decode/scalar/number.rs -/")
    L.append("/-- `is_unit_char`: `is_alpha() || is_any_of(unitAnyOf) || cur > unitAbove` -/")
    L.append("def unitAnyOf : List UInt8 := [" + ", ".join(str(ord(c)) for c in classes["unit_any"]) + f"]  -- {classes['unit_any']!r}")
    L.append(f"def unitAbove : UInt8 := {classes['unit_above']}")
    L.append("/-- `parse_decimal`: `is_digit() || is_any_of(decAnyOf)`, bytes equal to `decSkip` are dropped -/")
    L.append("def decAnyOf : List UInt8 := [" + ", ".join(str(ord(c)) for c in classes["dec_any"]) + f"]  -- {classes['dec_any']!r}")
    L.append(f"def decSkip : UInt8 := {ord(classes['dec_skip'])}")
    L.append("/-- exponent test of `parse_number`: `is_any_of(expLetters)` and the next byte is a digit or one of `expNext` -/")
    L.append("def expLetters : List UInt8 := [" + ", ".join(str(ord(c)) for c in classes["exp_letters"]) + f"]  -- {classes['exp_letters']!r}")
    L.append("def expNext : List UInt8 := [" + ", ".join(str(ord(c)) for c in classes["exp_next"]) + f"]  -- {classes['exp_next']!r}")
    L.append("")
    L.append("end Hs.Gen.Units")
    text = "\n".join(L) + "\n"
    os.makedirs(outdir, exist_ok=True)
    path = os.path.join(outdir, "Units.lean")
    old = None
    if os.path.exists(path):
        old = open(path, encoding="utf-8").read()
    if old != text:
        with open(path, "w", encoding="utf-8") as f:
            f.write(text)
    print(f"gen/units.py: {len(units)} units, {len(entries)} UNITS entries -> {path}")


if __name__ == "__main__":
    main()
