#!/usr/bin/env python3
"""Translator: the panic-capable constructs of the encoders -> Hs/Gen/PanicSites.lean

Scans, in /repo's current sources, the code the encoders run (Zinc writer, Hayson `Serialize` impls,
`Display for Value`, `dict_to_dis`, `dis_macro`) for constructs that can panic: indexing and
slicing (`x[..]`), `.unwrap()`, `.expect(`, `panic!`/`unreachable!`/`todo!`/`unimplemented!`,
`assert!`, and `len() - 1` style subtraction.  Each hit is classified:
  * `guarded`: `<c>.len() - 1` inside the body of `for (<i>, _) in <c>.iter().enumerate()` (the
     collection is non-empty whenever the expression is evaluated) — listed in `encGuardedSubs`;
  * `allowed`: a site on the explicit allow-list below, with the reason it cannot fail;
  * everything else is an UNGUARDED site -> `encPanicSites` (the C10 theorem says this list is empty).
"""
import re, sys, os

repo, outdir = sys.argv[1], sys.argv[2]

ALLOW = [
    # (file suffix, regex on the line, reason)
    ("val/dis_macro.rs", r"caps\.get\(0\)\.unwrap\(\)", "capture group 0 (the whole match) always exists"),
    ("val/dis_macro.rs", r"&?caps\[0\]", "capture group 0 (the whole match) always exists: `Captures[0]` cannot fail"),
    ("val/dis_macro.rs", r"^\s*\.unwrap\(\)\s*$", "Regex::new on a constant pattern that compiles (exercised on every run)"),
]

def strip_strings(line):
    # remove string/char literals and line comments so that their contents are not scanned
    line = re.sub(r'br?#*"(?:[^"\\]|\\.)*"#*', '""', line)
    line = re.sub(r'"(?:[^"\\]|\\.)*"', '""', line)
    line = re.sub(r"b?'(?:[^'\\]|\\.)'", "' '", line)
    return line.split("//", 1)[0]

def region(path, start_pat=None, end_pat=None):
    """lines (1-based numbered) of a file, optionally restricted to [start_pat, end_pat)"""
    lines = open(os.path.join(repo, path), encoding="utf-8").read().split("\n")
    out = []
    active = start_pat is None
    depth = 0
    for i, l in enumerate(lines, 1):
        if l.strip().startswith("#[cfg(test)]"):
            break
        if not active and start_pat and re.search(start_pat, l):
            active = True
            depth = 0
            first = len(out)
        if active:
            out.append((i, l))
            if start_pat:
                depth += l.count("{") - l.count("}")
                if depth <= 0 and "}" in l and len(out) - first > 1:
                    active = False
    return out

targets = [
    ("src/haystack/encoding/zinc/encode.rs", None),
    ("src/haystack/encoding/json/encode.rs", None),
    ("src/haystack/val/value.rs", r"^impl Display for Value"),
    ("src/haystack/val/dict.rs", r"^pub fn dict_to_dis"),
    ("src/haystack/val/dict.rs", r"^fn \w+"),          # every private free function of dict.rs (the helpers of dict_to_dis)
    ("src/haystack/val/dis_macro.rs", None),
]

PANIC = [
    (r"\.unwrap\(\)", "unwrap"),
    (r"\.expect\(", "expect"),
    (r"\b(panic|unreachable|todo|unimplemented|assert|assert_eq|assert_ne)!", "panic-macro"),
    (r"[A-Za-z0-9_\)\]]\[[^\]]*\]", "index-or-slice"),
    (r"-\s*1\b", "minus-one"),
]

sites, guarded, allowed = [], [], []
n_scanned = 0
for path, start in targets:
    reg = region(path, start)
    if not reg and start is not None and start.startswith("^fn "):
        continue        # no private helper in the file: nothing of that kind to scan
    if not reg:
        sys.exit(f"panic_sites: nothing to scan in {path} ({start})")
    n_scanned += len(reg)
    text_lines = dict(reg)
    for (i, raw) in reg:
        l = strip_strings(raw)
        if re.match(r"\s*#\[", l) or re.match(r"\s*use ", l):
            continue
        for pat, kind in PANIC:
            for m in re.finditer(pat, l):
                frag = l.strip()
                if kind == "index-or-slice":
                    tok = m.group(0)
                    # array types/literals such as `[0; 4]`, `&[u8; 1]`, `vec![..]` are not indexing
                    if re.search(r"\[[^\]]*;[^\]]*\]", tok) or re.search(r"(vec|matches|format_args|write)!?\[", l[:m.end()]):
                        continue
                if kind == "minus-one":
                    g = re.search(r"([A-Za-z_][A-Za-z0-9_\.]*)\.len\(\)\s*-\s*1", l)
                    if g:
                        coll = g.group(1)
                        ok = False
                        for j in range(i - 1, max(i - 40, 0), -1):
                            pl = text_lines.get(j, "")
                            fm = re.search(r"for \(\w+, .*\) in (&?[A-Za-z_][A-Za-z0-9_\.]*)\.iter\(\)\.enumerate\(\)", pl)
                            if fm:
                                it = fm.group(1).lstrip("&")
                                # `self.iter()` iterates the list itself; `self.columns.iter()` its columns
                                ok = (it == coll) or (coll == "self" and it == "self")
                                break
                        if ok:
                            guarded.append((path, i, frag))
                            continue
                hit = None
                for suf, rx, why in ALLOW:
                    if path.endswith(suf) and re.search(rx, raw):
                        hit = why
                        break
                if hit:
                    allowed.append((path, i, frag, hit))
                else:
                    sites.append((path, i, kind, frag))

def q(s):
    return '"' + s.replace("\\", "\\\\").replace('"', '\\"') + '"'

lines = ["/- GENERATED by gen/panic_sites.py from the encoder sources — do not edit. -/", "namespace Hs.Gen", "",
         "/-- panic-capable constructs in the encoders that are neither guarded nor on the allow-list: (file, line, kind, text) -/",
         "def encPanicSites : List (String × Nat × String × String) := ["]
lines.append(",\n".join(f"  ({q(p)}, {i}, {q(k)}, {q(f)})" for p, i, k, f in sites))
lines.append("]")
lines.append("")
lines.append("/-- `c.len() - 1` evaluated only inside `for (i, _) in c.iter().enumerate()` (c is non-empty there) -/")
lines.append("def encGuardedSubs : List (String × Nat × String) := [")
lines.append(",\n".join(f"  ({q(p)}, {i}, {q(f)})" for p, i, f in guarded))
lines.append("]")
lines.append("")
lines.append("/-- allow-listed sites with the reason they cannot fail -/")
lines.append("def encAllowedSites : List (String × Nat × String × String) := [")
lines.append(",\n".join(f"  ({q(p)}, {i}, {q(f)}, {q(w)})" for p, i, f, w in allowed))
lines.append("]")
lines.append("")
lines.append(f"def encScannedLines : Nat := {n_scanned}")
lines.append("")
lines.append("end Hs.Gen")
out = "\n".join(lines) + "\n"
path = os.path.join(outdir, "PanicSites.lean")
if not os.path.exists(path) or open(path, encoding="utf-8").read() != out:
    open(path, "w", encoding="utf-8").write(out)
print(f"panic_sites: scanned {n_scanned} lines: {len(sites)} unguarded, {len(guarded)} guarded, {len(allowed)} allowed")
for s in sites:
    print("  UNGUARDED", s)
