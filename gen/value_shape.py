#!/usr/bin/env python3
"""
gen/value_shape.py — translator for the shape of `enum Value` (C19, C12, C07).

  python3 gen/value_shape.py /repo lean/Hs/Gen      writes lean/Hs/Gen/ValueShape.lean

From /repo/src/haystack/val/value.rs (current working tree):
  * the variants of `pub enum Value` in declaration order, and whether each carries a payload;
  * every `pub fn is_*(&self) -> bool` of `impl Value`: the variant tests
    `matches!(self, Value::V)` / `matches!(self, Value::V(_))` as (fn name, V) in source order; the two Bool-payload
    tests `is_true` / `is_false` are recognised by their exact bodies and listed apart.
Any other shape is reported and the translator exits non-zero.
"""
import os
import re
import sys


sys.path.insert(0, os.path.dirname(os.path.abspath(__file__)))
from _exec import ShapeMismatch, dump  # noqa: E402


def die(msg):
    raise ShapeMismatch(msg)


def lean_chars(s):
    for c in s:
        if not (c.isascii() and (c.isalnum() or c == "_")):
            die(f"unexpected character {c!r} in identifier {s!r}")
    return "[" + ", ".join(f"'{c}'" for c in s) + "]"


def block_after(src, start):
    """text between the `{` at/after `start` and its matching `}`"""
    i = src.index("{", start)
    depth = 0
    for j in range(i, len(src)):
        if src[j] == "{":
            depth += 1
        elif src[j] == "}":
            depth -= 1
            if depth == 0:
                return src[i + 1:j]
    die("unbalanced braces")


def strip_comments(s):
    return re.sub(r"//[^\n]*", "", s)


def extract(repo):
    path = os.path.join(repo, "src/haystack/val/value.rs")
    try:
        src = open(path, encoding="utf-8").read()
    except OSError as e:
        die(f"cannot read value.rs: {e}")

    # ---- enum Value --------------------------------------------------------------------------
    ms = list(re.finditer(r"pub enum Value\s*\{", src))
    if len(ms) != 1:
        die(f"`pub enum Value {{` found {len(ms)} times")
    body = strip_comments(block_after(src, ms[0].start()))
    body = re.sub(r"#\[[^\]]*\]", "", body)
    variants = []
    for item in body.split(","):
        item = item.strip()
        if not item:
            continue
        m = re.fullmatch(r"([A-Z]\w*)(\(\s*[\w:<>]+\s*\))?", item)
        if not m:
            die(f"enum Value: variant {item!r} is neither `Name` nor `Name(Type)`")
        if "=" in item:
            die(f"enum Value: explicit discriminant in {item!r}")
        variants.append((m.group(1), m.group(2) is not None))
    names = [v for v, _ in variants]
    if len(set(names)) != len(names) or not names:
        die("enum Value: duplicate or no variants")
    payload = dict(variants)

    # ---- impl Value: is_* --------------------------------------------------------------------
    ms = list(re.finditer(r"\nimpl Value\s*\{", src))
    if len(ms) != 1:
        die(f"`impl Value {{` found {len(ms)} times")
    impl = strip_comments(block_after(src, ms[0].start()))
    preds, others = [], []
    n_is = len(re.findall(r"\bfn is_\w+", impl))
    for m in re.finditer(r"pub fn (is_\w+)\(&self\) -> bool\s*\{", impl):
        fn = m.group(1)
        b = block_after(impl, m.end() - 1)
        b1 = " ".join(b.split())
        mm = re.fullmatch(r"matches!\(self, Value::(\w+)(\(_\))?\)", b1)
        if mm:
            v = mm.group(1)
            if v not in payload:
                die(f"{fn}: tests Value::{v}, which is not a variant")
            if payload[v] != (mm.group(2) is not None):
                die(f"{fn}: pattern for Value::{v} does not fit the variant's payload")
            preds.append((fn, v))
        elif fn == "is_true" and b1 == "match self { Value::Bool(v) => v.value, _ => false, }":
            others.append(fn)
        elif fn == "is_false" and b1 == "!self.is_true()":
            others.append(fn)
        else:
            die(f"{fn}: body `{b1}` is not a `matches!(self, Value::V…)` variant test")
    if len(preds) + len(others) != n_is:
        die(f"{n_is} `fn is_*` in impl Value but {len(preds) + len(others)} recognised (signature other than `pub fn is_x(&self) -> bool`?)")

    return variants, preds, others


def by_execution():
    d = dump("c19")
    if d is None:
        return None
    return [tuple(x) for x in d["variants"]], [tuple(x) for x in d["preds"]], list(d["otherPreds"])


def main():
    if len(sys.argv) != 3:
        print("usage: value_shape.py <repo> <outdir>")
        sys.exit(2)
    repo, outdir = sys.argv[1], sys.argv[2]
    how = "source text"
    try:
        tables = extract(repo)
    except ShapeMismatch as e:
        tables = by_execution()
        if tables is None:
            print(f"gen/value_shape.py: shape mismatch: {e}")
            sys.exit(1)
        how = "execution"
        print(f"FALLBACK value_shape: value.rs no longer has the parsed shape ({e}); tables taken from `hsverif dump c19` (derived order and every is_* test executed on a value of each variant)")
    variants, preds, others = tables

    L = ["/-  GENERATED by gen/value_shape.py from /repo/src/haystack/val/value.rs — do not edit.  -/",
         "namespace Hs.Gen.ValueShape", "",
         "/-- variants of `enum Value` in declaration order; `true` = the variant carries a payload -/",
         "def variants : List (List Char × Bool) := ["]
    L.append(",\n".join(f"  ({lean_chars(v)}, {'true' if p else 'false'})" for v, p in variants))
    L += ["]", "",
          "/-- `pub fn is_x(&self) -> bool { matches!(self, Value::V…) }` as (fn name, V), in source order -/",
          "def preds : List (List Char × List Char) := ["]
    L.append(",\n".join(f"  ({lean_chars(f)}, {lean_chars(v)})" for f, v in preds))
    L += ["]", "",
          "/-- `is_*` methods that test the payload of a Bool, not the variant -/",
          "def otherPreds : List (List Char) := [" + ", ".join(lean_chars(f) for f in others) + "]", "",
          "end Hs.Gen.ValueShape"]
    text = "\n".join(L) + "\n"
    os.makedirs(outdir, exist_ok=True)
    out = os.path.join(outdir, "ValueShape.lean")
    if not (os.path.exists(out) and open(out, encoding="utf-8").read() == text):
        open(out, "w", encoding="utf-8").write(text)
    print(f"gen/value_shape.py ({how}): {len(variants)} variants, {len(preds)} variant tests -> {out}")


if __name__ == "__main__":
    main()
