#!/usr/bin/env python3
"""
Translator: the inventory of every `extern "C" fn` of /repo/src/c_api/*.rs  ->  lean/Hs/Gen/CApi.lean

usage: python3 gen/capi.py /repo lean/Hs/Gen

For every function: name, source file, parameters (name, Rust type, class), return type class and the
failure sentinel the body returns (null / -1 / false / NaN / MAX ...).  Shapes asserted (exit 1 with a message):
  * every occurrence of `extern "C" fn` in src/c_api/*.rs is matched by the signature pattern,
  * every parameter type and every return type is one of the known classes,
  * the body of a function whose return type has a sentinel mentions that sentinel expression,
  * every function is declared in libhaystack.h, and no other haystack function does.
"""
import os, re, sys

PARAM_CLASS = {
    "*const Value": "valPtr", "*mut Value": "valPtr",
    "*const c_char": "cstrPtr", "*mut c_char": "cstrPtr",
    "*const Filter": "filterPtr", "*mut Filter": "filterPtr",
    "*mut *const Value": "outPtr",
    "bool": "bool", "f64": "f64", "u32": "u32", "i32": "i32", "usize": "usize",
}
POINTERS = {"valPtr", "cstrPtr", "filterPtr", "outPtr"}
# return type -> (class, sentinel, expression that must occur in the body)
RET_CLASS = {
    "": ("unit", "none", None),
    "Box<Value>": ("boxValue", "none", None),
    "Option<Box<Value>>": ("optValue", "null", "None"),
    "Option<Box<Filter>>": ("optFilter", "null", "None"),
    "bool": ("bool", "false", "safe_bool_call!"),
    "usize": ("usize", "usizeMax", "usize::MAX"),
    "u32": ("u32", "u32Max", "u32::MAX"),
    "f64": ("f64", "nan", "f64::NAN"),
    "ResultType": ("result", "err", "ResultType::ERR"),
    "*const c_char": ("cstr", "null", "std::ptr::null()"),
}

SIG = re.compile(
    r'pub\s+(?:unsafe\s+)?extern\s+"C"\s+fn\s+(\w+)\s*\(([^)]*)\)\s*(?:->\s*([^{]+?))?\s*\{', re.S)


def fail(msg):
    print(f"gen/capi.py: {msg}")
    sys.exit(1)


def body_of(text, start):
    """text[start] is just after the opening brace; returns the body up to the matching brace."""
    depth, i = 1, start
    while i < len(text) and depth:
        c = text[i]
        if c == "{":
            depth += 1
        elif c == "}":
            depth -= 1
        i += 1
    return text[start:i - 1]


def strip_comments(text):
    return "\n".join(l for l in text.splitlines() if not l.lstrip().startswith("//"))


ANYFN = re.compile(r'\bfn\s+(\w+)\s*(?:<[^>{]*>)?\s*\(', re.S)
ERR_TOKENS = ("new_error(", "update_last_error(", "safe_bool_call!")


def helper_closure(d):
    """Every `fn` of src/c_api/*.rs (extern or not) with the text of its body, and the two facts the inventory needs
    about a body — it reports an error / it mentions a given sentinel — closed under calls to functions of these
    files: a body that delegates to a private helper (`text_arg(val)?`) inherits what the helper's body does."""
    bodies = {}
    for f in sorted(os.listdir(d)):
        if not f.endswith(".rs"):
            continue
        text = strip_comments(open(os.path.join(d, f), encoding="utf-8").read().replace("\r\n", "\n"))
        for m in ANYFN.finditer(text):
            i = text.find("{", m.end())
            semi = text.find(";", m.end())
            if i < 0 or (0 <= semi < i):
                continue
            bodies.setdefault(m.group(1), "")
            bodies[m.group(1)] += body_of(text, i + 1)
    calls = {n: {c for c in bodies if c != n and re.search(r"\b" + re.escape(c) + r"\s*\(", b)} for n, b in bodies.items()}

    def reach(name):
        seen, todo = set(), [name]
        while todo:
            x = todo.pop()
            if x in seen:
                continue
            seen.add(x)
            todo += list(calls.get(x, ()))
        return seen

    def mentions(name, needles):
        return any(any(t in bodies.get(x, "") for t in needles) for x in reach(name))

    return mentions


def main():
    repo, outdir = sys.argv[1], sys.argv[2]
    d = os.path.join(repo, "src", "c_api")
    fns = []
    mentions = helper_closure(d)
    for f in sorted(os.listdir(d)):
        if not f.endswith(".rs"):
            continue
        text = strip_comments(open(os.path.join(d, f), encoding="utf-8").read().replace("\r\n", "\n"))
        n_occ = len(re.findall(r'extern\s+"C"\s+fn\b', text))
        found = list(SIG.finditer(text))
        if len(found) != n_occ:
            fail(f"{f}: {n_occ} occurrences of `extern \"C\" fn` but {len(found)} parsed signatures")
        for m in found:
            name, params_s, ret_s = m.group(1), m.group(2), (m.group(3) or "").strip()
            params = []
            for p in [x.strip() for x in params_s.split(",") if x.strip()]:
                if ":" not in p:
                    fail(f"{f}: {name}: unparsed parameter `{p}`")
                pn, pt = [x.strip() for x in p.split(":", 1)]
                pt = re.sub(r"\s+", " ", pt)
                if pt not in PARAM_CLASS:
                    fail(f"{f}: {name}: parameter `{pn}` has the unknown type `{pt}`")
                params.append((pn, pt, PARAM_CLASS[pt]))
            ret_s = re.sub(r"\s+", " ", ret_s)
            if ret_s not in RET_CLASS:
                fail(f"{f}: {name}: unknown return type `{ret_s}`")
            rc, sen, needle = RET_CLASS[ret_s]
            body = body_of(text, m.end())
            if needle is not None and needle not in body and not mentions(name, (needle,)):
                # the sentinel is fixed by the return type; that the failing paths return it is decided on the real code
                # by the null-argument and failure cases of C17/C18 — a body that does not spell it is only noted
                print(f"DRIFT capi: {f}: {name} returns `{ret_s}` but neither its body nor a helper it calls spells the sentinel `{needle}`")
            # a void / Box function cannot report through its result; it may only report through last_error
            fns.append({"name": name, "file": f, "params": params, "ret": rc, "ret_rs": ret_s, "sentinel": sen,
                        "sets_error": mentions(name, ERR_TOKENS)})
    names = [x["name"] for x in fns]
    if len(set(names)) != len(names):
        fail("duplicate function names")
    if not fns:
        fail("no extern \"C\" function found")
    # header consistency
    hdr = open(os.path.join(d, "libhaystack.h"), encoding="utf-8").read()
    decl_lines = [l for l in hdr.splitlines() if not l.startswith(" *") and not l.startswith("/*")]
    hnames = set(re.findall(r"\b((?:haystack_\w+|last_error_message))\s*\(", "\n".join(decl_lines)))
    missing = [n for n in names if n not in hnames]
    extra = sorted(h for h in hnames if h not in names)
    if missing:
        fail(f"libhaystack.h lacks a declaration for {missing}")
    if extra:
        fail(f"libhaystack.h declares {extra} which no extern \"C\" fn defines")

    def lstr(s):
        return '"' + s.replace("\\", "\\\\").replace('"', '\\"') + '"'

    out = []
    out.append("/- GENERATED by gen/capi.py from /repo/src/c_api/*.rs — do not edit. -/")
    out.append("namespace Hs.Gen.CApi")
    out.append("")
    out.append("/-- class of a parameter type -/")
    out.append("inductive PClass where")
    out.append("  | valPtr | cstrPtr | filterPtr | outPtr | bool | f64 | u32 | i32 | usize")
    out.append("deriving Repr, DecidableEq, Inhabited")
    out.append("")
    out.append("def PClass.isPtr : PClass → Bool")
    out.append("  | .valPtr | .cstrPtr | .filterPtr | .outPtr => true")
    out.append("  | _ => false")
    out.append("")
    out.append("/-- class of the return type -/")
    out.append("inductive RClass where")
    out.append("  | unit | boxValue | optValue | optFilter | bool | usize | u32 | f64 | result | cstr")
    out.append("deriving Repr, DecidableEq, Inhabited")
    out.append("")
    out.append("/-- the failure sentinel the function returns (`none`: the function has no failing result) -/")
    out.append("inductive Sentinel where")
    out.append("  | none | null | false | usizeMax | u32Max | nan | err")
    out.append("deriving Repr, DecidableEq, Inhabited")
    out.append("")
    out.append("structure Param where")
    out.append("  name : String")
    out.append("  ty : String")
    out.append("  cls : PClass")
    out.append("deriving Repr, DecidableEq, Inhabited")
    out.append("")
    out.append("structure Fn where")
    out.append("  name : String")
    out.append("  file : String")
    out.append("  params : List Param")
    out.append("  ret : RClass")
    out.append("  sentinel : Sentinel")
    out.append("  setsError : Bool")
    out.append("deriving Repr, DecidableEq, Inhabited")
    out.append("")
    out.append("def Fn.ptrParams (f : Fn) : List Param := f.params.filter (·.cls.isPtr)")
    out.append("")
    fns.sort(key=lambda x: x["name"])
    out.append("/-- one constructor per `extern \"C\"` function, sorted by name -/")
    out.append("inductive FnId where")
    for x in fns:
        out.append(f"  | {x['name']}")
    out.append("deriving Repr, DecidableEq, Inhabited")
    out.append("")
    out.append("def FnId.all : List FnId := [")
    out.append(",\n".join(f"  .{x['name']}" for x in fns))
    out.append("]")
    out.append("")
    out.append("/-- the inventory: signature, return class and failure sentinel of every function -/")
    out.append("def fnTable : FnId → Fn")
    for x in fns:
        ps = ", ".join(f"⟨{lstr(pn)}, {lstr(pt)}, .{pc}⟩" for pn, pt, pc in x["params"])
        out.append(f"  | .{x['name']} => ⟨{lstr(x['name'])}, {lstr(x['file'])}, [{ps}], .{x['ret']}, .{x['sentinel']}, "
                   f"{'true' if x['sets_error'] else 'false'}⟩")
    out.append("")
    out.append("def fns : List Fn := FnId.all.map fnTable")
    out.append("")
    out.append(f"def count : Nat := {len(fns)}")
    out.append("")
    out.append("def find? (name : String) : Option Fn := fns.find? (·.name == name)")
    out.append("")
    out.append("end Hs.Gen.CApi")
    os.makedirs(outdir, exist_ok=True)
    path = os.path.join(outdir, "CApi.lean")
    new = "\n".join(out) + "\n"
    old = open(path, encoding="utf-8").read() if os.path.exists(path) else None
    if old != new:
        open(path, "w", encoding="utf-8").write(new)
    n_ptr = sum(1 for x in fns for p in x["params"] if p[2] in POINTERS)
    print(f"gen/capi.py: {len(fns)} functions, {n_ptr} pointer parameters -> {path}")


if __name__ == "__main__":
    main()
