#!/usr/bin/env python3
"""
gen/kinds.py — translator for `HaystackKind` and its conversion tables (C19).

  python3 gen/kinds.py /repo lean/Hs/Gen      writes lean/Hs/Gen/Kinds.lean

From /repo/src/haystack/val/kind.rs (current working tree):
  * `pub enum HaystackKind`: variants in declaration order with their discriminants (implicit = previous + 1,
    an explicit `= N` is honoured);
  * `impl TryFrom<u8>`          arms `variant if variant == HaystackKind::A as u8 => Ok(HaystackKind::B)`  -> (A, B)
  * `impl From<&Value>`         arms `Value::V… => HaystackKind::K`                                         -> (V, K)
  * `impl From<HaystackKind> for &'static str`   arms `HaystackKind::K => "name"`                        -> (K, name)
  * `impl TryFrom<&str>`        arms `"name" => Ok(HaystackKind::K)`                                        -> (name, K)
  * `impl Display`              arms `HaystackKind::K => "name"` + `write!(fmt, "{kind}")`                 -> (K, name)
all in source order.  Unparsed arms or another shape: message + non-zero exit.
"""
import os
import re
import sys


sys.path.insert(0, os.path.dirname(os.path.abspath(__file__)))
from _exec import ShapeMismatch, dump  # noqa: E402


def die(msg):
    raise ShapeMismatch(msg)


def lean_chars(s):
    out = []
    for c in s:
        if c.isascii() and (c.isalnum() or c in "_ -.:/"):
            out.append(f"'{c}'")
        else:
            out.append(f"Char.ofNat {ord(c)}")
    return "[" + ", ".join(out) + "]"


def block_after(src, start):
    i = src.index("{", start)
    depth = 0
    for j in range(i, len(src)):
        if src[j] == "{":
            depth += 1
        elif src[j] == "}":
            depth -= 1
            if depth == 0:
                return src[i + 1:j]
    die("unbalanced braces")


def strip_comments(s):
    return re.sub(r"//[^\n]*", "", s)


def find_impl(src, header_re, what):
    ms = list(re.finditer(header_re, src))
    if len(ms) != 1:
        die(f"{what}: header found {len(ms)} times")
    return block_after(src, ms[0].start())


def match_body(impl, scrutinee, what):
    m = re.search(r"match " + scrutinee + r"\s*\{", impl)
    if not m:
        die(f"{what}: `match {scrutinee} {{` not found")
    return block_after(impl, m.start())


def arms(body, arm_re, what, default_re=None):
    """all arms must be consumed by arm_re (plus the optional default arm)"""
    found = re.findall(arm_re, body, re.S)
    rest = re.sub(arm_re, "", body, flags=re.S)
    if default_re is not None:
        rest, n = re.subn(default_re, "", rest, flags=re.S)
        if n != 1:
            die(f"{what}: default arm `_ => Err(…)` not found exactly once")
    if rest.replace(",", "").strip():
        die(f"{what}: unparsed arm text {rest.strip()[:80]!r}")
    if not found:
        die(f"{what}: no arm")
    return found


def extract(repo):
    try:
        src = strip_comments(open(os.path.join(repo, "src/haystack/val/kind.rs"), encoding="utf-8").read())
    except OSError as e:
        die(f"cannot read kind.rs: {e}")

    # ---- enum --------------------------------------------------------------------------------
    ms = list(re.finditer(r"pub enum HaystackKind\s*\{", src))
    if len(ms) != 1:
        die(f"`pub enum HaystackKind {{` found {len(ms)} times")
    if re.search(r"#\[repr\((?!u8)", src[:ms[0].start()]):
        die("HaystackKind has a #[repr] other than u8")
    body = re.sub(r"#\[[^\]]*\]", "", block_after(src, ms[0].start()))
    kinds = []
    nxt = 0
    for item in body.split(","):
        item = item.strip()
        if not item:
            continue
        m = re.fullmatch(r"([A-Z]\w*)(\s*=\s*(\d+))?", item)
        if not m:
            die(f"enum HaystackKind: variant {item!r} is not fieldless")
        d = int(m.group(3)) if m.group(3) else nxt
        kinds.append((m.group(1), d))
        nxt = d + 1
    kset = {k for k, _ in kinds}
    if len(kset) != len(kinds) or not kinds:
        die("enum HaystackKind: duplicate or no variants")

    # ---- TryFrom<u8> -------------------------------------------------------------------------
    impl = find_impl(src, r"impl TryFrom<u8> for HaystackKind\s*\{", "TryFrom<u8>")
    b = match_body(impl, "value", "TryFrom<u8>")
    from_u8 = arms(b, r"(\w+) if \1 == HaystackKind::(\w+) as u8 => Ok\(HaystackKind::(\w+)\)\s*,", "TryFrom<u8>",
                   r"_ => Err\(format!\(.*?\)\)\s*,?")
    from_u8 = [(a, r) for _, a, r in from_u8]

    # ---- From<&Value> ------------------------------------------------------------------------
    impl = find_impl(src, r"impl From<&Value> for HaystackKind\s*\{", "From<&Value>")
    b = match_body(impl, "value", "From<&Value>")
    of_value = arms(b, r"Value::(\w+)(?:\(_\))? => HaystackKind::(\w+)\s*,", "From<&Value>")

    # ---- From<HaystackKind> for &'static str -------------------------------------------------
    impl = find_impl(src, r"impl From<HaystackKind> for &'static str\s*\{", "From<HaystackKind> for &str")
    b = match_body(impl, "kind", "From<HaystackKind> for &str")
    to_str = arms(b, r"HaystackKind::(\w+) => \"([^\"\\]*)\"\s*,", "From<HaystackKind> for &str")

    # ---- TryFrom<&str> -----------------------------------------------------------------------
    impl = find_impl(src, r"impl TryFrom<&str> for HaystackKind\s*\{", "TryFrom<&str>")
    b = match_body(impl, "kind", "TryFrom<&str>")
    from_str = arms(b, r"\"([^\"\\]*)\" => Ok\(HaystackKind::(\w+)\)\s*,", "TryFrom<&str>",
                    r"_ => Err\(format!\(.*?\)\)\s*,?")

    # ---- Display -----------------------------------------------------------------------------
    impl = find_impl(src, r"impl Display for HaystackKind\s*\{", "Display")
    b = match_body(impl, "self", "Display")
    display = arms(b, r"HaystackKind::(\w+) => \"([^\"\\]*)\"\s*,", "Display")
    if not re.search(r"let kind = match self\s*\{", impl) or not re.search(r"write!\(fmt, \"\{kind\}\"\)", impl):
        die("Display: not `let kind = match self {…}; write!(fmt, \"{kind}\")`")

    for tbl, cols, what in ((from_u8, (0, 1), "TryFrom<u8>"), (of_value, (1,), "From<&Value>"), (to_str, (0,), "From<HaystackKind>"),
                            (from_str, (1,), "TryFrom<&str>"), (display, (0,), "Display")):
        for row in tbl:
            for c in cols:
                if row[c] not in kset:
                    die(f"{what}: HaystackKind::{row[c]} is not a variant")

    return kinds, from_u8, of_value, to_str, from_str, display


def by_execution():
    d = dump("c19")
    if d is None:
        return None
    return ([tuple(x) for x in d["kinds"]], [tuple(x) for x in d["fromU8"]], [tuple(x) for x in d["ofValue"]],
            [tuple(x) for x in d["toStr"]], [tuple(x) for x in d["fromStr"]], [tuple(x) for x in d["display"]])


def main():
    if len(sys.argv) != 3:
        print("usage: kinds.py <repo> <outdir>")
        sys.exit(2)
    repo, outdir = sys.argv[1], sys.argv[2]
    how = "source text"
    try:
        tables = extract(repo)
    except ShapeMismatch as e:
        tables = by_execution()
        if tables is None:
            print(f"gen/kinds.py: shape mismatch: {e}")
            sys.exit(1)
        how = "execution"
        print(f"FALLBACK kinds: kind.rs no longer has the parsed shape ({e}); tables taken from `hsverif dump c19` (all 256 codes, all kinds, all names executed)")
    kinds, from_u8, of_value, to_str, from_str, display = tables

    def pairs(name, doc, tbl):
        out = [f"/-- {doc} -/", f"def {name} : List (List Char × List Char) := ["]
        out.append(",\n".join(f"  ({lean_chars(a)}, {lean_chars(b)})" for a, b in tbl))
        out += ["]", ""]
        return out

    L = ["/-  GENERATED by gen/kinds.py from /repo/src/haystack/val/kind.rs — do not edit.  -/",
         "namespace Hs.Gen.Kinds", "",
         "/-- variants of `enum HaystackKind` in declaration order with their discriminant (`K as u8`) -/",
         "def kinds : List (List Char × Nat) := ["]
    L.append(",\n".join(f"  ({lean_chars(k)}, {d})" for k, d in kinds))
    L += ["]", ""]
    L += pairs("fromU8", "`TryFrom<u8>`: arm `v if v == HaystackKind::A as u8 => Ok(HaystackKind::B)` as (A, B); no arm matches: `Err`", from_u8)
    L += pairs("ofValue", "`From<&Value>`: arm `Value::V… => HaystackKind::K` as (V, K)", of_value)
    L += pairs("toStr", "`From<HaystackKind> for &'static str`: (K, name)", to_str)
    L += pairs("fromStr", "`TryFrom<&str>`: arm `\"name\" => Ok(HaystackKind::K)` as (name, K); no arm matches: `Err`", from_str)
    L += pairs("display", "`Display`: (K, text written)", display)
    L.append("end Hs.Gen.Kinds")
    text = "\n".join(L) + "\n"
    os.makedirs(outdir, exist_ok=True)
    out = os.path.join(outdir, "Kinds.lean")
    if not (os.path.exists(out) and open(out, encoding="utf-8").read() == text):
        open(out, "w", encoding="utf-8").write(text)
    print(f"gen/kinds.py ({how}): {len(kinds)} kinds, tables {len(from_u8)}/{len(of_value)}/{len(to_str)}/{len(from_str)}/{len(display)} -> {out}")


if __name__ == "__main__":
    main()
