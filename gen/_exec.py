"""Second source for the translated tables: the same table computed BY EXECUTION of the real code over its complete
finite domain (`hsverif dump <what>`, harness built against /repo's current tree).  A translator uses it when the
source text no longer has the shape its extractor parses (a rewrite of the Rust item): the table theorems are then
re-checked against what the code DOES instead of what its text says.  The switch is reported on stdout as a line
`FALLBACK <translator>: <reason>` and recorded by `check` in the evidence."""
import json, os, subprocess


class ShapeMismatch(Exception):
    pass


def hsverif():
    root = os.environ.get("VERIF_ROOT") or os.path.dirname(os.path.dirname(os.path.abspath(__file__)))
    return os.path.join(root, ".cache", "cargo-target", "release", "hsverif")


def dump(what):
    """parsed JSON of `hsverif dump <what>`, or None when the harness is not there / fails"""
    exe = hsverif()
    if not os.path.exists(exe):
        return None
    try:
        r = subprocess.run([exe, "dump", what], capture_output=True, text=True, timeout=600)
    except Exception:
        return None
    if r.returncode != 0:
        return None
    try:
        return json.loads(r.stdout)
    except Exception:
        return None
