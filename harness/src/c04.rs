//! C04 — Zinc text conforms to the Project Haystack grammar in both directions.
//!
//! The independent implementation written from the specification is the pair
//!   reference WRITER  harness/src/spell.rs (Rust; picks among all legal spellings at random)
//!   reference READER  lean/Hs/Spec/ZincRead.lean (Lean; request `C04 read H(text)`)
//! input: `w <VX value>`            write direction: the reference reader must read to_zinc_string(v) as v
//!        `r <seed> <VX value>`     read direction: from_str(spell(v, seed)) must equal v in every
//!                                  component; the reference reader must read the spelling as v too
//! In both directions the "implementation reply" of the `read` request is the value itself.

use crate::ctx::{CaseOut, Ctx};
use crate::gen::{self, Cfg};
use crate::rng::Rng;
use crate::same;
use crate::spell;
use crate::vx;
use libhaystack::encoding::zinc::decode::from_str;
use libhaystack::encoding::zinc::encode::to_zinc_string;
use libhaystack::val::*;

/// the VX text a reader must produce for `v` (an empty meta is an absent meta)
fn expected(v: &Value) -> String {
    fn norm(v: &Value) -> Value {
        match v {
            Value::List(l) => Value::List(l.iter().map(norm).collect()),
            Value::Dict(d) => Value::Dict(d.iter().map(|(k, v)| (k.clone(), norm(v))).collect()),
            Value::Grid(g) => {
                let nd = |d: &Dict| -> Dict { d.iter().map(|(k, v)| (k.clone(), norm(v))).collect() };
                Value::Grid(Grid {
                    meta: g.meta.as_ref().filter(|m| !m.is_empty()).map(nd),
                    columns: g.columns.iter().map(|c| Column { name: c.name.clone(), meta: c.meta.as_ref().filter(|m| !m.is_empty()).map(nd) }).collect(),
                    rows: g.rows.iter().map(nd).collect(),
                    ver: g.ver.clone(),
                })
            }
            Value::Number(n) if n.value.is_nan() => Value::make_number(f64::NAN),
            other => other.clone(),
        }
    }
    vx::show(&norm(v))
}

pub fn exec(_label: &str, input: &str, out: &mut CaseOut) {
    let (mode, rest) = input.split_once(' ').unwrap_or((input, ""));
    match mode {
        "w" => {
            let v = match vx::parse(rest) {
                Some(v) => v,
                None => return out.fail("harness", "unparsable VX input".into()),
            };
            out.nontrivial = true;
            out.stat(&format!("w:{}", crate::c01::kind_name(&v)));
            match to_zinc_string(&v) {
                Ok(t) => out.req(format!("C04 read {}", vx::h(&t)), format!("ok {}", expected(&v))),
                Err(e) => out.fail("enc_err", format!("to_zinc_string failed on a well-formed value: {e}")),
            }
        }
        "r" => {
            let (seed, vtxt) = rest.split_once(' ').unwrap_or(("1", ""));
            let v = match vx::parse(vtxt) {
                Some(v) => v,
                None => return out.fail("harness", "unparsable VX input".into()),
            };
            out.nontrivial = true;
            out.stat(&format!("r:{}", crate::c01::kind_name(&v)));
            let mut rng = Rng::new(seed.parse().unwrap_or(1));
            let t = spell::spell(&mut rng, &v);
            // the two reference artefacts must agree with each other …
            out.req(format!("C04 read {}", vx::h(&t)), format!("ok {}", expected(&v)));
            // … and the library must read the sentence as the value it denotes
            match from_str(&t) {
                Err(e) => out.fail("read_rejects", format!("from_str rejects the legal spelling {t:?}: {e}")),
                Ok(b) => {
                    if let Some(d) = same::diff(&v, &b, "v") {
                        out.fail("read_differs", format!("{d}   (spelling {t:?})"));
                    }
                }
            }
            // the byte-exact decoder model on the same sentence
            let reply = match from_str(&t) {
                Ok(b) => format!("ok {}", vx::show(&b)),
                Err(_) => "err".into(),
            };
            out.req(format!("C04 dec {}", vx::h(&t)), reply);
        }
        _ => out.fail("harness", format!("unknown mode {mode}")),
    }
}

pub fn generate(ctx: &mut Ctx) {
    // texts longer than 4 KiB / 8 KiB / 64 KiB whose look-ahead tokens fall on every alignment, spelled by the reference
    // writer; timestamps in both passes of the repeated hour and in local-mean-time periods
    for (i, v) in crate::c01::long_values().into_iter().enumerate() {
        ctx.case("r:long", &format!("r {} {}", 5000 + i, vx::show(&v)));
    }
    for (i, dt) in gen::dst_edge_datetimes().into_iter().chain(gen::lmt_datetimes()).enumerate() {
        let v = Value::List(vec![Value::DateTime(dt)]);
        ctx.case("w:stamp", &format!("w {}", vx::show(&v)));
        ctx.case("r:stamp", &format!("r {} {}", 6000 + i, vx::show(&v)));
    }
    for v in crate::c01::named_cases() {
        ctx.case("w:named", &format!("w {}", vx::show(&v)));
        for k in 0..8 {
            ctx.case("r:named", &format!("r {} {}", 1000 + k, vx::show(&v)));
        }
    }
    // escapes: every control character, the short escapes, BMP and astral characters, in Str and Uri
    let mut all = String::new();
    for u in 0u32..0x20 {
        all.push(char::from_u32(u).unwrap());
    }
    all.push_str("\"\\$`'é€\u{ffff}😀");
    for k in 0..24 {
        ctx.case("r:escapes", &format!("r {} {}", 2000 + k, vx::show(&Value::make_str(&all))));
        ctx.case("r:escapes", &format!("r {} {}", 2100 + k, vx::show(&Value::make_uri(" !\"$'`\\é€\u{ffff}😀"))));
    }
    ctx.case("w:escapes", &format!("w {}", vx::show(&Value::make_str(&all))));
    ctx.case("w:escapes", &format!("w {}", vx::show(&Value::make_uri(" !\"$'`\\é€\u{ffff}😀"))));
    let n = ctx.n(2500, 120_000);
    for i in 0..n {
        let mut rng = ctx.rng.fork();
        let cfg = Cfg::wf(if i % 10 == 0 { 5 } else { 3 });
        let v = if i % 3 == 0 { Value::Grid(gen::grid(&mut rng, &cfg, 0)) } else { gen::value(&mut rng, &cfg) };
        let vt = vx::show(&v);
        ctx.case("w:rand", &format!("w {vt}"));
        let seed = rng.next() % 1_000_000;
        ctx.case("r:rand", &format!("r {seed} {vt}"));
        if i % 4 == 0 {
            ctx.case("r:rand", &format!("r {} {vt}", seed + 1));
        }
    }
    // thorough: many spellings of small values
    if !ctx.quick() {
        for i in 0..3000u64 {
            let mut rng = ctx.rng.fork();
            let v = gen::value(&mut rng, &Cfg::wf(2));
            let vt = vx::show(&v);
            for k in 0..16 {
                ctx.case("r:enum", &format!("r {} {vt}", i * 16 + k));
            }
        }
    }
}

// ---------------------------------------------------------------------------------------------
// tables by execution (`hsverif dump zesc`): the second source of `Hs/Gen/ZincEscapes.lean`.  The reader
// table is measured by decoding `"\b"` for every byte b (the text must decode to a Str of one character);
// the writer table by encoding a Str of every Unicode scalar value and keeping the two-byte escapes.
// ---------------------------------------------------------------------------------------------
pub fn dump_tables() {
    let mut reader: Vec<(u32, u32)> = Vec::new();
    for b in 0u8..=255 {
        if b >= 0x80 {
            continue; // not a character on its own
        }
        let text = format!("\"\\{}\"", b as char);
        let r = std::panic::catch_unwind(|| from_str(&text));
        if let Ok(Ok(Value::Str(s))) = r {
            let cs: Vec<char> = s.value.chars().collect();
            if cs.len() == 1 {
                reader.push((b as u32, cs[0] as u32));
            }
        }
    }
    let other = match std::panic::catch_unwind(|| from_str("\"\\u0041\"")) {
        Ok(Ok(Value::Str(s))) if s.value == "A" => 1,
        _ => 0,
    };
    let mut writer: Vec<(u32, u32)> = Vec::new();
    for c in (0u32..=0x10FFFF).filter_map(char::from_u32) {
        let v = Value::make_str(&c.to_string());
        if let Ok(Ok(t)) = std::panic::catch_unwind(|| to_zinc_string(&v)) {
            let bs = t.as_bytes();
            if bs.len() == 4 && bs[0] == b'"' && bs[1] == b'\\' && bs[3] == b'"' {
                writer.push((c as u32, bs[2] as u32));
            }
        }
    }
    let show = |v: &Vec<(u32, u32)>| v.iter().map(|(a, b)| format!("[{a},{b}]")).collect::<Vec<_>>().join(",");
    println!("{{\"read\":[{}],\n\"write\":[{}],\n\"otherArms\":{}}}", show(&reader), show(&writer), other);
}
