//! C13 — def namespace queries agree with the subtype graph.
//!
//! A case is a defs grid + query symbols + records + base symbols, all in the input string:
//!   `g <nrows> {row}* q <k> {hexname}* r <k> {<ntags> {<hextag> <0|1>}*}* b <k> {hexname}*`
//!   row = `<s|x|n> [hexname]  <l|y|n> [<n> {hexname|-}* | hexname]`
//!         (def is a Symbol / a Str / absent;  is is a List / a single Symbol / absent; `-` = a non-Symbol item)
//! or a slice of the real database: `zinc <lo> <hi> <nrec> <seed>` (symbols lo..hi of tests/defs/defs.zinc in
//! sorted order, fits against ALL its symbols, plus <nrec> records derived from <seed>).
//!
//! For every query symbol the real `Namespace` answers supertypes_of, all_supertypes_of, subtypes_of,
//! all_subtypes_of, inheritance, choices_for, conjuncts_defs and fits against every symbol of the universe;
//! for every record reflect().defs, Reflection::fits(base) and the filter `^base`.  Each answer goes
//! (a) to the Lean model as a correspondence request (`C13 sym ..`, `C13 refl ..`; sorted name lists) and
//! (b) against an independent closure oracle (plain DFS with a visited set over the `is` lists) written here;
//!     on small grids the DFS is itself cross-checked against a Floyd-Warshall closure.
//!
//! Reflection is held to the statement in full for EVERY conjunct def: its parts may or may not have defs of their
//! own (0, 1 or all of them undefined), repeat (`a-a`) or be empty (`a-`, `-b`, `a--b`); the records carry every
//! part as a Marker, as another value, or not at all.  (Before the repair of `Namespace::reflect` a Marker tag
//! without a def was not taken as a conjunct part: `{ahu, rooftop}` with defs `ahu`, `ahu-rooftop` and no def
//! `rooftop` did not reflect `ahu-rooftop` - reported as `oracle_reflect` with that record.)
//!
//! The grids are ARBITRARY graphs: since /repo da32af2 the traversals expand a def once, so `is` lists that
//! form cycles (self loops, 2-cycles, rings, cycles with tails, cycles through diamonds and conjuncts) are in
//! scope like everything else.  A regression to a traversal without a visited check never returns on them: the
//! per-case watchdog reports it as kind `hang` with the case's input (the defs grid) as the replay.

use crate::ctx::{CaseOut, Ctx};
use crate::rng::Rng;
use crate::vx;
use libhaystack::defs::namespace::{DefDict, Namespace};
use libhaystack::filter::eval::{Eval, EvalContext};
use libhaystack::filter::Filter;
use libhaystack::val::*;
use std::collections::{BTreeMap, BTreeSet};
use std::sync::OnceLock;

// ------------------------------------------------------------------------------------------------
// grid rows as generated / transmitted
// ------------------------------------------------------------------------------------------------
#[derive(Clone, Debug)]
pub enum DefTag {
    Sym(String),
    Other(String),
    Absent,
}
#[derive(Clone, Debug)]
pub enum IsTag {
    List(Vec<Option<String>>),
    Single(String),
    Absent,
}
/// the value of a further tag of a def dict, as far as the namespace code tells values apart
#[derive(Clone, Debug, PartialEq)]
pub enum ExtraV {
    Marker,
    /// a Symbol
    Sym(String),
    /// a List; `None` = an item that is not a Symbol
    List(Vec<Option<String>>),
    /// any other value (a Str)
    Other,
}
impl ExtraV {
    pub fn sym(s: &str) -> ExtraV {
        ExtraV::Sym(s.to_string())
    }
    /// one token: `-` Marker, hex Symbol, `O` other, `L` + comma separated items (hex or `-`) List
    pub fn token(&self) -> String {
        match self {
            ExtraV::Marker => "-".into(),
            ExtraV::Sym(s) => vx::h(s),
            ExtraV::Other => "O".into(),
            ExtraV::List(l) => format!("L{}", l.iter().map(vx::ho).collect::<Vec<_>>().join(",")),
        }
    }
    pub fn parse(t: &str) -> Option<ExtraV> {
        if t == "-" {
            Some(ExtraV::Marker)
        } else if t == "O" {
            Some(ExtraV::Other)
        } else if let Some(rest) = t.strip_prefix('L') {
            if rest.is_empty() {
                return Some(ExtraV::List(vec![]));
            }
            let mut v = Vec::new();
            for it in rest.split(',') {
                v.push(if it == "-" { None } else { Some(vx::unh(it)?) });
            }
            Some(ExtraV::List(v))
        } else {
            Some(ExtraV::Sym(vx::unh(t)?))
        }
    }
}
/// what the model is told about a tag
#[derive(Clone, Debug, PartialEq)]
pub enum XTag {
    Marker,
    Sym(String),
    List(Vec<Option<String>>),
    Other,
}
fn list_value(l: &[Option<String>]) -> Value {
    Value::make_list(
        l.iter()
            .enumerate()
            .map(|(i, it)| match it {
                Some(s) => Value::make_symbol(s),
                None => {
                    if i % 2 == 0 {
                        Value::make_str("notASymbol")
                    } else {
                        Value::make_int(i as i64)
                    }
                }
            })
            .collect(),
    )
}
#[derive(Clone, Debug)]
pub struct RowSpec {
    pub def: DefTag,
    pub is: IsTag,
    /// further tags of the def dict (relationship / association tags)
    pub extra: Vec<(String, ExtraV)>,
}

impl RowSpec {
    pub fn plain(name: &str, is: Vec<Option<String>>) -> RowSpec {
        RowSpec { def: DefTag::Sym(name.to_string()), is: IsTag::List(is), extra: vec![] }
    }
    /// what the model sees: (def symbol, items of the is list)
    pub fn model_view(&self) -> (Option<String>, Vec<Option<String>>) {
        let n = match &self.def {
            DefTag::Sym(s) => Some(s.clone()),
            _ => None,
        };
        let items = match &self.is {
            IsTag::List(l) => l.clone(),
            _ => vec![],
        };
        (n, items)
    }
    pub fn to_dict(&self) -> Dict {
        let mut d = Dict::new();
        match &self.def {
            DefTag::Sym(s) => {
                d.insert("def".into(), Value::make_symbol(s));
            }
            DefTag::Other(s) => {
                d.insert("def".into(), Value::make_str(s));
            }
            DefTag::Absent => {}
        }
        match &self.is {
            IsTag::List(l) => {
                let items: Vec<Value> = l
                    .iter()
                    .enumerate()
                    .map(|(i, it)| match it {
                        Some(s) => Value::make_symbol(s),
                        None => {
                            if i % 2 == 0 {
                                Value::make_str("notASymbol")
                            } else {
                                Value::make_int(i as i64)
                            }
                        }
                    })
                    .collect();
                d.insert("is".into(), Value::make_list(items));
            }
            IsTag::Single(s) => {
                d.insert("is".into(), Value::make_symbol(s));
            }
            IsTag::Absent => {}
        }
        d.insert("doc".into(), Value::make_str("generated"));
        for (k, v) in &self.extra {
            if k == "def" {
                continue;
            }
            match v {
                ExtraV::Sym(s) => d.insert(k.clone(), Value::make_symbol(s)),
                ExtraV::Marker => d.insert(k.clone(), Value::make_marker()),
                ExtraV::List(l) => d.insert(k.clone(), list_value(l)),
                ExtraV::Other => d.insert(k.clone(), Value::make_str("other")),
            };
        }
        d
    }
    /// what the model of part 2 sees: the def symbol and every tag but `def`, exactly as `to_dict` builds them
    /// (a later insert of the same key replaces the earlier)
    pub fn model_view_x(&self) -> (Option<String>, Vec<(String, XTag)>) {
        let n = match &self.def {
            DefTag::Sym(s) => Some(s.clone()),
            _ => None,
        };
        let mut tags: BTreeMap<String, XTag> = BTreeMap::new();
        match &self.is {
            IsTag::List(l) => {
                tags.insert("is".into(), XTag::List(l.clone()));
            }
            IsTag::Single(s) => {
                tags.insert("is".into(), XTag::Sym(s.clone()));
            }
            IsTag::Absent => {}
        }
        tags.insert("doc".into(), XTag::Other);
        for (k, v) in &self.extra {
            if k == "def" {
                continue;
            }
            let x = match v {
                ExtraV::Sym(s) => XTag::Sym(s.clone()),
                ExtraV::Marker => XTag::Marker,
                ExtraV::List(l) => XTag::List(l.clone()),
                ExtraV::Other => XTag::Other,
            };
            tags.insert(k.clone(), x);
        }
        (n, tags.into_iter().collect())
    }
}

pub fn write_rows(rows: &[RowSpec], out: &mut Vec<String>) {
    out.push(rows.len().to_string());
    for r in rows {
        match &r.def {
            DefTag::Sym(s) => {
                out.push("s".into());
                out.push(vx::h(s));
            }
            DefTag::Other(s) => {
                out.push("x".into());
                out.push(vx::h(s));
            }
            DefTag::Absent => out.push("n".into()),
        }
        match &r.is {
            IsTag::List(l) => {
                out.push("l".into());
                out.push(l.len().to_string());
                for it in l {
                    out.push(vx::ho(it));
                }
            }
            IsTag::Single(s) => {
                out.push("y".into());
                out.push(vx::h(s));
            }
            IsTag::Absent => out.push("n".into()),
        }
        out.push(r.extra.len().to_string());
        for (k, v) in &r.extra {
            out.push(vx::h(k));
            out.push(v.token());
        }
    }
}

pub fn read_rows(rd: &mut vx::Rd) -> Option<Vec<RowSpec>> {
    let n: usize = rd.num()?;
    let mut rows = Vec::with_capacity(n);
    for _ in 0..n {
        let def = match rd.tok()? {
            "s" => DefTag::Sym(rd.hs()?),
            "x" => DefTag::Other(rd.hs()?),
            "n" => DefTag::Absent,
            _ => return None,
        };
        let is = match rd.tok()? {
            "l" => {
                let k: usize = rd.num()?;
                let mut v = Vec::with_capacity(k);
                for _ in 0..k {
                    v.push(rd.hos()?);
                }
                IsTag::List(v)
            }
            "y" => IsTag::Single(rd.hs()?),
            "n" => IsTag::Absent,
            _ => return None,
        };
        let ne: usize = rd.num()?;
        let mut extra = Vec::new();
        for _ in 0..ne {
            let k = rd.hs()?;
            let v = match ExtraV::parse(rd.tok()?)? {
                // the first generators wrote a `tagOn` list of one Symbol as that Symbol
                ExtraV::Sym(s) if k == "tagOn" => ExtraV::List(vec![Some(s)]),
                v => v,
            };
            extra.push((k, v));
        }
        rows.push(RowSpec { def, is, extra });
    }
    Some(rows)
}

pub fn read_names(rd: &mut vx::Rd) -> Option<Vec<String>> {
    let n: usize = rd.num()?;
    (0..n).map(|_| rd.hs()).collect()
}
pub fn write_names(names: &[String], out: &mut Vec<String>) {
    out.push(names.len().to_string());
    for n in names {
        out.push(vx::h(n));
    }
}

pub type RecSpec = Vec<(String, bool)>;

pub fn read_recs(rd: &mut vx::Rd) -> Option<Vec<RecSpec>> {
    let n: usize = rd.num()?;
    let mut recs = Vec::new();
    for _ in 0..n {
        let k: usize = rd.num()?;
        let mut r = Vec::new();
        for _ in 0..k {
            let name = rd.hs()?;
            let m: u8 = rd.num()?;
            r.push((name, m != 0));
        }
        recs.push(r);
    }
    Some(recs)
}
pub fn write_recs(recs: &[RecSpec], out: &mut Vec<String>) {
    out.push(recs.len().to_string());
    for r in recs {
        out.push(r.len().to_string());
        for (k, m) in r {
            out.push(vx::h(k));
            out.push((*m as u8).to_string());
        }
    }
}
pub fn rec_dict(r: &RecSpec) -> Dict {
    let mut d = Dict::new();
    for (i, (k, m)) in r.iter().enumerate() {
        let v = if *m {
            Value::make_marker()
        } else if i % 2 == 0 {
            Value::make_int(7)
        } else {
            Value::make_str("v")
        };
        d.insert(k.clone(), v);
    }
    d
}

/// the graph as the model's request tokens: `<nrows> {<def|-> <nis> {<item|->}*}*`
pub fn model_graph_tokens(rows: &[RowSpec]) -> String {
    let mut t = vec![rows.len().to_string()];
    for r in rows {
        let (n, items) = r.model_view();
        t.push(vx::ho(&n));
        t.push(items.len().to_string());
        for it in &items {
            t.push(vx::ho(it));
        }
    }
    t.join(" ")
}

/// the graph as the request tokens of part 2:
/// `<nrows> {<def|-> <ntags> {<key> (m | s <sym> | l <n> {<item|->}* | o)}*}*`
pub fn model_graph_tokens_x(rows: &[RowSpec]) -> String {
    let mut t = vec![rows.len().to_string()];
    for r in rows {
        let (n, tags) = r.model_view_x();
        t.push(vx::ho(&n));
        t.push(tags.len().to_string());
        for (k, v) in &tags {
            t.push(vx::h(k));
            match v {
                XTag::Marker => t.push("m".into()),
                XTag::Other => t.push("o".into()),
                XTag::Sym(s) => {
                    t.push("s".into());
                    t.push(vx::h(s));
                }
                XTag::List(l) => {
                    t.push("l".into());
                    t.push(l.len().to_string());
                    for it in l {
                        t.push(vx::ho(it));
                    }
                }
            }
        }
    }
    t.join(" ")
}

pub fn build_ns(rows: &[RowSpec]) -> &'static Namespace<'static> {
    let grid = Grid::make_from_dicts(rows.iter().map(|r| r.to_dict()).collect());
    Box::leak(Box::new(Namespace::make(grid)))
}
/// give the memory of a leaked namespace back (no reference to it may be alive)
pub unsafe fn free_ns(ns: &'static Namespace<'static>) {
    drop(Box::from_raw(ns as *const Namespace<'static> as *mut Namespace<'static>));
}

// ------------------------------------------------------------------------------------------------
// the oracle: the graph of the `is` lists, closures by plain DFS
// ------------------------------------------------------------------------------------------------
pub struct Oracle {
    /// def symbol -> Symbol items of its `is` list (last row wins)
    pub is: BTreeMap<String, Vec<String>>,
    /// symbol -> defs listing it (one entry per occurrence)
    pub subs: BTreeMap<String, Vec<String>>,
}

impl Oracle {
    pub fn new(rows: &[RowSpec]) -> Oracle {
        let mut is = BTreeMap::new();
        for r in rows {
            let (n, items) = r.model_view();
            if let Some(n) = n {
                is.insert(n, items.into_iter().flatten().collect::<Vec<String>>());
            }
        }
        let mut subs: BTreeMap<String, Vec<String>> = BTreeMap::new();
        for (d, items) in &is {
            for b in items {
                subs.entry(b.clone()).or_default().push(d.clone());
            }
        }
        Oracle { is, subs }
    }
    pub fn defined(&self, s: &str) -> bool {
        self.is.contains_key(s)
    }
    pub fn sup(&self, s: &str) -> Vec<String> {
        let mut v: Vec<String> = self.is.get(s).map_or(vec![], |l| l.iter().filter(|b| self.defined(b)).cloned().collect());
        v.sort();
        v
    }
    pub fn sub(&self, s: &str) -> Vec<String> {
        let mut v = self.subs.get(s).cloned().unwrap_or_default();
        v.sort();
        v
    }
    /// strict ancestors: DFS with a visited set
    pub fn all_sup(&self, s: &str) -> BTreeSet<String> {
        let mut seen = BTreeSet::new();
        let mut todo: Vec<String> = self.sup(s);
        while let Some(x) = todo.pop() {
            if seen.insert(x.clone()) {
                todo.extend(self.sup(&x));
            }
        }
        seen
    }
    pub fn all_sub(&self, s: &str) -> BTreeSet<String> {
        let mut seen = BTreeSet::new();
        let mut todo: Vec<String> = self.sub(s);
        while let Some(x) = todo.pop() {
            if seen.insert(x.clone()) {
                todo.extend(self.sub(&x));
            }
        }
        seen
    }
    pub fn inheritance(&self, s: &str) -> BTreeSet<String> {
        if !self.defined(s) {
            return BTreeSet::new();
        }
        let mut v = self.all_sup(s);
        v.insert(s.to_string());
        v
    }
    pub fn fits(&self, a: &str, b: &str) -> bool {
        self.defined(a) && self.defined(b) && (a == b || self.all_sup(a).contains(b))
    }
    pub fn choices(&self, s: &str, raw_has_choice: bool) -> Vec<String> {
        if self.defined(s) && raw_has_choice {
            self.sub(s)
        } else {
            vec![]
        }
    }
    pub fn conj(&self, s: &str) -> Vec<String> {
        let mut v: Vec<String> = s.split('-').filter(|p| self.defined(p)).map(|p| p.to_string()).collect();
        v.sort();
        v
    }
    /// the statement's reflection: defs of the tags, of every conjunct whose parts are all marker tags, and
    /// all their supertypes
    pub fn reflect(&self, rec: &RecSpec) -> BTreeSet<String> {
        let markers: BTreeSet<&str> = rec.iter().filter(|(_, m)| *m).map(|(k, _)| k.as_str()).collect();
        let mut seeds: Vec<String> = rec.iter().filter(|(k, _)| self.defined(k)).map(|(k, _)| k.clone()).collect();
        for c in self.is.keys() {
            if c.contains('-') && c.split('-').all(|p| markers.contains(p)) {
                seeds.push(c.clone());
            }
        }
        let mut out = BTreeSet::new();
        for s in seeds {
            out.extend(self.all_sup(&s));
            out.insert(s);
        }
        out
    }
    /// the defs that lie on a cycle of `is` edges (they are their own transitive supertype)
    pub fn on_cycle(&self) -> Vec<String> {
        self.is.keys().filter(|k| self.all_sup(k).contains(*k)).cloned().collect()
    }
    /// a second, differently built closure (Floyd-Warshall over the defined `is` edges) for cross-checking the
    /// DFS on small graphs: name -> strict ancestors
    pub fn warshall(&self) -> BTreeMap<String, BTreeSet<String>> {
        let names: Vec<&String> = self.is.keys().collect();
        let n = names.len();
        let idx: BTreeMap<&String, usize> = names.iter().enumerate().map(|(i, k)| (*k, i)).collect();
        let mut m = vec![vec![false; n]; n];
        for (a, items) in &self.is {
            for b in items {
                if let Some(&j) = idx.get(b) {
                    m[idx[a]][j] = true;
                }
            }
        }
        for k in 0..n {
            for i in 0..n {
                if m[i][k] {
                    for j in 0..n {
                        if m[k][j] {
                            m[i][j] = true;
                        }
                    }
                }
            }
        }
        (0..n).map(|i| (names[i].clone(), (0..n).filter(|&j| m[i][j]).map(|j| names[j].clone()).collect())).collect()
    }
    /// loop iterations of a traversal WITHOUT a visited check (number of paths), saturating.  Only meaningful
    /// on an acyclic graph (it recurses along the edges): `gen_graph` calls it before any back edge is added.
    pub fn cost(&self, cap: u64) -> u64 {
        // paths counted by memoised DFS (the graph is acyclic by construction)
        fn up(o: &Oracle, s: &str, memo: &mut BTreeMap<String, u64>, cap: u64) -> u64 {
            if let Some(v) = memo.get(s) {
                return *v;
            }
            let mut c: u64 = 0;
            for b in o.sup(s) {
                c = c.saturating_add(1).saturating_add(up(o, &b, memo, cap)).min(cap);
            }
            memo.insert(s.to_string(), c);
            c
        }
        fn down(o: &Oracle, s: &str, memo: &mut BTreeMap<String, u64>, cap: u64) -> u64 {
            if let Some(v) = memo.get(s) {
                return *v;
            }
            let mut c: u64 = 0;
            for b in o.sub(s) {
                c = c.saturating_add(1).saturating_add(down(o, &b, memo, cap)).min(cap);
            }
            memo.insert(s.to_string(), c);
            c
        }
        let mut m1 = BTreeMap::new();
        let mut m2 = BTreeMap::new();
        let mut total: u64 = 0;
        let mut keys: BTreeSet<String> = self.is.keys().cloned().collect();
        keys.extend(self.subs.keys().cloned());
        for k in keys {
            total = total.saturating_add(up(self, &k, &mut m1, cap)).saturating_add(down(self, &k, &mut m2, cap));
        }
        total
    }
}

// ------------------------------------------------------------------------------------------------
// answers of the real namespace, canonicalised
// ------------------------------------------------------------------------------------------------
pub fn names<'x, I: IntoIterator<Item = &'x Dict>>(it: I) -> Vec<String> {
    let mut v: Vec<String> = it.into_iter().map(|d| d.def_name().clone()).collect();
    v.sort();
    v
}
pub fn show(v: &[String]) -> String {
    v.iter().map(|s| vx::h(s)).collect::<Vec<_>>().join(",")
}
fn set_vec(s: &BTreeSet<String>) -> Vec<String> {
    s.iter().cloned().collect()
}

struct SymAns {
    sup: Vec<String>,
    asup: Vec<String>,
    sub: Vec<String>,
    asub: Vec<String>,
    inh: Vec<String>,
    cho: Vec<String>,
    conj: Vec<String>,
    fits: Vec<String>,
}

fn ask(ns: &'static Namespace<'static>, q: &str, universe: &[String]) -> SymAns {
    let sym = Symbol::from(q);
    let sup = names(ns.supertypes_of(&sym).iter().copied());
    let asup = names(ns.all_supertypes_of(&sym));
    let sub = names(ns.subtypes_of(&sym).iter());
    let asub = names(ns.all_subtypes_of(&sym));
    let inh = names(ns.inheritance(&sym).iter().copied());
    let cho = names(ns.choices_for(&sym).iter());
    let conj = names(ns.conjuncts_defs(&sym));
    let mut fits: Vec<String> = universe.iter().filter(|u| ns.fits(&sym, &Symbol::from(u.as_str()))).cloned().collect();
    fits.sort();
    SymAns { sup, asup, sub, asub, inh, cho, conj, fits }
}

fn sym_reply(a: &SymAns) -> String {
    format!(
        "sup={}|asup={}|sub={}|asub={}|inh={}|cho={}|conj={}|fits={}",
        show(&a.sup),
        show(&a.asup),
        show(&a.sub),
        show(&a.asub),
        show(&a.inh),
        show(&a.cho),
        show(&a.conj),
        show(&a.fits)
    )
}

fn raw_has_choice(rows: &[RowSpec], s: &str) -> bool {
    // last row with this def symbol wins
    let mut res = false;
    for r in rows {
        if let (Some(n), items) = r.model_view() {
            if n == s {
                res = items.iter().any(|it| it.as_deref() == Some("choice"));
            }
        }
    }
    res
}

fn filter_symbol_ok(s: &str) -> bool {
    let mut cs = s.chars();
    match cs.next() {
        Some(c) if c.is_ascii_lowercase() => {}
        _ => return false,
    }
    s.chars().all(|c| c.is_ascii_alphanumeric() || c == '_' || c == ':' || c == '-')
}

fn sorted_fits(refl: &libhaystack::defs::reflection::Reflection, bases: &[String]) -> Vec<String> {
    let mut v: Vec<String> = bases.iter().filter(|b| refl.fits(&Symbol::from(b.as_str()))).cloned().collect();
    v.sort();
    v
}

/// what kind of conjunct situations a record exercises (distribution only)
fn record_stats(o: &Oracle, r: &RecSpec, got: &[String], out: &mut CaseOut) {
    let tag: BTreeMap<&str, bool> = r.iter().map(|(k, m)| (k.as_str(), *m)).collect();
    for c in o.is.keys().filter(|c| c.contains('-')) {
        let parts: Vec<&str> = c.split('-').collect();
        let nundef = parts.iter().filter(|p| !o.defined(p)).count();
        let all_markers = parts.iter().all(|p| tag.get(p) == Some(&true));
        let all_tags = parts.iter().all(|p| tag.contains_key(p));
        let some_tag = parts.iter().any(|p| tag.contains_key(p));
        let cls = if nundef == 0 { "all_parts_defined" } else if nundef == parts.len() { "no_part_defined" } else { "some_part_undefined" };
        if all_markers {
            out.stat(&format!("rec_has_conjunct:{cls}"));
            if got.contains(c) {
                out.stat(&format!("rec_reflects_conjunct:{cls}"));
            }
            if parts.iter().any(|p| p.is_empty()) {
                out.stat("rec_has_conjunct:empty_part");
            }
            let distinct: BTreeSet<&&str> = parts.iter().collect();
            if distinct.len() < parts.len() {
                out.stat("rec_has_conjunct:repeated_part");
            }
        } else if all_tags {
            out.stat(&format!("rec_conjunct_part_not_marker:{cls}"));
        } else if some_tag {
            out.stat(&format!("rec_conjunct_part_missing:{cls}"));
        }
    }
}

/// run every query of one case
fn run_queries(
    rows: &[RowSpec],
    ns: &'static Namespace<'static>,
    queries: &[String],
    universe: &[String],
    recs: &[RecSpec],
    bases: &[String],
    out: &mut CaseOut,
) {
    let o = Oracle::new(rows);
    let graph = model_graph_tokens(rows);
    // ---- symbols ---------------------------------------------------------------------------
    let mut replies = Vec::new();
    for q in queries {
        let a = ask(ns, q, universe);
        let chk = |kind: &str, got: &Vec<String>, want: Vec<String>, out: &mut CaseOut| {
            if *got != want {
                out.fail(kind, format!("symbol {q:?}: namespace {got:?}, graph {want:?}"));
            }
        };
        chk("oracle_supertypes", &a.sup, o.sup(q), out);
        chk("oracle_all_supertypes", &a.asup, set_vec(&o.all_sup(q)), out);
        chk("oracle_subtypes", &a.sub, o.sub(q), out);
        chk("oracle_all_subtypes", &a.asub, set_vec(&o.all_sub(q)), out);
        chk("oracle_inheritance", &a.inh, set_vec(&o.inheritance(q)), out);
        chk("oracle_choices", &a.cho, o.choices(q, raw_has_choice(rows, q)), out);
        chk("oracle_conjuncts", &a.conj, o.conj(q), out);
        let mut want_fits: Vec<String> = universe.iter().filter(|u| o.fits(q, u)).cloned().collect();
        want_fits.sort();
        chk("oracle_fits", &a.fits, want_fits, out);
        if ns.has(&Symbol::from(q.as_str())) != o.defined(q) {
            out.fail("oracle_defined", format!("symbol {q:?}: has() = {}", !o.defined(q)));
        }
        if !a.asup.is_empty() {
            out.stat("has_supertypes");
        }
        if a.asup.len() > a.sup.len() {
            out.stat("transitive_supertypes");
        }
        if q.contains('-') && o.defined(q) {
            out.stat("conjunct_def");
        }
        if !o.defined(q) && !a.sub.is_empty() {
            out.stat("undefined_with_subtypes");
        }
        replies.push(sym_reply(&a));
    }
    if !queries.is_empty() {
        let mut t = vec![];
        write_names(queries, &mut t);
        write_names(universe, &mut t);
        out.req(format!("C13 sym {graph} {}", t.join(" ")), format!("ok {}", replies.join(";")));
    }
    // ---- records ---------------------------------------------------------------------------
    let mut rreplies = Vec::new();
    for r in recs {
        let d = rec_dict(r);
        let refl = ns.reflect(&d);
        let got = names(refl.defs.iter().copied());
        // the statement in full, whatever the conjunct's parts are (defined or not, empty, repeated): the defs of
        // the tags, of every conjunct def all of whose parts are Marker tags of the record, and all their supertypes
        let want = set_vec(&o.reflect(r));
        record_stats(&o, r, &got, out);
        if got != want {
            out.fail("oracle_reflect", format!("record {r:?}: reflect {got:?}, graph {want:?}"));
        }
        let wantset: BTreeSet<&String> = want.iter().collect();
        let mut fit = Vec::new();
        for b in bases {
            let f = refl.fits(&Symbol::from(b.as_str()));
            // `^b` matches exactly the records having a tag or conjunct that fits b
            let want_f = o.defined(b) && wantset.contains(b);
            if f != want_f {
                out.fail("oracle_reflection_fits", format!("record {r:?} base {b:?}: fits {f}, graph {want_f}"));
            }
            if filter_symbol_ok(b) {
                match Filter::try_from(format!("^{b}").as_str()) {
                    Ok(flt) => {
                        let cx = EvalContext::make(&d, ns, &d);
                        let e = flt.eval(&cx);
                        if e != want_f {
                            out.fail("oracle_filter_isa", format!("record {r:?} filter ^{b}: eval {e}, graph {want_f}"));
                        }
                        out.stat("filter_isa_evaluated");
                    }
                    Err(_) => out.stat("filter_isa_unparsable"),
                }
            }
            if f {
                fit.push(b.clone());
            }
        }
        fit.sort();
        if !got.is_empty() {
            out.stat("record_reflects_defs");
        }
        if got.iter().any(|n| n.contains('-')) {
            out.stat("record_reflects_conjunct");
        }
        rreplies.push(format!("defs={}|fits={}", show(&got), show(&fit)));
    }
    if !recs.is_empty() {
        let mut t = vec![];
        write_recs(recs, &mut t);
        write_names(bases, &mut t);
        out.req(format!("C13 refl {graph} {}", t.join(" ")), format!("ok {}", rreplies.join(";")));
    }
}


// ------------------------------------------------------------------------------------------------
// part 2: associations, implementation, root tests, indexes, entity type, has_relationship
// ------------------------------------------------------------------------------------------------
/// a record for `has_relationship`: the name the resolver knows it under, and its tags (`Some(id)` = a Ref)
#[derive(Clone, Debug, PartialEq)]
pub struct RelRec {
    pub key: Option<String>,
    pub tags: Vec<(String, Option<String>)>,
}
#[derive(Clone, Debug, PartialEq)]
pub struct RelQuery {
    pub subject: usize,
    pub rel: String,
    pub term: Option<String>,
    pub target: Option<String>,
}
impl RelRec {
    pub fn dict(&self) -> Dict {
        let mut d = Dict::new();
        for (k, v) in &self.tags {
            match v {
                Some(r) => d.insert(k.clone(), Value::make_ref(r)),
                None => d.insert(k.clone(), Value::make_marker()),
            };
        }
        d
    }
}
pub fn write_rel(recs: &[RelRec], qs: &[RelQuery], out: &mut Vec<String>) {
    out.push(recs.len().to_string());
    for r in recs {
        out.push(vx::ho(&r.key));
        out.push(r.tags.len().to_string());
        for (k, v) in &r.tags {
            out.push(vx::h(k));
            out.push(vx::ho(v));
        }
    }
    out.push(qs.len().to_string());
    for q in qs {
        out.push(q.subject.to_string());
        out.push(vx::h(&q.rel));
        out.push(vx::ho(&q.term));
        out.push(vx::ho(&q.target));
    }
}
pub fn read_rel(rd: &mut vx::Rd) -> Option<(Vec<RelRec>, Vec<RelQuery>)> {
    let n: usize = rd.num()?;
    let mut recs = Vec::new();
    for _ in 0..n {
        let key = rd.hos()?;
        let k: usize = rd.num()?;
        let mut tags = Vec::new();
        for _ in 0..k {
            let t = rd.hs()?;
            let v = rd.hos()?;
            tags.push((t, v));
        }
        recs.push(RelRec { key, tags });
    }
    let nq: usize = rd.num()?;
    let mut qs = Vec::new();
    for _ in 0..nq {
        qs.push(RelQuery { subject: rd.num()?, rel: rd.hs()?, term: rd.hos()?, target: rd.hos()? });
    }
    Some((recs, qs))
}

/// the last row per def symbol (as `Namespace::make` keeps it), with the model's view of its tags
fn last_rows(rows: &[RowSpec]) -> BTreeMap<String, BTreeMap<String, XTag>> {
    let mut m = BTreeMap::new();
    for r in rows {
        let (n, tags) = r.model_view_x();
        if let Some(n) = n {
            m.insert(n, tags.into_iter().collect::<BTreeMap<_, _>>());
        }
    }
    m
}
fn xt_list<'a>(t: Option<&'a XTag>) -> Option<&'a Vec<Option<String>>> {
    match t {
        Some(XTag::List(l)) => Some(l),
        _ => None,
    }
}
fn show_in_order(v: &[String]) -> String {
    v.iter().map(|s| vx::h(s)).collect::<Vec<_>>().join(",")
}

/// the association names asked of every query symbol
fn assoc_names(rows: &[RowSpec], o: &Oracle) -> Vec<String> {
    let lr = last_rows(rows);
    let mut v: Vec<String> = vec!["is".into(), "tagOn".into(), "tags".into(), "neverMentioned".into()];
    for (n, tags) in &lr {
        if xt_list(tags.get("is")).map_or(false, |l| l.contains(&Some("association".to_string()))) {
            v.push(n.clone());
        }
    }
    // a def that is no association
    if let Some(n) = o.is.keys().find(|n| !v.contains(n)) {
        v.push(n.clone());
    }
    v.sort();
    v.dedup();
    v.truncate(10);
    v
}

#[allow(clippy::too_many_arguments)]
fn run_part2(
    rows: &[RowSpec],
    ns: &'static Namespace<'static>,
    queries: &[String],
    recs: &[RecSpec],
    rel: Option<&(Vec<RelRec>, Vec<RelQuery>)>,
    rebuild: bool,
    out: &mut CaseOut,
) {
    let o = Oracle::new(rows);
    let lr = last_rows(rows);
    let graph = model_graph_tokens_x(rows);
    let sym = |s: &str| Symbol::from(s);
    // ---- indexes -----------------------------------------------------------------------------
    let show_map = |m: Vec<(String, Vec<String>)>, sort_vals: bool| -> String {
        let mut m = m;
        m.sort();
        m.iter()
            .map(|(k, v)| {
                let mut v = v.clone();
                if sort_vals {
                    v.sort();
                }
                format!("{}:{}", vx::h(k), show_in_order(&v))
            })
            .collect::<Vec<_>>()
            .join("/")
    };
    let sorted = |mut v: Vec<String>| -> String {
        v.sort();
        show_in_order(&v)
    };
    let index = format!(
        "cho={}|feat={}|libs={}|fn={}|ton={}|tod={}|conj={}",
        show_map(ns.choices.iter().map(|(k, v)| (k.value.clone(), names_raw(v.iter()))).collect(), true),
        sorted(names_raw(ns.features.iter())),
        sorted(names_raw(ns.libs.iter())),
        sorted(ns.feature_names.clone()),
        sorted(ns.tag_on_names.clone()),
        show_map(ns.tag_on_defs.iter().map(|(k, v)| (k.value.clone(), names_raw(v.iter()))).collect(), false),
        sorted(names_raw(ns.conjuncts.iter())),
    );
    // oracle: the indexes against the rows
    {
        let mut want_ton: BTreeSet<String> = BTreeSet::new();
        for tags in lr.values() {
            if let Some(l) = xt_list(tags.get("tagOn")) {
                want_ton.extend(l.iter().flatten().cloned());
            }
        }
        let got: BTreeSet<String> = ns.tag_on_names.iter().cloned().collect();
        if got != want_ton || got.len() != ns.tag_on_names.len() {
            out.fail("oracle_tag_on_names", format!("tag_on_names {:?}, rows {:?}", ns.tag_on_names, want_ton));
        }
        let want_feat: Vec<String> = lr.keys().filter(|k| k.contains(':')).cloned().collect();
        let mut got_feat = names_raw(ns.features.iter());
        got_feat.sort();
        if got_feat != want_feat {
            out.fail("oracle_features", format!("features {got_feat:?}, rows {want_feat:?}"));
        }
        let want_fn: BTreeSet<String> = want_feat.iter().map(|k| k.split(':').next().unwrap_or("").to_string()).collect();
        let got_fn: BTreeSet<String> = ns.feature_names.iter().cloned().collect();
        if got_fn != want_fn || got_fn.len() != ns.feature_names.len() {
            out.fail("oracle_feature_names", format!("feature_names {:?}, rows {:?}", ns.feature_names, want_fn));
        }
        let mut got_libs = names_raw(ns.libs.iter());
        got_libs.sort();
        if got_libs != o.sub("lib") {
            out.fail("oracle_libs", format!("libs {got_libs:?}, graph {:?}", o.sub("lib")));
        }
        let want_cho: BTreeMap<String, Vec<String>> =
            lr.iter().filter(|(_, t)| xt_list(t.get("is")).map_or(false, |l| l.contains(&Some("choice".to_string())))).map(|(k, _)| (k.clone(), o.sub(k))).collect();
        let got_cho: BTreeMap<String, Vec<String>> = ns
            .choices
            .iter()
            .map(|(k, v)| {
                let mut v = names_raw(v.iter());
                v.sort();
                (k.value.clone(), v)
            })
            .collect();
        if got_cho != want_cho {
            out.fail("oracle_choices_index", format!("choices {got_cho:?}, rows {want_cho:?}"));
        }
        let want_tod: BTreeMap<String, Vec<String>> = lr
            .iter()
            .filter_map(|(k, t)| xt_list(t.get("tagOn")).map(|l| (k.clone(), l.iter().flatten().filter(|s| o.defined(s)).cloned().collect())))
            .collect();
        let got_tod: BTreeMap<String, Vec<String>> = ns.tag_on_defs.iter().map(|(k, v)| (k.value.clone(), names_raw(v.iter()))).collect();
        if got_tod != want_tod {
            out.fail("oracle_tag_on_defs", format!("tag_on_defs {got_tod:?}, rows {want_tod:?}"));
        }
    }
    // ---- associations / implementation / roots per query symbol ------------------------------
    let assocs = assoc_names(rows, &o);
    let mut replies = Vec::new();
    for q in queries {
        let mut parts = Vec::new();
        for a in &assocs {
            let mut got = names_raw(ns.associations(&sym(q), &sym(a)).into_iter());
            got.sort();
            // the statement of `C13.associations_*`: by the rows alone
            let want: Vec<String> = (|| {
                let Some(ad) = lr.get(a) else { return vec![] };
                if !xt_list(ad.get("is")).map_or(false, |l| l.contains(&Some("association".to_string()))) {
                    return vec![];
                }
                if !ad.contains_key("computedFromReciprocal") {
                    let key = a.as_str();
                    let l = if key == "def" { None } else { lr.get(q).and_then(|p| xt_list(p.get(key))) };
                    let mut v: Vec<String> = l.map_or(vec![], |l| l.iter().flatten().filter(|s| o.defined(s)).cloned().collect());
                    v.sort();
                    return v;
                }
                let Some(XTag::Sym(r)) = ad.get("reciprocalOf") else { return vec![] };
                if !o.defined(r) {
                    return vec![];
                }
                let inh = o.inheritance(q);
                let mut v: Vec<String> = lr
                    .iter()
                    .filter(|(_, t)| xt_list(t.get(r.as_str())).map_or(false, |l| l.iter().flatten().any(|s| inh.contains(s))))
                    .map(|(k, _)| k.clone())
                    .collect();
                v.sort();
                v
            })();
            if got != want {
                out.fail("oracle_associations", format!("associations({q:?}, {a:?}): namespace {got:?}, rows {want:?}"));
            }
            if !got.is_empty() {
                out.stat(if lr.get(a).map_or(false, |t| t.contains_key("computedFromReciprocal")) { "assoc_computed_nonempty" } else { "assoc_plain_nonempty" });
            }
            parts.push(format!("{}={}", vx::h(a), show_in_order(&got)));
        }
        // the three named associations are the general one
        for (nm, v) in [("is", ns.is(&sym(q))), ("tagOn", ns.tag_on(&sym(q))), ("tags", ns.tags(&sym(q)))] {
            let mut a = names_raw(v.into_iter());
            a.sort();
            let mut b = names_raw(ns.associations(&sym(q), &sym(nm)).into_iter());
            b.sort();
            if a != b {
                out.fail("oracle_named_association", format!("{nm}({q:?}) = {a:?}, associations = {b:?}"));
            }
        }
        // implementation
        let imp = names_raw(ns.implementation(&sym(q)).into_iter());
        let base: Vec<String> = q.split('-').filter(|p| o.defined(p) && !p.contains(':')).map(|p| p.to_string()).collect();
        let mut sup: BTreeSet<String> = BTreeSet::new();
        for b in &base {
            sup.extend(o.all_sup(b));
        }
        let want_mand: Vec<String> = sup.into_iter().filter(|n| lr.get(n).map_or(false, |t| t.get("mandatory") == Some(&XTag::Marker))).collect();
        let (got_base, got_mand) = if imp.len() >= base.len() { (imp[..base.len()].to_vec(), { let mut m = imp[base.len()..].to_vec(); m.sort(); m }) } else { (imp.clone(), vec![]) };
        if got_base != base || got_mand != want_mand {
            out.fail("oracle_implementation", format!("implementation({q:?}) = {imp:?}, graph: parts {base:?} then mandatory {want_mand:?}"));
        }
        if !want_mand.is_empty() {
            out.stat("implementation_with_mandatory");
        }
        // roots
        let roots = [ns.fits_marker(&sym(q)), ns.fits_val(&sym(q)), ns.fits_choice(&sym(q)), ns.fits_entity(&sym(q))];
        for (i, r) in ["marker", "val", "choice", "entity"].iter().enumerate() {
            if roots[i] != o.fits(q, r) {
                out.fail("oracle_fits_root", format!("fits_{r}({q:?}) = {}, graph {}", roots[i], o.fits(q, r)));
            }
        }
        let bits: String = roots.iter().map(|b| if *b { '1' } else { '0' }).collect();
        parts.push(format!("impl={}+{}", show_in_order(&got_base), show_in_order(&got_mand)));
        parts.push(format!("roots={bits}"));
        replies.push(parts.join("|"));
    }
    {
        let mut t = vec![];
        write_names(queries, &mut t);
        write_names(&assocs, &mut t);
        out.req(format!("C13 assoc {graph} {}", t.join(" ")), format!("ok {index}#{}", replies.join(";")));
    }
    // ---- entity type ---------------------------------------------------------------------------
    if !recs.is_empty() {
        let mut dicts: Vec<&Dict> = ns.defs.values().collect();
        dicts.sort();
        let order: Vec<String> = dicts.iter().map(|d| d.def_name().clone()).collect();
        let mut ereplies = Vec::new();
        for r in recs {
            let d = rec_dict(r);
            let et = ns.reflect(&d).entity_type; // = `def_of_dict`, whose signature wants a record that outlives the namespace
            let got: Option<String> = if et.is_empty() { None } else { Some(et.def_name().clone()) };
            // the most specific reflected entity def(s)
            let refl = o.reflect(r);
            let ents: Vec<&String> = refl.iter().filter(|n| o.defined("entity") && o.inheritance(n).contains("entity")).collect();
            let cands: Vec<&String> =
                if ents.len() == 1 { ents.clone() } else { ents.iter().filter(|d| !ents.iter().any(|e| e != *d && o.inheritance(e).contains(**d))).cloned().collect() };
            let ok = match &got {
                None => cands.is_empty(),
                Some(g) => cands.contains(&g),
            };
            if !ok {
                out.fail("oracle_entity_type", format!("record {r:?}: entity type {got:?}, most specific reflected entity defs {cands:?}"));
            }
            if got.is_some() {
                out.stat("entity_type_found");
            }
            if ents.len() > 1 {
                out.stat("entity_type_among_several");
            }
            ereplies.push(vx::ho(&got));
        }
        let mut t = vec![];
        write_names(&order, &mut t);
        write_recs(recs, &mut t);
        out.req(format!("C13 ent {graph} {}", t.join(" ")), format!("ok {}", ereplies.join(";")));
    }
    // ---- has_relationship ------------------------------------------------------------------------
    if let Some((rrecs, rqs)) = rel {
        if !rqs.is_empty() {
            let dicts: Vec<Dict> = rrecs.iter().map(|r| r.dict()).collect();
            let resolve = |r: &Ref| -> Option<Dict> { rrecs.iter().position(|x| x.key.as_deref() == Some(r.value.as_str())).map(|i| dicts[i].clone()) };
            let mut rreplies = Vec::new();
            for q in rqs {
                let subject = &dicts[q.subject.min(dicts.len().saturating_sub(1))];
                let got = ns.has_relationship(subject, &sym(&q.rel), &q.term.as_deref().map(sym), &q.target.as_deref().map(Ref::from), &resolve);
                if got {
                    out.stat("relationship_holds");
                }
                if rebuild {
                    // the same question as the FIRST question to a namespace of its own: what a relationship query
                    // answers does not depend on the queries before it
                    let fresh = build_ns(rows);
                    let alone = fresh.has_relationship(subject, &sym(&q.rel), &q.term.as_deref().map(sym), &q.target.as_deref().map(Ref::from), &resolve);
                    unsafe { free_ns(fresh) };
                    if alone != got {
                        out.fail(
                            "history_dependent",
                            format!("has_relationship(record {}, {:?}, term {:?}, target {:?}) = {got} after the queries before it, {alone} on a fresh namespace", q.subject, q.rel, q.term, q.target),
                        );
                    }
                }
                if q.rel == "containedBy" && q.target.as_deref() == Some("t") && rrecs.len() == 3 && rrecs[0].tags.len() == 3 {
                    out.stat(&format!("first_tag_wins:subject{}={}", q.subject, got as u8));
                }
                if q.target.is_some() && lr.get(&q.rel).map_or(false, |t| t.get("transitive") == Some(&XTag::Marker)) {
                    out.stat("relationship_transitive_with_target");
                }
                rreplies.push(if got { "1" } else { "0" }.to_string());
            }
            if rebuild {
                // the records CHANGE (every Ref now points at the next record: an equip moved to another site) and the
                // same namespace is asked again: its answers are those of a fresh namespace given the new records
                let rot = |r: &str| -> String {
                    match r.strip_prefix('r').and_then(|n| n.parse::<usize>().ok()) {
                        Some(n) => format!("r{}", (n + 1) % 6),
                        None => r.to_string(),
                    }
                };
                let moved: Vec<RelRec> = rrecs
                    .iter()
                    .map(|r| RelRec { key: r.key.clone(), tags: r.tags.iter().map(|(k, v)| (k.clone(), if k == "id" { v.clone() } else { v.as_deref().map(rot) })).collect() })
                    .collect();
                let dicts2: Vec<Dict> = moved.iter().map(|r| r.dict()).collect();
                let resolve2 = |r: &Ref| -> Option<Dict> { moved.iter().position(|x| x.key.as_deref() == Some(r.value.as_str())).map(|i| dicts2[i].clone()) };
                let fresh = build_ns(rows);
                // ... and a second move: only the ODD records change, so the subjects of the even ones keep their refs
                // while the records those refs lead to are different now
                let moved_odd: Vec<RelRec> = rrecs
                    .iter()
                    .enumerate()
                    .map(|(i, r)| if i % 2 == 1 { moved[i].clone() } else { r.clone() })
                    .collect();
                let dicts3: Vec<Dict> = moved_odd.iter().map(|r| r.dict()).collect();
                let resolve3 = |r: &Ref| -> Option<Dict> { moved_odd.iter().position(|x| x.key.as_deref() == Some(r.value.as_str())).map(|i| dicts3[i].clone()) };
                for q in rqs {
                    let subject = &dicts3[q.subject.min(dicts3.len().saturating_sub(1))];
                    let args = (sym(&q.rel), q.term.as_deref().map(sym), q.target.as_deref().map(Ref::from));
                    let again = ns.has_relationship(subject, &args.0, &args.1, &args.2, &resolve3);
                    let alone = fresh.has_relationship(subject, &args.0, &args.1, &args.2, &resolve3);
                    if again != alone {
                        out.fail(
                            "history_dependent",
                            format!("after some records changed, has_relationship(record {}, {:?}, term {:?}, target {:?}) = {again} on the namespace that answered for the old records, {alone} on a fresh one", q.subject, q.rel, q.term, q.target),
                        );
                    }
                }
                for q in rqs {
                    let subject = &dicts2[q.subject.min(dicts2.len().saturating_sub(1))];
                    let args = (sym(&q.rel), q.term.as_deref().map(sym), q.target.as_deref().map(Ref::from));
                    let again = ns.has_relationship(subject, &args.0, &args.1, &args.2, &resolve2);
                    let alone = fresh.has_relationship(subject, &args.0, &args.1, &args.2, &resolve2);
                    if again != alone {
                        out.fail(
                            "history_dependent",
                            format!("after the records changed, has_relationship(record {}, {:?}, term {:?}, target {:?}) = {again} on the namespace that answered for the old records, {alone} on a fresh one", q.subject, q.rel, q.term, q.target),
                        );
                    }
                }
                unsafe { free_ns(fresh) };
                out.stat("relationship_records_moved");
            }
            // the model's records: every tag in key order, `id` included; a Ref value by its id
            let mut t = vec![rrecs.len().to_string()];
            for (r, d) in rrecs.iter().zip(&dicts) {
                t.push(vx::ho(&r.key));
                t.push(match d.get_ref("id") {
                    Some(r) => vx::h(&r.value),
                    None => "-".into(),
                });
                t.push(d.len().to_string());
                for (k, v) in d.iter() {
                    t.push(vx::h(k));
                    t.push(match v {
                        Value::Ref(r) => vx::h(&r.value),
                        _ => "-".into(),
                    });
                }
            }
            t.push(rqs.len().to_string());
            for q in rqs {
                t.push(q.subject.min(dicts.len().saturating_sub(1)).to_string());
                t.push(vx::h(&q.rel));
                t.push(vx::ho(&q.term));
                t.push(vx::ho(&q.target));
            }
            out.req(format!("C13 rel {graph} {}", t.join(" ")), format!("ok {}", rreplies.join(";")));
        }
    }
}

/// def names in the order given (no sorting)
fn names_raw<'x, I: Iterator<Item = &'x Dict>>(it: I) -> Vec<String> {
    it.map(|d| d.def_name().clone()).collect()
}

// ------------------------------------------------------------------------------------------------
// generators
// ------------------------------------------------------------------------------------------------
const WORDS: &[&str] = &[
    "marker", "entity", "equip", "ahu", "site", "point", "hot", "water", "air", "temp", "sensor", "lib", "filetype",
    "phenomenon", "substance", "val", "zone", "elec", "meter", "chilled", "plant", "space", "cool", "heat", "fan",
    "valve", "cmd", "sp", "tüv", "x", "a1", "b_2", "relationship", "association",
];
const UNDEF: &[&str] = &["u0", "u1", "undefinedThing", "u-v", "ghost:key"];
/// names that never get a def: the parts without a def of generated conjuncts
const NODEF_PARTS: &[&str] = &["u0", "u1", "undefinedThing", "nodef", "rooftop"];

pub struct GenGraph {
    pub rows: Vec<RowSpec>,
    /// defined names in rank order (every `is` item of a def is of lower rank or never defined)
    pub defined: Vec<String>,
}

/// random ACYCLIC taxonomy (`gen_cyclic_graph` adds back edges to one): defs are created in rank order and only list lower ranks (or never-defined
/// names), so every row - duplicates included - respects one topological numbering.
pub fn gen_graph(rng: &mut Rng, max_defs: u64) -> GenGraph {
    loop {
        let g = gen_graph_once(rng, max_defs);
        // keep the path count moderate (a traversal that re-expanded a def once per path would take that long;
        // the repaired one does not, see the `cyc:ladder40` case - the bound is kept for C14's schedules)
        if Oracle::new(&g.rows).cost(1 << 40) < 150_000 {
            return g;
        }
    }
}

fn gen_graph_once(rng: &mut Rng, max_defs: u64) -> GenGraph {
    let n = 1 + rng.below(max_defs) as usize;
    let mut defined: Vec<String> = Vec::new();
    let mut rows: Vec<RowSpec> = Vec::new();
    let choice_defined = rng.chance(1, 2);
    if choice_defined {
        defined.push("choice".into());
        rows.push(RowSpec::plain("choice", if rng.chance(1, 2) { vec![] } else { vec![Some("u0".into())] }));
    }
    let mut fresh = 0;
    let pick_sups = |rng: &mut Rng, upto: usize, defined: &Vec<String>, allow_choice: bool| -> Vec<Option<String>> {
        let k = *rng.pick(&[0u64, 1, 1, 1, 1, 2, 2, 2, 3, 4]);
        let mut items: Vec<Option<String>> = Vec::new();
        for _ in 0..k {
            if upto == 0 {
                break;
            }
            // bias towards recent defs (deep chains) and towards the roots (wide diamonds)
            let j = match rng.below(3) {
                0 => upto - 1 - (rng.below(upto.min(3) as u64) as usize),
                1 => rng.below(upto.min(3) as u64) as usize,
                _ => rng.below(upto as u64) as usize,
            };
            items.push(Some(defined[j].clone()));
        }
        if rng.chance(15, 100) {
            items.push(Some(rng.pick(UNDEF).to_string()));
        }
        if rng.chance(8, 100) {
            let at = rng.below(items.len() as u64 + 1) as usize;
            items.insert(at, None);
        }
        if !items.is_empty() && rng.chance(6, 100) {
            let dup = items[rng.below(items.len() as u64) as usize].clone();
            items.push(dup);
        }
        if allow_choice && rng.chance(10, 100) {
            items.push(Some("choice".into()));
        }
        items
    };
    for _ in 0..n {
        let plain: Vec<String> = defined.iter().filter(|d| !d.contains('-') && !d.contains(':')).cloned().collect();
        let kind = rng.below(100);
        let name = if kind < 14 && plain.len() >= 2 {
            // conjunct of 2-3 parts.  Of ten: five have defined parts only, two have ONE part (first, middle or
            // last) without a def, one has NO part with a def, one has a repeated part (`a-a`, `a-b-a`), one is
            // degenerate (an empty part: `a-`, `-a`, `a--b`)
            let k = 2 + rng.below(2) as usize;
            let mut parts: Vec<String> = (0..k).map(|_| rng.pick(&plain).clone()).collect();
            match rng.below(10) {
                0 | 1 => {
                    let at = rng.below(k as u64) as usize;
                    parts[at] = rng.pick(NODEF_PARTS).to_string();
                }
                2 => {
                    for p in parts.iter_mut() {
                        *p = rng.pick(NODEF_PARTS).to_string();
                    }
                }
                3 => {
                    let from = rng.below(k as u64) as usize;
                    let to = (from + 1 + rng.below(k as u64 - 1) as usize) % k;
                    parts[to] = parts[from].clone();
                }
                4 => {
                    let at = rng.below(k as u64) as usize;
                    parts[at] = String::new();
                }
                _ => {}
            }
            parts.join("-")
        } else if kind < 24 {
            let f = *rng.pick(&["lib", "filetype", "unit", "ghost"]);
            format!("{f}:{}", rng.pick(WORDS))
        } else if kind < 80 {
            rng.pick(WORDS).to_string()
        } else {
            fresh += 1;
            format!("t{fresh}{}", if rng.chance(1, 3) { "Tag" } else { "" })
        };
        if defined.contains(&name) || name == "choice" || UNDEF.contains(&name.as_str()) {
            continue;
        }
        let upto = defined.len();
        let items = pick_sups(rng, upto, &defined, true);
        let is = match rng.below(100) {
            0..=4 => IsTag::Absent,
            5..=8 => IsTag::Single(if upto > 0 { defined[rng.below(upto as u64) as usize].clone() } else { "u0".into() }),
            _ => IsTag::List(items),
        };
        rows.push(RowSpec { def: DefTag::Sym(name.clone()), is, extra: vec![] });
        defined.push(name);
    }
    // duplicate rows (BTreeMap: the last one wins) - each respects the rank of its name
    let ndup = rng.below(3);
    for _ in 0..ndup {
        if defined.is_empty() {
            break;
        }
        let j = rng.below(defined.len() as u64) as usize;
        let items = pick_sups(rng, j, &defined, defined[j] != "choice");
        rows.push(RowSpec { def: DefTag::Sym(defined[j].clone()), is: IsTag::List(items), extra: vec![] });
    }
    // rows that make() drops
    if rng.chance(1, 4) {
        rows.push(RowSpec { def: DefTag::Absent, is: IsTag::List(vec![Some("marker".into())]), extra: vec![] });
    }
    if rng.chance(1, 4) {
        rows.push(RowSpec { def: DefTag::Other("strDef".into()), is: IsTag::List(vec![Some("entity".into())]), extra: vec![] });
    }
    // shuffle (Fisher-Yates)
    for i in (1..rows.len()).rev() {
        let j = rng.below(i as u64 + 1) as usize;
        rows.swap(i, j);
    }
    GenGraph { rows, defined }
}

/// random graph WITH back edges: an acyclic taxonomy of `gen_graph_once` plus extra `is` items that point
/// anywhere (upwards, sideways, at the def itself).  `mode`: 0 a few random extra edges, 1 self loops,
/// 2 a root lists the youngest def (one big cycle through the longest chains), 3 an extra random item in
/// (nearly) every list (dense: many overlapping cycles and diamonds).  Most results are cyclic; whether a
/// given one is cyclic is counted in `exec` (`cyclic_graph`).
pub fn gen_cyclic_graph(rng: &mut Rng, max_defs: u64, mode: u64) -> GenGraph {
    let mut g = gen_graph_once(rng, max_defs);
    if g.defined.is_empty() {
        return g;
    }
    let add = |g: &mut GenGraph, from: &str, to: &str| {
        // every row of that def symbol (the last one wins in `make`) gets the item
        for r in g.rows.iter_mut() {
            if matches!(&r.def, DefTag::Sym(n) if n == from) {
                match &mut r.is {
                    IsTag::List(l) => l.push(Some(to.to_string())),
                    IsTag::Absent => r.is = IsTag::List(vec![Some(to.to_string())]),
                    IsTag::Single(_) => {}
                }
            }
        }
    };
    let n = g.defined.len() as u64;
    match mode {
        0 => {
            for _ in 0..1 + rng.below(4) {
                let a = g.defined[rng.below(n) as usize].clone();
                let b = g.defined[rng.below(n) as usize].clone();
                add(&mut g, &a, &b);
            }
        }
        1 => {
            for _ in 0..1 + rng.below(3) {
                let a = g.defined[rng.below(n) as usize].clone();
                add(&mut g, &a, &a);
            }
        }
        2 => {
            let first = g.defined[rng.below(n.min(3)) as usize].clone();
            let last = g.defined[(n - 1 - rng.below(n.min(3))) as usize].clone();
            add(&mut g, &first, &last);
        }
        _ => {
            for a in g.defined.clone() {
                if rng.chance(4, 5) {
                    let b = g.defined[rng.below(n) as usize].clone();
                    add(&mut g, &a, &b);
                }
            }
        }
    }
    g
}

/// records over defined and undefined tag names; half of them aim at a conjunct def: every part of it is, by the
/// record's mode, a Marker tag / a tag with another value / absent - all parts Markers (5 of 12), one part
/// absent, one part not a Marker, the parts WITHOUT a def absent, the parts without a def not Markers, the parts
/// WITH a def absent, the parts with a def not Markers, every part at random
pub fn gen_records(rng: &mut Rng, o: &Oracle, n: u64) -> Vec<RecSpec> {
    let defined: Vec<String> = o.is.keys().cloned().collect();
    let conj: Vec<String> = defined.iter().filter(|d| d.contains('-')).cloned().collect();
    let mut recs = Vec::new();
    for _ in 0..n {
        let mut r: BTreeMap<String, bool> = BTreeMap::new();
        if !conj.is_empty() && rng.chance(1, 2) {
            let c = rng.pick(&conj).clone();
            let parts: Vec<&str> = c.split('-').collect();
            let mode = rng.below(12);
            let victim = rng.below(parts.len() as u64) as usize;
            for (i, p) in parts.iter().enumerate() {
                // 0 = Marker tag, 1 = tag with another value, 2 = no such tag
                let state = match mode {
                    0..=4 => 0,
                    5 => if i == victim { 2 } else { 0 },
                    6 => if i == victim { 1 } else { 0 },
                    7 => if o.defined(p) { 0 } else { 2 },
                    8 => if o.defined(p) { 0 } else { 1 },
                    9 => if o.defined(p) { 2 } else { 0 },
                    10 => if o.defined(p) { 1 } else { 0 },
                    _ => rng.below(3),
                };
                match state {
                    0 => {
                        // a repeated part keeps its first state
                        r.entry(p.to_string()).or_insert(true);
                    }
                    1 => {
                        r.entry(p.to_string()).or_insert(false);
                    }
                    _ => {}
                }
            }
        }
        let k = rng.below(5);
        for _ in 0..k {
            let name = match rng.below(10) {
                0..=5 if !defined.is_empty() => rng.pick(&defined).clone(),
                6..=7 => rng.pick(UNDEF).to_string(),
                _ => rng.pick(WORDS).to_string(),
            };
            r.entry(name).or_insert(rng.chance(3, 4));
        }
        recs.push(r.into_iter().collect());
    }
    recs
}

fn mentioned(o: &Oracle) -> Vec<String> {
    let mut s: BTreeSet<String> = o.is.keys().cloned().collect();
    s.extend(o.subs.keys().cloned());
    s.into_iter().collect()
}

pub fn generate(ctx: &mut Ctx) {
    let mut rng = ctx.rng.fork();
    // hand-made shapes first: empty grid, single def, diamond, chain, undefined-only supertypes
    let fixed: Vec<Vec<RowSpec>> = vec![
        vec![],
        vec![RowSpec::plain("a", vec![])],
        vec![
            RowSpec::plain("m", vec![]),
            RowSpec::plain("a", vec![Some("m".into())]),
            RowSpec::plain("b", vec![Some("m".into()), Some("zz".into()), None]),
            RowSpec::plain("d", vec![Some("a".into()), Some("b".into())]),
            RowSpec::plain("a-b", vec![Some("d".into())]),
        ],
        (0..12).map(|i| RowSpec::plain(&format!("c{i}"), if i == 0 { vec![] } else { vec![Some(format!("c{}", i - 1))] })).collect(),
        vec![RowSpec::plain("x", vec![Some("nowhere".into())]), RowSpec::plain("y", vec![Some("nowhere".into()), Some("x".into())])],
        // a ladder of diamonds: 2^6 paths from top to bottom
        (0..14)
            .map(|i| {
                let lvl = i / 2;
                RowSpec::plain(
                    &format!("l{}{}", lvl, if i % 2 == 0 { "a" } else { "b" }),
                    if lvl == 0 { vec![] } else { vec![Some(format!("l{}a", lvl - 1)), Some(format!("l{}b", lvl - 1))] },
                )
            })
            .collect(),
    ];
    // OBSERVATION (outside every property's statement, recorded in DESIGN 9.6): the walk of a transitive relationship
    // follows the FIRST tag whose Ref can be resolved and never comes back for the other tags of the record it left.
    // `s = {id:@s, aRef:@a, bRef:@t}`, `a = {id:@a}`, `containedBy` transitive, both ref tags declare it:
    // `containedBy? @t` is false although `bRef` holds @t itself - and true once `aRef` is taken away.
    {
        let some = |s: &str| Some(s.to_string());
        let mut cb = RowSpec::plain("containedBy", vec![some("relationship")]);
        cb.extra = vec![("transitive".into(), ExtraV::Marker)];
        let mut a_ref = RowSpec::plain("aRef", vec![]);
        a_ref.extra = vec![("containedBy".into(), ExtraV::sym("x"))];
        let mut b_ref = RowSpec::plain("bRef", vec![]);
        b_ref.extra = vec![("containedBy".into(), ExtraV::sym("x"))];
        let rows = vec![RowSpec::plain("relationship", vec![]), RowSpec::plain("x", vec![]), cb, a_ref, b_ref];
        let recs = vec![
            RelRec { key: some("s"), tags: vec![("aRef".into(), some("a")), ("bRef".into(), some("t")), ("id".into(), some("s"))] },
            RelRec { key: some("a"), tags: vec![("id".into(), some("a"))] },
            RelRec { key: some("s2"), tags: vec![("bRef".into(), some("t")), ("id".into(), some("s2"))] },
        ];
        let qs = vec![
            RelQuery { subject: 0, rel: "containedBy".into(), term: None, target: some("t") },
            RelQuery { subject: 2, rel: "containedBy".into(), term: None, target: some("t") },
            RelQuery { subject: 0, rel: "containedBy".into(), term: some("x"), target: some("a") },
        ];
        let mut t = vec!["g".to_string()];
        write_rows(&rows, &mut t);
        t.push("q".into());
        write_names(&["containedBy".to_string()], &mut t);
        t.push("r".into());
        write_recs(&[], &mut t);
        t.push("b".into());
        write_names(&[], &mut t);
        t.push("x".into());
        write_rel(&recs, &qs, &mut t);
        ctx.case("rel:first_tag_wins", &t.join(" "));
    }
    for (i, rows) in fixed.iter().enumerate() {
        emit_graph_case(ctx, &mut rng, &format!("fixed:{i}"), rows);
    }
    // ---- conjunct defs whose parts have no def (0, 1, all of them), repeated parts, empty parts -----------
    // every record of a case is built from three states per tag: Marker / another value / absent
    let conj_cases: Vec<(&str, Vec<RowSpec>, Vec<&str>)> = vec![
        // the repaired defect: `ahu-rooftop` with no def `rooftop` (also with the undefined part first, and no
        // defined part at all)
        (
            "ahu_rooftop",
            vec![RowSpec::plain("marker", vec![]), RowSpec::plain("ahu", vec![Some("marker".into())]), RowSpec::plain("ahu-rooftop", vec![Some("ahu".into())])],
            vec!["ahu", "rooftop"],
        ),
        (
            "undefined_first",
            vec![RowSpec::plain("marker", vec![]), RowSpec::plain("ahu", vec![Some("marker".into())]), RowSpec::plain("rooftop-ahu", vec![Some("ahu".into())])],
            vec!["ahu", "rooftop"],
        ),
        ("undefined_all", vec![RowSpec::plain("marker", vec![]), RowSpec::plain("u-v", vec![Some("marker".into())])], vec!["u", "v"]),
        ("defined_all", vec![RowSpec::plain("a", vec![]), RowSpec::plain("b", vec![]), RowSpec::plain("a-b", vec![Some("b".into())])], vec!["a", "b"]),
        (
            "three_parts",
            vec![
                RowSpec::plain("b", vec![]),
                RowSpec::plain("c", vec![]),
                RowSpec::plain("b-a-c", vec![Some("b".into())]),
                RowSpec::plain("a-b-c", vec![Some("c".into())]),
                RowSpec::plain("b-c-a", vec![Some("b".into())]),
                RowSpec::plain("x-y-a", vec![]),
            ],
            vec!["a", "b", "c"],
        ),
        // two conjuncts sharing the first part, a conjunct that extends another
        (
            "shared_first",
            vec![RowSpec::plain("a", vec![]), RowSpec::plain("a-b", vec![]), RowSpec::plain("a-c", vec![Some("a".into())]), RowSpec::plain("a-b-c", vec![Some("a-b".into())])],
            vec!["a", "b", "c"],
        ),
        // repeated parts
        ("repeated", vec![RowSpec::plain("a", vec![]), RowSpec::plain("a-a", vec![]), RowSpec::plain("a-b-a", vec![]), RowSpec::plain("u-u", vec![])], vec!["a", "b", "u"]),
        // empty parts: the record needs a tag with the empty name
        (
            "empty_parts",
            vec![RowSpec::plain("a", vec![]), RowSpec::plain("a-", vec![]), RowSpec::plain("-b", vec![]), RowSpec::plain("a--b", vec![]), RowSpec::plain("-", vec![]), RowSpec::plain("--", vec![])],
            vec!["a", "b", ""],
        ),
        // the conjunct's own name as a tag of the record (first clause of the statement), parts absent
        ("name_as_tag", vec![RowSpec::plain("a", vec![]), RowSpec::plain("a-b", vec![Some("a".into())])], vec!["a-b", "a", "b"]),
    ];
    for (name, rows, tags) in &conj_cases {
        let o = Oracle::new(rows);
        let mut names: Vec<String> = mentioned(&o);
        names.extend(tags.iter().map(|t| t.to_string()));
        names.sort();
        names.dedup();
        // all 3^k records over the tags
        let k = tags.len() as u32;
        let mut recs: Vec<RecSpec> = Vec::new();
        for code in 0..3u32.pow(k) {
            let mut r: BTreeMap<String, bool> = BTreeMap::new();
            let mut c = code;
            for t in tags.iter() {
                match c % 3 {
                    0 => {}
                    1 => {
                        r.insert(t.to_string(), true);
                    }
                    _ => {
                        r.insert(t.to_string(), false);
                    }
                }
                c /= 3;
            }
            recs.push(r.into_iter().collect());
        }
        let mut t = vec!["g".to_string()];
        write_rows(rows, &mut t);
        t.push("q".into());
        write_names(&names, &mut t);
        t.push("r".into());
        write_recs(&recs, &mut t);
        t.push("b".into());
        write_names(&names, &mut t);
        ctx.case(&format!("conj:{name}"), &t.join(" "));
    }
    // ---- cyclic `is` graphs (in scope since the traversals expand a def once) -------------------
    let sy = |s: &str| Some(s.to_string());
    let cyclic: Vec<(&str, Vec<RowSpec>)> = vec![
        ("self", vec![RowSpec::plain("a", vec![sy("a")])]),
        ("self_exit", vec![RowSpec::plain("a", vec![sy("a"), sy("m"), sy("a")]), RowSpec::plain("m", vec![])]),
        ("two", vec![RowSpec::plain("aa", vec![sy("bb")]), RowSpec::plain("bb", vec![sy("aa")])]),
        ("three", vec![RowSpec::plain("a", vec![sy("b")]), RowSpec::plain("b", vec![sy("c")]), RowSpec::plain("c", vec![sy("a")])]),
        ("ring12", (0..12).map(|i| RowSpec::plain(&format!("c{i}"), vec![Some(format!("c{}", (i + 1) % 12))])).collect()),
        // a tail of two defs into a 2-cycle with an exit and an undefined supertype
        (
            "tail",
            vec![
                RowSpec::plain("t2", vec![sy("t1")]),
                RowSpec::plain("t1", vec![sy("a")]),
                RowSpec::plain("a", vec![sy("b")]),
                RowSpec::plain("b", vec![sy("a"), sy("m"), sy("zz")]),
                RowSpec::plain("m", vec![]),
            ],
        ),
        // the theorem file's example: tail t, diamond a -> b|c -> d closing the cycle d -> a, exit m, undefined zz,
        // self loop s, conjunct b-c leading into the tail
        (
            "tail_diamond",
            vec![
                RowSpec::plain("t", vec![sy("a")]),
                RowSpec::plain("a", vec![sy("b"), sy("c")]),
                RowSpec::plain("b", vec![sy("d")]),
                RowSpec::plain("c", vec![sy("d"), None]),
                RowSpec::plain("d", vec![sy("a"), sy("m"), sy("zz")]),
                RowSpec::plain("m", vec![]),
                RowSpec::plain("s", vec![sy("s"), sy("m")]),
                RowSpec::plain("b-c", vec![sy("t")]),
            ],
        ),
        // a cycle x <-> y between the waist and the foot of a diamond
        (
            "cycle_in_diamond",
            vec![
                RowSpec::plain("top", vec![sy("l"), sy("r")]),
                RowSpec::plain("l", vec![sy("x")]),
                RowSpec::plain("r", vec![sy("x")]),
                RowSpec::plain("x", vec![sy("y")]),
                RowSpec::plain("y", vec![sy("x"), sy("bot")]),
                RowSpec::plain("bot", vec![]),
            ],
        ),
        ("eight", vec![RowSpec::plain("a", vec![sy("b")]), RowSpec::plain("b", vec![sy("a"), sy("c")]), RowSpec::plain("c", vec![sy("b")])]),
        // two separate cycles hanging under one undefined symbol
        (
            "two_cycles",
            vec![
                RowSpec::plain("a", vec![sy("b"), sy("zz")]),
                RowSpec::plain("b", vec![sy("a")]),
                RowSpec::plain("c", vec![sy("d")]),
                RowSpec::plain("d", vec![sy("c"), sy("zz")]),
            ],
        ),
        // every def lists every def (itself included)
        ("complete6", (0..6).map(|i| RowSpec::plain(&format!("k{i}"), (0..6).map(|j| Some(format!("k{j}"))).collect())).collect()),
        // the last row of a def symbol wins: the cycle is there / is gone
        ("dup_makes_cycle", vec![RowSpec::plain("a", vec![]), RowSpec::plain("b", vec![sy("a")]), RowSpec::plain("a", vec![sy("b")])]),
        ("dup_breaks_cycle", vec![RowSpec::plain("a", vec![sy("b")]), RowSpec::plain("b", vec![sy("a")]), RowSpec::plain("a", vec![sy("m")]), RowSpec::plain("m", vec![])]),
        // a cycle through a conjunct def and one of its parts, and through `choice`
        ("conjunct_cycle", vec![RowSpec::plain("a-b", vec![sy("a")]), RowSpec::plain("a", vec![sy("a-b")]), RowSpec::plain("b", vec![])]),
        ("choice_cycle", vec![RowSpec::plain("choice", vec![sy("x")]), RowSpec::plain("x", vec![sy("choice")]), RowSpec::plain("y", vec![sy("x"), sy("choice")])]),
        // many diamonds, no cycle: 2^40 paths from top to bottom (a traversal that re-expands a def once per
        // path does not come back from this one either)
        (
            "ladder40",
            (0..80)
                .map(|i| {
                    let lvl = i / 2;
                    RowSpec::plain(
                        &format!("l{}{}", lvl, if i % 2 == 0 { "a" } else { "b" }),
                        if lvl == 0 { vec![] } else { vec![Some(format!("l{}a", lvl - 1)), Some(format!("l{}b", lvl - 1))] },
                    )
                })
                .collect(),
        ),
    ];
    for (name, rows) in &cyclic {
        emit_graph_case(ctx, &mut rng, &format!("cyc:{name}"), rows);
    }
    let nc = ctx.n(120, 2000);
    for i in 0..nc {
        let size = if i % 10 == 9 { 60 } else { 22 };
        let g = gen_cyclic_graph(&mut rng, size, i % 4);
        emit_graph_case(ctx, &mut rng, &format!("cycrand:{i}"), &g.rows);
    }
    let n = ctx.n(220, 3000);
    for i in 0..n {
        let size = if i % 10 == 9 { 60 } else { 26 };
        let g = gen_graph(&mut rng, size);
        emit_graph_case(ctx, &mut rng, &format!("rand:{i}"), &g.rows);
    }
    // the real Project Haystack database
    let total = zinc_db().symbols.len();
    if ctx.quick() {
        // a sample slice of symbols (against ALL symbols) and some records
        let lo = rng.below(total as u64 - 40) as usize;
        ctx.case("zinc:sample", &format!("zinc {lo} {} 6 {}", lo + 40, rng.next() % 100000));
    } else {
        let step = 50;
        let mut lo = 0;
        while lo < total {
            let hi = (lo + step).min(total);
            ctx.case(&format!("zinc:{lo}"), &format!("zinc {lo} {hi} 8 {}", rng.next() % 100000));
            lo = hi;
        }
    }
    // part 3: children prototypes on acyclic taxonomies (several seeds per graph)
    let mut prng = Rng::new(rng.next());
    let n = ctx.n(160, 2500);
    for i in 0..n {
        let g = gen_graph(&mut prng, if i % 7 == 6 { 30 } else { 10 });
        let mut t = vec!["p".to_string(), (prng.next() % 1_000_000).to_string(), "g".to_string()];
        write_rows(&g.rows, &mut t);
        ctx.case(&format!("protos:{i}"), &t.join(" "));
    }
}

fn emit_graph_case(ctx: &mut Ctx, rng: &mut Rng, label: &str, rows: &[RowSpec]) {
    let mut rows: Vec<RowSpec> = rows.to_vec();
    if rng.chance(4, 5) {
        add_assoc_rows(rng, &mut rows);
    }
    let rows: &[RowSpec] = &rows;
    let o = Oracle::new(rows);
    let mut queries = mentioned(&o);
    queries.push("neverMentioned".into());
    if rng.chance(1, 2) {
        queries.push(rng.pick(WORDS).to_string());
    }
    queries.sort();
    queries.dedup();
    let recs = gen_records(rng, &o, 4);
    let mut bases = queries.clone();
    if bases.len() > 14 {
        // keep the reflection part small: a random subset
        let mut b = Vec::new();
        for _ in 0..14 {
            b.push(rng.pick(&bases).clone());
        }
        b.sort();
        b.dedup();
        bases = b;
    }
    let mut t = vec!["g".to_string()];
    write_rows(rows, &mut t);
    t.push("q".into());
    write_names(&queries, &mut t);
    t.push("r".into());
    write_recs(&recs, &mut t);
    t.push("b".into());
    write_names(&bases, &mut t);
    let (rrecs, rqs) = gen_rel(rng, rows, false);
    t.push("x".into());
    write_rel(&rrecs, &rqs, &mut t);
    ctx.case(label, &t.join(" "));
}

/// association / relationship structure on top of a generated taxonomy: the standard-library shapes (`tagOn`
/// plain, `tags` computed from it) and their malformed variants, `tagOn` / `mandatory` / custom association tags
/// on existing defs, relationship defs (transitive, reciprocal) and ref-tag defs that carry them
pub fn add_assoc_rows(rng: &mut Rng, rows: &mut Vec<RowSpec>) {
    let defined: Vec<String> = rows.iter().filter_map(|r| match &r.def { DefTag::Sym(s) => Some(s.clone()), _ => None }).collect();
    let has = |rows: &Vec<RowSpec>, n: &str| rows.iter().any(|r| matches!(&r.def, DefTag::Sym(s) if s == n));
    let some = |s: &str| Some(s.to_string());
    let pick = |rng: &mut Rng| -> String {
        match rng.below(10) {
            0 => rng.pick(UNDEF).to_string(),
            _ if !defined.is_empty() => rng.pick(&defined).clone(),
            _ => "marker".into(),
        }
    };
    let pick_list = |rng: &mut Rng| -> Vec<Option<String>> {
        (0..1 + rng.below(3)).map(|_| if rng.chance(1, 8) { None } else { Some(pick(rng)) }).collect()
    };
    // tags on existing defs
    for r in rows.iter_mut() {
        if !matches!(r.def, DefTag::Sym(_)) {
            continue;
        }
        if rng.chance(1, 3) {
            r.extra.push(("tagOn".into(), if rng.chance(1, 10) { ExtraV::Sym(pick(rng)) } else { ExtraV::List(pick_list(rng)) }));
        }
        if rng.chance(1, 6) {
            r.extra.push(("mandatory".into(), if rng.chance(1, 8) { ExtraV::Other } else { ExtraV::Marker }));
        }
        if rng.chance(1, 5) {
            r.extra.push(("myAssoc".into(), match rng.below(8) { 0 => ExtraV::Marker, 1 => ExtraV::Sym(pick(rng)), _ => ExtraV::List(pick_list(rng)) }));
        }
        if rng.chance(1, 8) {
            r.extra.push(("fakeAssoc".into(), ExtraV::List(pick_list(rng))));
        }
    }
    // some defs are entities (directly, so that their subtypes are too): records then reflect one or several entity
    // defs and `compute_entity_type` has a choice to make
    {
        let n = rows.len();
        for _ in 0..3 {
            if n == 0 {
                break;
            }
            let i = rng.below(n as u64) as usize;
            let row = &mut rows[i];
            if !matches!(row.def, DefTag::Sym(_)) {
                continue;
            }
            if let IsTag::List(l) = &mut row.is {
                if !l.contains(&Some("entity".to_string())) && rng.chance(2, 3) {
                    l.push(Some("entity".to_string()));
                }
            }
        }
    }
    let mut new: Vec<RowSpec> = Vec::new();
    for n in ["association", "relationship", "entity"] {
        if !has(rows, n) {
            new.push(RowSpec::plain(n, vec![]));
        }
    }
    new.push(RowSpec::plain("tagOn", vec![some("association")]));
    new.push(RowSpec::plain("is", vec![some("association")]));
    let mut tags = RowSpec::plain("tags", vec![some("association")]);
    match rng.below(10) {
        0 => tags.extra = vec![("reciprocalOf".into(), ExtraV::sym("tagOn"))],
        1 => tags.extra = vec![("computedFromReciprocal".into(), ExtraV::Marker), ("reciprocalOf".into(), ExtraV::sym("noSuchDef"))],
        2 => tags.extra = vec![("computedFromReciprocal".into(), ExtraV::Marker), ("reciprocalOf".into(), ExtraV::Other)],
        3 => tags.extra = vec![("computedFromReciprocal".into(), ExtraV::Marker)],
        4 => {
            tags.is = IsTag::List(vec![some("marker")]);
            tags.extra = vec![("computedFromReciprocal".into(), ExtraV::Marker), ("reciprocalOf".into(), ExtraV::sym("tagOn"))];
        }
        5 => tags.extra = vec![("computedFromReciprocal".into(), ExtraV::Other), ("reciprocalOf".into(), ExtraV::sym("tagOn"))],
        _ => tags.extra = vec![("computedFromReciprocal".into(), ExtraV::Marker), ("reciprocalOf".into(), ExtraV::sym("tagOn"))],
    }
    new.push(tags);
    new.push(RowSpec::plain("myAssoc", vec![some("association")]));
    let mut rev = RowSpec::plain("revAssoc", vec![some("association")]);
    rev.extra = vec![("computedFromReciprocal".into(), ExtraV::Marker), ("reciprocalOf".into(), ExtraV::sym("myAssoc"))];
    new.push(rev);
    new.push(RowSpec::plain("fakeAssoc", vec![some("marker")]));
    // relationships
    let mut cb = RowSpec::plain("containedBy", vec![some("relationship")]);
    cb.extra = vec![("reciprocalOf".into(), ExtraV::sym("contains"))];
    if rng.chance(4, 5) {
        cb.extra.push(("transitive".into(), ExtraV::Marker));
    }
    new.push(cb);
    let mut ct = RowSpec::plain("contains", vec![some("relationship")]);
    if rng.chance(1, 2) {
        ct.extra = vec![("reciprocalOf".into(), ExtraV::sym("containedBy"))];
    }
    new.push(ct);
    let mut inp = RowSpec::plain("inputs", vec![some("relationship")]);
    if rng.chance(1, 3) {
        inp.extra = vec![("transitive".into(), ExtraV::Marker)];
    }
    new.push(inp);
    new.push(RowSpec::plain("feeds", vec![some("inputs")]));
    new.push(RowSpec::plain("notRel", vec![]));
    // ref tags carrying relationships
    for t in ["equipRef", "siteRef", "spaceRef", "hotRef"] {
        let mut r = RowSpec::plain(t, vec![]);
        for relname in ["containedBy", "contains", "inputs", "feeds", "notRel"] {
            if rng.chance(2, 5) {
                r.extra.push((relname.into(), match rng.below(10) { 0 => ExtraV::Other, 1 => ExtraV::Marker, _ => ExtraV::Sym(pick(rng)) }));
            }
        }
        new.push(r);
    }
    for r in new {
        if let DefTag::Sym(n) = &r.def {
            if has(rows, n) {
                continue;
            }
        }
        rows.push(r);
    }
}

/// records (with Refs between them, cycles included) and queries for `has_relationship`
pub fn gen_rel(rng: &mut Rng, rows: &[RowSpec], real_db: bool) -> (Vec<RelRec>, Vec<RelQuery>) {
    let defined: Vec<String> = rows.iter().filter_map(|r| match &r.def { DefTag::Sym(s) => Some(s.clone()), _ => None }).collect();
    let ids: Vec<String> = (0..6).map(|i| format!("r{i}")).collect();
    let ref_tags: Vec<&str> =
        if real_db { vec!["equipRef", "siteRef", "spaceRef", "hotWaterRef", "chilledWaterRef", "airRef", "elecRef", "systemRef"] } else { vec!["equipRef", "siteRef", "spaceRef", "hotRef"] };
    let any_ref = |rng: &mut Rng| -> String { if rng.chance(1, 8) { "zz".into() } else { rng.pick(&ids).clone() } };
    let mut recs = Vec::new();
    for (i, id) in ids.iter().enumerate() {
        let mut tags: BTreeMap<String, Option<String>> = BTreeMap::new();
        // a blank record, a record without `id`, a record whose `id` is not the name it is resolved under
        let shape = if i == 5 { rng.below(4) } else { 3 };
        if shape == 0 {
            recs.push(RelRec { key: Some(id.clone()), tags: vec![] });
            continue;
        }
        match shape {
            1 => {}
            2 => {
                tags.insert("id".into(), Some("other".into()));
            }
            _ => {
                tags.insert("id".into(), Some(id.clone()));
            }
        }
        for _ in 0..1 + rng.below(3) {
            tags.insert(rng.pick(&ref_tags).to_string(), Some(any_ref(rng)));
        }
        if rng.chance(1, 4) && !defined.is_empty() {
            // a Ref under a tag that is an ordinary def
            tags.insert(rng.pick(&defined).clone(), Some(any_ref(rng)));
        }
        for _ in 0..rng.below(3) {
            if !defined.is_empty() {
                tags.entry(rng.pick(&defined).clone()).or_insert(None);
            }
        }
        recs.push(RelRec { key: if rng.chance(1, 12) { None } else { Some(id.clone()) }, tags: tags.into_iter().collect() });
    }
    let rel_names: Vec<&str> = if real_db { vec!["containedBy", "contains", "inputs", "outputs", "hotWaterRef", "relationship", "neverMentioned"] } else { vec!["containedBy", "contains", "inputs", "feeds", "notRel", "neverMentioned"] };
    let mut qs = Vec::new();
    for _ in 0..8 {
        let rel = if rng.chance(1, 8) && !defined.is_empty() { rng.pick(&defined).clone() } else { rng.pick(&rel_names).to_string() };
        let term = if rng.chance(2, 3) && !defined.is_empty() { Some(if rng.chance(1, 8) { "neverMentioned".into() } else { rng.pick(&defined).clone() }) } else { None };
        let target = if rng.chance(3, 5) { Some(any_ref(rng)) } else { None };
        qs.push(RelQuery { subject: rng.below(ids.len() as u64) as usize, rel, term, target });
    }
    // two FAMILIES: one (relationship, term, target) asked of every record in turn - the walks of a family run through
    // the same refs, so whatever is remembered about a ref between queries is consulted again
    for _ in 0..2 {
        let rel = rng.pick(&rel_names[..2]).to_string();
        let term = if rng.chance(1, 2) && !defined.is_empty() { Some(rng.pick(&defined).clone()) } else { None };
        let target = Some(rng.pick(&ids).clone());
        for subject in 0..ids.len() {
            qs.push(RelQuery { subject, rel: rel.clone(), term: term.clone(), target: target.clone() });
        }
    }
    (recs, qs)
}

// ------------------------------------------------------------------------------------------------
// tests/defs/defs.zinc
// ------------------------------------------------------------------------------------------------
pub struct ZincDb {
    pub rows: Vec<RowSpec>,
    pub symbols: Vec<String>,
    pub ns: &'static Namespace<'static>,
    pub grid: Grid,
}

pub fn load_zinc_grid() -> Grid {
    let text = std::fs::read_to_string("/repo/tests/defs/defs.zinc").expect("tests/defs/defs.zinc");
    let v = libhaystack::encoding::zinc::decode::from_str(&text).expect("defs.zinc parses");
    Grid::try_from(&v).expect("defs.zinc is a grid")
}

pub fn rows_of_grid(grid: &Grid) -> Vec<RowSpec> {
    grid.rows
        .iter()
        .map(|d| {
            let def = match d.get("def") {
                Some(Value::Symbol(s)) => DefTag::Sym(s.value.clone()),
                Some(_) => DefTag::Other("other".into()),
                None => DefTag::Absent,
            };
            let is = match d.get("is") {
                Some(Value::List(l)) => IsTag::List(
                    l.iter()
                        .map(|v| match v {
                            Value::Symbol(s) => Some(s.value.clone()),
                            _ => None,
                        })
                        .collect(),
                ),
                Some(Value::Symbol(s)) => IsTag::Single(s.value.clone()),
                _ => IsTag::Absent,
            };
            let extra = d
                .iter()
                .filter(|(k, _)| k.as_str() != "def" && k.as_str() != "is" && k.as_str() != "doc")
                .map(|(k, v)| {
                    let x = match v {
                        Value::Marker => ExtraV::Marker,
                        Value::Symbol(s) => ExtraV::Sym(s.value.clone()),
                        Value::List(l) => ExtraV::List(
                            l.iter()
                                .map(|v| match v {
                                    Value::Symbol(s) => Some(s.value.clone()),
                                    _ => None,
                                })
                                .collect(),
                        ),
                        _ => ExtraV::Other,
                    };
                    (k.clone(), x)
                })
                .collect();
            RowSpec { def, is, extra }
        })
        .collect()
}

pub fn zinc_db() -> &'static ZincDb {
    static DB: OnceLock<ZincDb> = OnceLock::new();
    DB.get_or_init(|| {
        let grid = load_zinc_grid();
        let rows = rows_of_grid(&grid);
        let symbols = mentioned(&Oracle::new(&rows));
        let ns: &'static Namespace<'static> = Box::leak(Box::new(Namespace::make(grid.clone())));
        ZincDb { rows, symbols, ns, grid }
    })
}

// ------------------------------------------------------------------------------------------------
// part 3: `protos` (children prototypes)
// ------------------------------------------------------------------------------------------------
/// the values `protos` cases are made of; the index is the value's token for the model (0 = Null)
fn proto_value_pool() -> Vec<Value> {
    vec![
        Value::Null,
        Value::Marker,
        Value::make_number(1.0),
        Value::make_number(2.5),
        Value::make_str("a"),
        Value::make_str("b c"),
        Value::make_bool(true),
        Value::make_symbol("sym"),
    ]
}
/// how the pool's values are spelled in a `children` line (`key` alone is a Marker)
fn proto_zinc(key: &str, tok: usize) -> String {
    match tok {
        1 => key.to_string(),
        2 => format!("{key}:1"),
        3 => format!("{key}: 2.5"),
        4 => format!("{key}:\"a\""),
        5 => format!("{key}:\"b c\""),
        6 => format!("{key}:T"),
        _ => format!("{key}:^sym"),
    }
}
fn proto_token(pool: &[Value], v: &Value) -> Option<usize> {
    pool.iter().position(|x| x == v)
}
type PD = BTreeMap<String, usize>;
fn pd_dict(pool: &[Value], d: &PD) -> Dict {
    let mut out = Dict::new();
    for (k, t) in d {
        out.insert(k.clone(), pool[*t].clone());
    }
    out
}
fn pd_show(d: &PD) -> String {
    format!("{{{}}}", d.iter().map(|(k, t)| format!("{}:{t}", vx::h(k))).collect::<Vec<_>>().join(","))
}
fn pd_tokens(d: &PD, t: &mut Vec<String>) {
    t.push(d.len().to_string());
    for (k, v) in d {
        t.push(vx::h(k));
        t.push(v.to_string());
    }
}
struct ProtoSpec {
    /// `None`: a `children` tag that is neither a Str nor a List
    children: Option<Vec<PD>>,
    flatten: Vec<String>,
}

/// `p <seed> g <rows>`: defs of the (acyclic) graph get `children` / `childrenFlatten` tags derived from the seed,
/// parents are made from the def names; `protos(parent)` is compared, as a set of dicts, with an oracle written from
/// the documentation of the two tags and with the model
fn exec_protos(seed: u64, rows: &[RowSpec], out: &mut CaseOut) {
    let mut rng = Rng::new(seed);
    // some of the sixteen core type defs join the graph (for `core_type_defs`)
    const CORE: [&str; 16] =
        ["marker", "na", "bool", "number", "coord", "str", "symbol", "ref", "uri", "xstr", "date", "time", "dateTime", "dict", "list", "grid"];
    let mut rows: Vec<RowSpec> = rows.to_vec();
    let core_mode = rng.below(4);
    for (i, n) in CORE.iter().enumerate() {
        let add = match core_mode {
            0 => false,
            1 => true,
            _ => rng.chance(1, 2),
        };
        if add {
            // a look-alike in another spelling next to (or instead of) the name itself
            if rng.chance(1, 6) {
                rows.push(RowSpec::plain(&n.to_ascii_lowercase(), vec![]));
                if rng.chance(1, 2) {
                    continue;
                }
            }
            rows.push(RowSpec::plain(n, if i > 0 && rng.chance(1, 3) { vec![Some("val".to_string())] } else { vec![] }));
        }
    }
    let rows: &[RowSpec] = &rows;
    let o = Oracle::new(rows);
    if !o.on_cycle().is_empty() || o.is.is_empty() {
        return;
    }
    out.nontrivial = true;
    let pool = proto_value_pool();
    let defined: Vec<String> = o.is.keys().cloned().collect();
    let is_id = |s: &str| s.chars().next().map_or(false, |c| c.is_ascii_lowercase()) && s.chars().all(|c| c.is_ascii_alphanumeric());
    let mut id_keys: Vec<String> = defined.iter().filter(|s| is_id(s)).cloned().collect();
    id_keys.extend(["dis", "fan", "x1"].iter().map(|s| s.to_string()));
    let any_keys: Vec<String> = defined.iter().cloned().chain(["dis", "not a name", ""].iter().map(|s| s.to_string())).collect();
    // --- which defs have children, and what they are ---------------------------------------------
    let mut specs: BTreeMap<String, ProtoSpec> = BTreeMap::new();
    let mut extra_tags: BTreeMap<String, Vec<(String, Value)>> = BTreeMap::new();
    let n_specs = 1 + rng.below(4);
    for _ in 0..n_specs {
        let name = rng.pick(&defined).clone();
        if specs.contains_key(&name) {
            continue;
        }
        let mut tags: Vec<(String, Value)> = Vec::new();
        let n_children = rng.below(4) as usize;
        let mut gen_pd = |rng: &mut Rng, keys: &[String], lo: usize| -> PD {
            let mut d = PD::new();
            for _ in 0..(1 + rng.below(3)) {
                d.insert(rng.pick(keys).clone(), lo + rng.below((8 - lo) as u64) as usize);
            }
            d
        };
        let children: Option<Vec<PD>> = match rng.below(7) {
            0 => {
                // neither a Str nor a List
                tags.push(("children".into(), if rng.chance(1, 2) { Value::make_number(3.0) } else { Value::Marker }));
                out.stat("protos_children_other");
                None
            }
            1 | 2 | 3 => {
                // a List: Dict items count (an empty Dict too), anything else is passed over
                let mut items = Vec::new();
                let mut cs = Vec::new();
                for i in 0..n_children {
                    if rng.chance(1, 4) {
                        items.push(if i % 2 == 0 { Value::make_str("x:1") } else { Value::Marker });
                    }
                    let d = if rng.chance(1, 8) { PD::new() } else { gen_pd(&mut rng, &any_keys, 0) };
                    items.push(Value::make_dict(pd_dict(&pool, &d)));
                    cs.push(d);
                }
                tags.push(("children".into(), Value::make_list(items)));
                out.stat("protos_children_list");
                Some(cs)
            }
            _ => {
                // a Str: one dict per line; blank lines, comments and lines that do not decode are passed over
                let mut lines: Vec<String> = Vec::new();
                let mut cs = Vec::new();
                for _ in 0..n_children {
                    match rng.below(8) {
                        0 => lines.push(String::new()),
                        1 => lines.push("// fan:1".into()),
                        2 => lines.push("  ".into()),
                        3 => lines.push(rng.pick(&["fan:", "1fan", "fan:\"open", "{fan}", ":"]).to_string()),
                        _ => {}
                    }
                    let d = gen_pd(&mut rng, &id_keys, 1);
                    let body = d.iter().map(|(k, t)| proto_zinc(k, *t)).collect::<Vec<_>>().join(if rng.chance(1, 2) { " " } else { ", " });
                    lines.push(format!("{}{body}{}", if rng.chance(1, 3) { "  " } else { "" }, if rng.chance(1, 3) { " \t" } else { "" }));
                    cs.push(d);
                }
                tags.push(("children".into(), Value::make_str(&lines.join("\n"))));
                out.stat("protos_children_str");
                Some(cs)
            }
        };
        // childrenFlatten: a list of symbols (other items are passed over), or not a list at all
        let mut flatten: Vec<String> = Vec::new();
        match rng.below(6) {
            0 => {}
            1 => tags.push(("childrenFlatten".into(), Value::make_symbol(rng.pick(&defined[..]).as_str()))),
            _ => {
                let mut items = Vec::new();
                for i in 0..(1 + rng.below(3)) {
                    if rng.chance(1, 5) {
                        items.push(if i % 2 == 0 { Value::make_str(rng.pick(&defined[..]).as_str()) } else { Value::Null });
                    } else {
                        let s = if rng.chance(1, 8) { "neverDefined".to_string() } else { rng.pick(&defined).clone() };
                        items.push(Value::make_symbol(&s));
                        flatten.push(s);
                    }
                }
                tags.push(("childrenFlatten".into(), Value::make_list(items)));
                out.stat("protos_flatten_list");
            }
        }
        extra_tags.insert(name.clone(), tags);
        specs.insert(name, ProtoSpec { children, flatten });
    }
    // --- the namespace: every row of a chosen def carries the tags --------------------------------
    let dicts: Vec<Dict> = rows
        .iter()
        .map(|r| {
            let mut d = r.to_dict();
            if let (Some(n), _) = r.model_view() {
                if let Some(tags) = extra_tags.get(&n) {
                    for (k, v) in tags {
                        d.insert(k.clone(), v.clone());
                    }
                }
            }
            d
        })
        .collect();
    let ns: &'static Namespace<'static> = Box::leak(Box::new(Namespace::make(Grid::make_from_dicts(dicts))));
    // --- parents --------------------------------------------------------------------------------
    let spec_names: Vec<String> = specs.keys().cloned().collect();
    let mut parents: Vec<PD> = Vec::new();
    for _ in 0..(3 + rng.below(3)) {
        let mut d = PD::new();
        if rng.chance(5, 6) {
            d.insert(rng.pick(&spec_names).clone(), rng.below(8) as usize);
        }
        for _ in 0..rng.below(5) {
            let k = if rng.chance(1, 6) { rng.pick(&any_keys).clone() } else { rng.pick(&defined).clone() };
            d.insert(k, if rng.chance(1, 5) { 0 } else { rng.below(8) as usize });
        }
        parents.push(d);
    }
    parents.push(PD::new());
    // --- the real function, the oracle --------------------------------------------------------------
    let mut replies = Vec::new();
    for parent in &parents {
        let pdict = pd_dict(&pool, parent);
        let got = ns.protos(&pdict);
        let mut got_pd: Vec<String> = Vec::new();
        for g in &got {
            let mut d = PD::new();
            for (k, v) in g.iter() {
                match proto_token(&pool, v) {
                    Some(t) => {
                        d.insert(k.clone(), t);
                    }
                    None => out.fail("protos_value", format!("a prototype of {pdict:?} holds {v:?} under {k:?}: neither the parent's nor a child's value")),
                }
            }
            got_pd.push(pd_show(&d));
        }
        got_pd.sort();
        let n = got_pd.len();
        got_pd.dedup();
        if got_pd.len() != n {
            out.fail("protos_repeated", format!("protos({pdict:?}) hands out the same prototype twice: {got:?}"));
        }
        // documentation: the children of the defs the parent's tags name, each with the parent's non-Null values of
        // the tags that fit a `childrenFlatten` symbol
        let mut want: BTreeSet<String> = BTreeSet::new();
        for name in parent.keys() {
            let Some(spec) = specs.get(name) else { continue };
            let Some(cs) = &spec.children else { continue };
            let flat: Vec<(&String, usize)> =
                parent.iter().filter(|(k, t)| **t != 0 && spec.flatten.iter().any(|s| o.fits(k, s))).map(|(k, t)| (k, *t)).collect();
            for c in cs {
                let mut d = c.clone();
                for (k, t) in &flat {
                    d.insert((*k).clone(), *t);
                }
                want.insert(pd_show(&d));
            }
            if !flat.is_empty() && !cs.is_empty() {
                out.stat("protos_flattened_value");
            }
        }
        let want: Vec<String> = want.into_iter().collect();
        if want != got_pd {
            out.fail("protos_spec", format!("protos({pdict:?}) = {got_pd:?}, the children and flattened values say {want:?}"));
        }
        out.stat(match got_pd.len() { 0 => "protos_0", 1 => "protos_1", 2..=3 => "protos_2-3", _ => "protos_4+" });
        replies.push(got_pd.join("|"));
    }
    // --- the model ----------------------------------------------------------------------------------
    let mut t = vec![specs.len().to_string()];
    for (name, spec) in &specs {
        t.push(vx::h(name));
        match &spec.children {
            Some(cs) => {
                t.push("1".into());
                t.push(cs.len().to_string());
                for c in cs {
                    pd_tokens(c, &mut t);
                }
            }
            None => {
                t.push("0".into());
                t.push("0".into());
            }
        }
        write_names(&spec.flatten, &mut t);
    }
    t.push(parents.len().to_string());
    for p in &parents {
        pd_tokens(p, &mut t);
    }
    out.req(format!("C13 protos {} {}", model_graph_tokens(rows), t.join(" ")), format!("ok {}", replies.join(";")));
    // --- core_type_defs: per field the def named after the kind, or the empty dict ---------------------
    {
        let c = ns.core_type_defs();
        let fields: [&Dict; 16] =
            [c.marker, c.na, c.bool, c.number, c.coord, c.str, c.symbol, c.reference, c.uri, c.xstr, c.date, c.time, c.datetime, c.dict, c.list, c.grid];
        let mut reply = Vec::new();
        let mut found = 0;
        for (f, n) in fields.iter().zip(CORE.iter()) {
            let want: Option<&Dict> = ns.get_by_name(n);
            match want {
                Some(d) => {
                    found += 1;
                    if !std::ptr::eq(*f, d) && *f != d {
                        out.fail("core_type_def", format!("core_type_defs(): the field for `{n}` holds {f:?}, the namespace's def `{n}` is {d:?}"));
                    }
                    if !o.defined(n) {
                        out.fail("core_type_def", format!("get_by_name({n:?}) finds a def the grid does not have"));
                    }
                }
                None => {
                    if !f.is_empty() {
                        out.fail("core_type_def", format!("core_type_defs(): the namespace has no def `{n}`, the field holds {f:?}"));
                    }
                    if o.defined(n) {
                        out.fail("core_type_def", format!("get_by_name({n:?}) does not find the def of the grid"));
                    }
                }
            }
            reply.push(if f.is_empty() { "-".to_string() } else { vx::h(f.def_name()) });
        }
        out.stat(match found { 0 => "core_defs_0", 16 => "core_defs_16", _ => "core_defs_some" });
        out.req(format!("C13 core {}", model_graph_tokens(rows)), format!("ok {}", reply.join(",")));
    }
    // --- the small look-ups: has_subtype, has_name, all_matching_names ------------------------------------
    {
        let mut names: Vec<String> = Vec::new();
        for _ in 0..(2 + rng.below(6)) {
            names.push(match rng.below(6) {
                0 => "neverDefined".to_string(),
                1 => rng.pick(&CORE).to_string(),
                2 if !names.is_empty() => rng.pick(&names).clone(),
                _ => rng.pick(&defined).clone(),
            });
        }
        // undefined names that defs list in `is` have subtypes too
        for (_, items) in o.is.iter().take(3) {
            if let Some(b) = items.first() {
                names.push(b.clone());
            }
        }
        let mut bits = Vec::new();
        for n in &names {
            let sym = Symbol::from(n.as_str());
            let got = ns.has_subtype(&sym);
            if got != !o.sub(n).is_empty() {
                out.fail("has_subtype", format!("has_subtype({n:?}) = {got}, the defs listing it in `is` are {:?}", o.sub(n)));
            }
            if got != !ns.subtypes_of(&sym).is_empty() {
                out.fail("has_subtype", format!("has_subtype({n:?}) = {got} but subtypes_of has {} entries", ns.subtypes_of(&sym).len()));
            }
            if ns.has_name(n) != o.defined(n) || ns.has(&sym) != o.defined(n) {
                out.fail("has_name", format!("has_name({n:?}) = {}, has = {}, the grid defines it: {}", ns.has_name(n), ns.has(&sym), o.defined(n)));
            }
            bits.push(if got { "1" } else { "0" });
        }
        let refs: Vec<&str> = names.iter().map(|s| s.as_str()).collect();
        let got: Vec<String> = ns.all_matching_names(&refs).iter().map(|d| d.def_name().clone()).collect();
        let want: Vec<String> = names.iter().filter(|n| o.defined(n)).cloned().collect();
        if got != want {
            out.fail("all_matching_names", format!("all_matching_names({names:?}) = {got:?}, the defined ones in order are {want:?}"));
        }
        let mut t = Vec::new();
        write_names(&names, &mut t);
        out.req(
            format!("C13 small {} {}", model_graph_tokens(rows), t.join(" ")),
            format!("ok {}#{}", bits.join(","), got.iter().map(|s| vx::h(s)).collect::<Vec<_>>().join(",")),
        );
    }
    unsafe { free_ns(ns) };
}

pub fn exec(label: &str, input: &str, out: &mut CaseOut) {
    let mut rd = vx::Rd::new(input);
    match rd.tok() {
        Some("g") => {
            let parsed = (|| {
                let rows = read_rows(&mut rd)?;
                if rd.tok()? != "q" {
                    return None;
                }
                let queries = read_names(&mut rd)?;
                if rd.tok()? != "r" {
                    return None;
                }
                let recs = read_recs(&mut rd)?;
                if rd.tok()? != "b" {
                    return None;
                }
                let bases = read_names(&mut rd)?;
                // optional: records and queries for `has_relationship`
                let rel = match rd.tok() {
                    Some("x") => Some(read_rel(&mut rd)?),
                    _ => None,
                };
                Some((rows, queries, recs, bases, rel))
            })();
            let Some((rows, queries, recs, bases, rel)) = parsed else {
                out.fail("harness", "unparsable C13 input".into());
                return;
            };
            let o = Oracle::new(&rows);
            out.nontrivial = o.is.values().any(|v| !v.is_empty());
            out.stat(&format!("defs_{}", match o.is.len() { 0 => "0", 1..=5 => "1-5", 6..=15 => "6-15", 16..=30 => "16-30", _ => "31+" }));
            let cyc = o.on_cycle();
            if !cyc.is_empty() {
                out.stat("cyclic_graph");
                out.stat(&format!("cycle_members_{}", match cyc.len() { 1 => "1", 2 => "2", 3..=5 => "3-5", 6..=15 => "6-15", _ => "16+" }));
                if o.is.iter().any(|(k, v)| v.contains(k)) {
                    out.stat("cyclic_self_loop");
                }
                if o.is.keys().any(|k| !cyc.contains(k) && o.all_sup(k).iter().any(|x| cyc.contains(x))) {
                    out.stat("cyclic_with_tail");
                }
            } else {
                out.stat("acyclic_graph");
            }
            // the oracle against itself: DFS closure = Floyd-Warshall closure (also on cyclic graphs)
            if o.is.len() <= 90 {
                for (k, anc) in o.warshall() {
                    if anc != o.all_sup(&k) {
                        out.fail("harness", format!("the two closure oracles disagree on {k:?}: {anc:?} / {:?}", o.all_sup(&k)));
                    }
                }
            }
            let ns = build_ns(&rows);
            // conjunct defs with parts that have no def / empty parts / repeated parts: in scope like all others
            let conj: Vec<&String> = o.is.keys().filter(|c| c.contains('-')).collect();
            if conj.iter().any(|c| c.split('-').any(|p| !o.defined(p))) {
                out.stat("graph_with_conjunct_of_undefined_part");
            }
            if conj.iter().any(|c| c.split('-').all(|p| !o.defined(p))) {
                out.stat("graph_with_conjunct_of_no_defined_part");
            }
            if conj.iter().any(|c| c.split('-').any(|p| p.is_empty())) {
                out.stat("graph_with_conjunct_of_empty_part");
            }
            run_queries(&rows, ns, &queries, &queries, &recs, &bases, out);
            {
                // part 2 on a bounded number of query symbols (`associations` walks all defs per call)
                let q2: Vec<String> = if queries.len() > 40 { queries.iter().step_by(queries.len() / 40 + 1).cloned().collect() } else { queries.clone() };
                run_part2(&rows, ns, &q2, &recs, rel.as_ref(), true, out);
            }
            unsafe { free_ns(ns) };
        }
        Some("p") => {
            let parsed = (|| {
                let seed = rd.num::<u64>()?;
                if rd.tok()? != "g" {
                    return None;
                }
                Some((seed, read_rows(&mut rd)?))
            })();
            let Some((seed, rows)) = parsed else {
                out.fail("harness", "unparsable C13 protos input".into());
                return;
            };
            exec_protos(seed, &rows, out);
        }
        Some("zinc") => {
            let parsed = (|| Some((rd.num::<usize>()?, rd.num::<usize>()?, rd.num::<u64>()?, rd.num::<u64>()?)))();
            let Some((lo, hi, nrec, seed)) = parsed else {
                out.fail("harness", "unparsable C13 zinc input".into());
                return;
            };
            let db = zinc_db();
            let hi = hi.min(db.symbols.len());
            let queries: Vec<String> = db.symbols[lo.min(hi)..hi].to_vec();
            let mut rng = Rng::new(seed);
            let o = Oracle::new(&db.rows);
            let recs = gen_records(&mut rng, &o, nrec);
            let mut bases: Vec<String> = (0..10).map(|_| rng.pick(&db.symbols).clone()).collect();
            for r in &recs {
                for (k, _) in r.iter().take(2) {
                    bases.extend(o.sup(k));
                }
            }
            bases.sort();
            bases.dedup();
            out.nontrivial = true;
            out.stat("defs_zinc");
            // a fresh namespace per case (cold caches), the whole database as the fits universe
            let ns: &'static Namespace<'static> = Box::leak(Box::new(Namespace::make(db.grid.clone())));
            run_queries(&db.rows, ns, &queries, &db.symbols, &recs, &bases, out);
            {
                let q2: Vec<String> = queries.iter().step_by(4).cloned().collect();
                let rel = gen_rel(&mut rng, &db.rows, true);
                run_part2(&db.rows, ns, &q2, &recs, Some(&rel), false, out);
            }
            unsafe { free_ns(ns) };
            let _ = label;
        }
        _ => out.fail("harness", "unparsable C13 input".into()),
    }
}
