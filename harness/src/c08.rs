//! C08 — filter text and filter tree correspond: print-then-parse is the identity.
//!
//! Exchange syntax of filter trees (tokens, strings hex-encoded as in VX):
//!   F    ::= or k (and k TERM*k)*k
//!   TERM ::= par F | has P | miss P | isa H | weq P H(id) H(dis)|- | rel H H|- (- | r H(id) H(dis)|-) | cmp OP P V
//!   P    ::= k H*k        OP ::= eq|ne|lt|le|gt|ge        V = VX value
//!
//! input: `<mode> …`
//!   rt F          well-formed tree: `Filter::try_from(f.to_string())` must give back `f` (Rust `==`, every
//!                 component incl. Ref display names of comparison literals, and the re-printed text);
//!                 `Visitor` traversal of the parsed filter must match the tree
//!                 -> `C08 print F`, `C08 parse H(text)`
//!   sp SEED F     a spelling of `f` written from the filter grammar (random legal spacing, line breaks,
//!                 redundant parentheses; the expected tree carries the added groups) must parse to the tree
//!                 -> `C08 parse H(text)`
//!   pr F          arbitrary constructible tree (any literal kind): model fidelity of `to_string` only
//!                 -> `C08 print F`
//!   tx H(text)    arbitrary (mutated / invalid) text: outcome and tree -> `C08 parse H(text)`; when it
//!                 parses, printing and re-parsing the result must be stable

use crate::ctx::{CaseOut, Ctx};
use crate::gen::{self, Cfg};
use crate::rng::Rng;
use crate::same;
use crate::vx::{self, Rd};
use libhaystack::filter::nodes::*;
use libhaystack::filter::path::Path;
use libhaystack::filter::Filter;
use libhaystack::val::*;

/// The harness's own filter tree (what is generated, exchanged and compared).
#[derive(Clone, Debug)]
pub enum T {
    Par(F),
    Has(Vec<String>),
    Miss(Vec<String>),
    IsA(String),
    Weq(Vec<String>, String, Option<String>),
    Rel(String, Option<String>, Option<(String, Option<String>)>),
    Cmp(String, Vec<String>, Value),
}
pub type F = Vec<Vec<T>>;

pub const OPS: &[&str] = &["eq", "ne", "lt", "le", "gt", "ge"];

fn w_path(p: &[String], out: &mut Vec<String>) {
    out.push(p.len().to_string());
    for s in p {
        out.push(vx::h(s));
    }
}

pub fn w_f(f: &F, out: &mut Vec<String>) {
    out.push("or".into());
    out.push(f.len().to_string());
    for a in f {
        out.push("and".into());
        out.push(a.len().to_string());
        for t in a {
            w_t(t, out);
        }
    }
}

pub fn w_t(t: &T, out: &mut Vec<String>) {
    match t {
        T::Par(f) => {
            out.push("par".into());
            w_f(f, out);
        }
        T::Has(p) => {
            out.push("has".into());
            w_path(p, out);
        }
        T::Miss(p) => {
            out.push("miss".into());
            w_path(p, out);
        }
        T::IsA(s) => {
            out.push("isa".into());
            out.push(vx::h(s));
        }
        T::Weq(p, id, dis) => {
            out.push("weq".into());
            w_path(p, out);
            out.push(vx::h(id));
            out.push(vx::ho(dis));
        }
        T::Rel(r, t, rf) => {
            out.push("rel".into());
            out.push(vx::h(r));
            out.push(vx::ho(t));
            match rf {
                None => out.push("-".into()),
                Some((id, dis)) => {
                    out.push("r".into());
                    out.push(vx::h(id));
                    out.push(vx::ho(dis));
                }
            }
        }
        T::Cmp(op, p, v) => {
            out.push("cmp".into());
            out.push(op.clone());
            w_path(p, out);
            vx::w_val(v, out);
        }
    }
}

pub fn show_f(f: &F) -> String {
    let mut out = Vec::new();
    w_f(f, &mut out);
    out.join(" ")
}

fn p_path(rd: &mut Rd) -> Option<Vec<String>> {
    let k: usize = rd.num()?;
    let mut v = Vec::new();
    for _ in 0..k {
        v.push(rd.hs()?);
    }
    Some(v)
}

pub fn p_f(rd: &mut Rd) -> Option<F> {
    if rd.tok()? != "or" {
        return None;
    }
    let k: usize = rd.num()?;
    let mut f = Vec::new();
    for _ in 0..k {
        if rd.tok()? != "and" {
            return None;
        }
        let n: usize = rd.num()?;
        let mut a = Vec::new();
        for _ in 0..n {
            a.push(p_t(rd)?);
        }
        f.push(a);
    }
    Some(f)
}

pub fn p_t(rd: &mut Rd) -> Option<T> {
    Some(match rd.tok()? {
        "par" => T::Par(p_f(rd)?),
        "has" => T::Has(p_path(rd)?),
        "miss" => T::Miss(p_path(rd)?),
        "isa" => T::IsA(rd.hs()?),
        "weq" => {
            let p = p_path(rd)?;
            let id = rd.hs()?;
            let dis = rd.hos()?;
            T::Weq(p, id, dis)
        }
        "rel" => {
            let r = rd.hs()?;
            let t = rd.hos()?;
            let rf = match rd.tok()? {
                "-" => None,
                "r" => {
                    let id = rd.hs()?;
                    let dis = rd.hos()?;
                    Some((id, dis))
                }
                _ => return None,
            };
            T::Rel(r, t, rf)
        }
        "cmp" => {
            let op = rd.tok()?.to_string();
            if !OPS.contains(&op.as_str()) {
                return None;
            }
            let p = p_path(rd)?;
            let v = rd.val()?;
            T::Cmp(op, p, v)
        }
        _ => return None,
    })
}

/// `Path` of several segments: `Id` cannot be named outside the crate, but its values can be moved
pub fn mk_path(segs: &[String]) -> Path {
    let mut ids = Vec::new();
    for s in segs {
        let p = Path::from(s.as_str());
        ids.extend(p.iter().cloned());
    }
    Path::from(ids)
}

pub fn path_segs(p: &Path) -> Vec<String> {
    p.iter().map(|id| id.to_string()).collect()
}

pub fn mk_op(op: &str) -> CmpOp {
    match op {
        "eq" => CmpOp::Eq,
        "ne" => CmpOp::NotEq,
        "lt" => CmpOp::LessThan,
        "le" => CmpOp::LessThanEq,
        "gt" => CmpOp::GreatThan,
        _ => CmpOp::GreatThanEq,
    }
}
pub fn op_name(op: &CmpOp) -> &'static str {
    match op {
        CmpOp::Eq => "eq",
        CmpOp::NotEq => "ne",
        CmpOp::LessThan => "lt",
        CmpOp::LessThanEq => "le",
        CmpOp::GreatThan => "gt",
        CmpOp::GreatThanEq => "ge",
    }
}

pub fn to_or(f: &F) -> Or {
    Or { ands: f.iter().map(|a| And { terms: a.iter().map(to_term).collect() }).collect() }
}

pub fn to_term(t: &T) -> Term {
    match t {
        T::Par(f) => Term::Parens(Parens { or: to_or(f) }),
        T::Has(p) => Term::Has(Has { path: mk_path(p) }),
        T::Miss(p) => Term::Missing(Missing { path: mk_path(p) }),
        T::IsA(s) => Term::IsA(IsA { symbol: Symbol { value: s.clone() } }),
        T::Weq(p, id, dis) => Term::WildcardEq(WildcardEq { id: mk_path(p), ref_value: Ref { value: id.clone(), dis: dis.clone() } }),
        T::Rel(r, t, rf) => Term::Relation(Relation {
            rel: Symbol { value: r.clone() },
            rel_term: t.as_ref().map(|t| Symbol { value: t.clone() }),
            ref_value: rf.as_ref().map(|(id, dis)| Ref { value: id.clone(), dis: dis.clone() }),
        }),
        T::Cmp(op, p, v) => Term::Cmp(Cmp { path: mk_path(p), op: mk_op(op), value: v.clone() }),
    }
}

pub fn to_filter(f: &F) -> Filter {
    Filter { or: to_or(f) }
}

pub fn from_or(o: &Or) -> F {
    o.ands.iter().map(|a| a.terms.iter().map(from_term).collect()).collect()
}

pub fn from_term(t: &Term) -> T {
    match t {
        Term::Parens(p) => T::Par(from_or(&p.or)),
        Term::Has(h) => T::Has(path_segs(&h.path)),
        Term::Missing(m) => T::Miss(path_segs(&m.path)),
        Term::IsA(i) => T::IsA(i.symbol.value.clone()),
        Term::WildcardEq(w) => T::Weq(path_segs(&w.id), w.ref_value.value.clone(), w.ref_value.dis.clone()),
        Term::Relation(r) => T::Rel(
            r.rel.value.clone(),
            r.rel_term.as_ref().map(|s| s.value.clone()),
            r.ref_value.as_ref().map(|r| (r.value.clone(), r.dis.clone())),
        ),
        Term::Cmp(c) => T::Cmp(op_name(&c.op).to_string(), path_segs(&c.path), c.value.clone()),
    }
}

/// What `parse(print f)` must be: the tree itself, except that `Display for Ref` (used for the Ref
/// operand of `*==` and of a relation) does not print the display name, which `==` on Ref ignores.
pub fn image(f: &F) -> F {
    f.iter()
        .map(|a| {
            a.iter()
                .map(|t| match t {
                    T::Par(g) => T::Par(image(g)),
                    T::Weq(p, id, _) => T::Weq(p.clone(), id.clone(), None),
                    T::Rel(r, t, rf) => T::Rel(r.clone(), t.clone(), rf.as_ref().map(|(id, _)| (id.clone(), None))),
                    other => other.clone(),
                })
                .collect()
        })
        .collect()
}

/// first difference between the expected tree and the one that came back, every component compared
pub fn diff_f(a: &F, b: &F, at: &str) -> Option<String> {
    if a.len() != b.len() {
        return Some(format!("{at}: {} or-branches became {}", a.len(), b.len()));
    }
    for (i, (x, y)) in a.iter().zip(b.iter()).enumerate() {
        if x.len() != y.len() {
            return Some(format!("{at}.or[{i}]: {} terms became {}", x.len(), y.len()));
        }
        for (j, (s, t)) in x.iter().zip(y.iter()).enumerate() {
            let here = format!("{at}.or[{i}].and[{j}]");
            let d = match (s, t) {
                (T::Par(f), T::Par(g)) => diff_f(f, g, &here),
                (T::Has(p), T::Has(q)) | (T::Miss(p), T::Miss(q)) if p == q => None,
                (T::IsA(p), T::IsA(q)) if p == q => None,
                (T::Weq(p, i1, d1), T::Weq(q, i2, d2)) if p == q && i1 == i2 && d1 == d2 => None,
                (T::Rel(r1, t1, f1), T::Rel(r2, t2, f2)) if r1 == r2 && t1 == t2 && f1 == f2 => None,
                (T::Cmp(o1, p, v), T::Cmp(o2, q, w)) if o1 == o2 && p == q => same::diff(v, w, &format!("{here}.value")),
                _ => {
                    let mut o1 = Vec::new();
                    w_t(s, &mut o1);
                    let mut o2 = Vec::new();
                    w_t(t, &mut o2);
                    Some(format!("{here}: term [{}] became [{}]", o1.join(" "), o2.join(" ")))
                }
            };
            if d.is_some() {
                return d;
            }
        }
    }
    None
}

/// pre-order trace of a tree, as a descending `Visitor` must see it
pub fn trace_f(f: &F, out: &mut Vec<String>) {
    out.push(format!("or{}", f.len()));
    for a in f {
        out.push(format!("and{}", a.len()));
        for t in a {
            match t {
                T::Par(g) => {
                    out.push("par".into());
                    trace_f(g, out);
                }
                T::Has(p) => out.push(format!("has:{}", p.join("/"))),
                T::Miss(p) => out.push(format!("miss:{}", p.join("/"))),
                T::IsA(s) => out.push(format!("isa:{s}")),
                T::Weq(p, id, _) => out.push(format!("weq:{}:{id}", p.join("/"))),
                T::Rel(r, t, rf) => out.push(format!("rel:{r}:{t:?}:{:?}", rf.as_ref().map(|x| x.0.clone()))),
                T::Cmp(op, p, v) => out.push(format!("cmp:{op}:{}:{}", p.join("/"), vx::show(v))),
            }
        }
    }
}

pub struct Tracer(pub Vec<String>);
impl Visitor for Tracer {
    fn visit_cond_or(&mut self, node: &Or) {
        self.0.push(format!("or{}", node.ands.len()));
        for a in &node.ands {
            a.accept_visitor(self);
        }
    }
    fn visit_cond_and(&mut self, node: &And) {
        self.0.push(format!("and{}", node.terms.len()));
        for t in &node.terms {
            t.accept_visitor(self);
        }
    }
    fn visit_parens(&mut self, node: &Parens) {
        self.0.push("par".into());
        node.or.accept_visitor(self);
    }
    fn visit_has(&mut self, node: &Has) {
        self.0.push(format!("has:{}", path_segs(&node.path).join("/")));
    }
    fn visit_missing(&mut self, node: &Missing) {
        self.0.push(format!("miss:{}", path_segs(&node.path).join("/")));
    }
    fn visit_is_a(&mut self, node: &IsA) {
        self.0.push(format!("isa:{}", node.symbol.value));
    }
    fn visit_wildcard_equals(&mut self, node: &WildcardEq) {
        self.0.push(format!("weq:{}:{}", path_segs(&node.id).join("/"), node.ref_value.value));
    }
    fn visit_relation(&mut self, node: &Relation) {
        self.0.push(format!(
            "rel:{}:{:?}:{:?}",
            node.rel.value,
            node.rel_term.as_ref().map(|s| s.value.clone()),
            node.ref_value.as_ref().map(|r| r.value.clone())
        ));
    }
    fn visit_cmp(&mut self, node: &Cmp) {
        self.0.push(format!("cmp:{}:{}:{}", op_name(&node.op), path_segs(&node.path).join("/"), vx::show(&node.value)));
    }
}

pub fn parse_reply(text: &str) -> (String, Option<Filter>) {
    match Filter::try_from(text) {
        Ok(g) => (format!("ok {}", show_f(&from_or(&g.or))), Some(g)),
        Err(_) => ("err".into(), None),
    }
}

// ------------------------------------------------------------------------------------------------
// generators
// ------------------------------------------------------------------------------------------------

/// a tag name; the words the parser treats specially appear as ordinary names too (`not` alone is
/// the one name the syntax cannot express: it is the prefix operator)
pub fn seg(rng: &mut Rng) -> String {
    if rng.chance(1, 8) {
        return rng.pick(&["and", "or", "true", "false", "nota", "order", "android", "orx", "not_", "notA", "e", "inf", "nan", "t", "z"]).to_string();
    }
    gen::ident(rng)
}

pub fn path(rng: &mut Rng) -> Vec<String> {
    let n = match rng.below(8) {
        0..=3 => 1,
        4 | 5 => 2,
        6 => 3,
        _ => 4,
    };
    let mut p: Vec<String> = (0..n).map(|_| seg(rng)).collect();
    if n > 1 && rng.chance(1, 6) {
        let i = rng.below(n as u64) as usize;
        p[i] = "not".into();
    }
    p
}

/// a literal of a kind the filter syntax admits
pub fn literal(rng: &mut Rng) -> Value {
    let mut cfg = Cfg::wf(0);
    cfg.allow_nan = false;
    cfg.allow_inf = false;
    match rng.below(10) {
        0 => Value::make_bool(rng.chance(1, 2)),
        1 | 2 => Value::Number(gen::number(rng, &cfg)),
        3 => Value::Str(Str { value: gen::text(rng) }),
        4 => Value::Uri(Uri { value: gen::uri_text(rng, true) }),
        5 => {
            let dis = if rng.chance(1, 2) { Some(gen::text(rng)) } else { None };
            Value::Ref(Ref { value: gen::ref_id(rng), dis })
        }
        6 => Value::Symbol(Symbol { value: gen::symbol_body(rng) }),
        7 => Value::Date(Date::from(gen::date(rng))),
        8 => Value::Time(Time::from(gen::time(rng))),
        _ => Value::DateTime(gen::datetime(rng, &cfg)),
    }
}

pub fn opt_ref(rng: &mut Rng) -> (String, Option<String>) {
    (gen::ref_id(rng), if rng.chance(1, 3) { Some(gen::text(rng)) } else { None })
}

pub fn term(rng: &mut Rng, depth: u32, lit: &dyn Fn(&mut Rng) -> Value) -> T {
    let k = if depth == 0 { 1 + rng.below(8) } else { rng.below(9) };
    match k {
        0 => T::Par(tree(rng, depth - 1, lit)),
        1 | 2 => T::Has(path(rng)),
        3 => T::Miss(path(rng)),
        4 => T::IsA(gen::symbol_body(rng)),
        5 => {
            let (id, dis) = opt_ref(rng);
            T::Weq(path(rng), id, dis)
        }
        6 => {
            let t = if rng.chance(1, 2) { Some(gen::symbol_body(rng)) } else { None };
            let rf = if rng.chance(1, 2) { Some(opt_ref(rng)) } else { None };
            T::Rel(seg(rng), t, rf)
        }
        _ => T::Cmp(rng.pick(OPS).to_string(), path(rng), lit(rng)),
    }
}

pub fn tree(rng: &mut Rng, depth: u32, lit: &dyn Fn(&mut Rng) -> Value) -> F {
    let n_or = match rng.below(6) {
        0..=2 => 1,
        3 | 4 => 2,
        _ => 3,
    };
    (0..n_or)
        .map(|_| {
            let n_and = match rng.below(6) {
                0..=2 => 1,
                3 | 4 => 2,
                _ => 3,
            };
            (0..n_and).map(|_| term(rng, depth, lit)).collect()
        })
        .collect()
}

pub fn nest(f: F, levels: usize) -> F {
    let mut cur = f;
    for _ in 0..levels {
        cur = vec![vec![T::Par(cur)]];
    }
    cur
}

// ------------------------------------------------------------------------------------------------
// reference spelling, written from the filter grammar
//   filter := or ;  or := and ("or" and)* ;  and := term ("and" term)* ;
//   term := "(" or ")" | path | "not" path | "^" symbol | path "*==" ref | name "?" ["^" symbol] [ref]
//         | path cmpOp literal ;   path := name ("->" name)*
// White space (space, tab, CR, LF) may surround every token; it is required only between two
// tokens that would otherwise run together (name/keyword/number/ref/symbol next to one another).
// A Ref's display name follows its id after exactly one space (Zinc), a timestamp's zone name too.
// ------------------------------------------------------------------------------------------------

fn ws(rng: &mut Rng, required: bool) -> String {
    let n = if required { 1 + rng.below(3) } else { rng.below(3) };
    let mut s = String::new();
    for _ in 0..n {
        s.push_str(match rng.below(8) {
            0 => "\n",
            1 => "\t",
            2 => "\r\n",
            3 => "  ",
            _ => " ",
        });
    }
    s
}

fn spell_path(rng: &mut Rng, p: &[String]) -> String {
    let mut s = String::new();
    for (i, seg) in p.iter().enumerate() {
        if i > 0 {
            if rng.chance(1, 4) {
                s.push_str(&ws(rng, false));
                s.push_str("->");
                s.push_str(&ws(rng, false));
            } else {
                s.push_str("->");
            }
        }
        s.push_str(seg);
    }
    s
}

fn op_text(op: &str) -> &'static str {
    match op {
        "eq" => "==",
        "ne" => "!=",
        "lt" => "<",
        "le" => "<=",
        "gt" => ">",
        _ => ">=",
    }
}

/// the literal's own spelling is the Zinc one (booleans: `true` / `false`)
fn spell_literal(v: &Value) -> String {
    format!("{v}")
}

/// Spelling of a term; `tight_end` = the text ends with a character after which a name may follow
/// without white space (a closing quote, backtick or parenthesis).
fn spell_term(rng: &mut Rng, t: &T, out: &mut String, expect: &mut Vec<T>) -> bool {
    // redundant parentheses around the term: the tree gains a group
    if rng.chance(1, 10) {
        out.push('(');
        out.push_str(&ws(rng, false));
        let mut inner = Vec::new();
        spell_term(rng, t, out, &mut inner);
        out.push_str(&ws(rng, false));
        out.push(')');
        expect.push(T::Par(vec![inner]));
        return true;
    }
    match t {
        T::Par(f) => {
            out.push('(');
            out.push_str(&ws(rng, false));
            let (txt, g) = spell(rng, f);
            out.push_str(&txt);
            out.push_str(&ws(rng, false));
            out.push(')');
            expect.push(T::Par(g));
            true
        }
        T::Has(p) => {
            out.push_str(&spell_path(rng, p));
            expect.push(t.clone());
            false
        }
        T::Miss(p) => {
            out.push_str("not");
            out.push_str(&ws(rng, true));
            out.push_str(&spell_path(rng, p));
            expect.push(t.clone());
            false
        }
        T::IsA(s) => {
            out.push('^');
            out.push_str(s);
            expect.push(t.clone());
            false
        }
        T::Weq(p, id, dis) => {
            out.push_str(&spell_path(rng, p));
            out.push_str(&ws(rng, false));
            out.push_str("*==");
            out.push_str(&ws(rng, false));
            out.push('@');
            out.push_str(id);
            let _ = dis;
            expect.push(T::Weq(p.clone(), id.clone(), None));
            false
        }
        T::Rel(r, st, rf) => {
            out.push_str(r);
            out.push('?');
            if let Some(st) = st {
                out.push_str(&ws(rng, false));
                out.push('^');
                out.push_str(st);
            }
            if let Some((id, _)) = rf {
                out.push_str(&ws(rng, false));
                out.push('@');
                out.push_str(id);
            }
            expect.push(T::Rel(r.clone(), st.clone(), rf.as_ref().map(|(id, _)| (id.clone(), None))));
            false
        }
        T::Cmp(op, p, v) => {
            out.push_str(&spell_path(rng, p));
            out.push_str(&ws(rng, false));
            out.push_str(op_text(op));
            out.push_str(&ws(rng, false));
            // text literals: every second time in one of the reference writer's spellings (short escapes, `\uXXXX` in
            // either case, raw characters) instead of the library's own
            let lit = match v {
                // ... and finite numbers in any spelling of the same double (fraction, exponent with sign, shifted point)
                Value::Number(n) if n.value.is_finite() && rng.chance(1, 2) => {
                    let mut sp = crate::spell::Speller::new(rng);
                    sp.wild = 8;
                    sp.scalar(v).unwrap_or_else(|| spell_literal(v))
                }
                Value::Str(_) | Value::Uri(_) | Value::Ref(_) if rng.chance(1, 2) => {
                    let mut sp = crate::spell::Speller::new(rng);
                    sp.scalar(v).unwrap_or_else(|| spell_literal(v))
                }
                _ => spell_literal(v),
            };
            out.push_str(&lit);
            expect.push(t.clone());
            matches!(v, Value::Str(_) | Value::Uri(_)) || matches!(v, Value::Ref(r) if r.dis.is_some())
        }
    }
}

pub fn spell(rng: &mut Rng, f: &F) -> (String, F) {
    let mut out = String::new();
    let mut expect: F = Vec::new();
    for (i, a) in f.iter().enumerate() {
        let mut tight = true;
        if i > 0 {
            // the previous term's end decides whether white space is required before `or`
            out.push_str("or");
        }
        let mut terms = Vec::new();
        for (j, t) in a.iter().enumerate() {
            if i > 0 || j > 0 {
                // after the keyword: required unless a parenthesis follows
                let mut probe = String::new();
                let mut ptree = Vec::new();
                let mut fork = rng.fork();
                let end_tight = spell_term(&mut fork, t, &mut probe, &mut ptree);
                let starts_paren = probe.starts_with('(');
                out.push_str(&ws(rng, !starts_paren));
                out.push_str(&probe);
                terms.extend(ptree);
                tight = end_tight;
            } else {
                tight = spell_term(rng, t, &mut out, &mut terms);
            }
            if j + 1 < a.len() {
                out.push_str(&ws(rng, !tight));
                out.push_str("and");
            }
        }
        if i + 1 < f.len() {
            out.push_str(&ws(rng, !tight));
        }
        expect.push(terms);
    }
    (out, expect)
}

pub fn spell_top(rng: &mut Rng, f: &F) -> (String, F) {
    let lead = ws(rng, false);
    let (body, g) = spell(rng, f);
    let mut text = format!("{lead}{body}");
    if rng.chance(1, 2) {
        text.push_str(&ws(rng, false));
    }
    (text, g)
}

/// does the text of the tree end with a Ref that has no display name?
pub fn ends_with_bare_ref(f: &F) -> bool {
    match f.last().and_then(|a| a.last()) {
        Some(T::Weq(..)) => true,
        Some(T::Rel(_, _, Some(_))) => true,
        Some(T::Cmp(_, _, Value::Ref(r))) => r.dis.is_none(),
        _ => false,
    }
}

// ------------------------------------------------------------------------------------------------
// exec
// ------------------------------------------------------------------------------------------------

fn kind_of(t: &T) -> &'static str {
    match t {
        T::Par(_) => "par",
        T::Has(_) => "has",
        T::Miss(_) => "miss",
        T::IsA(_) => "isa",
        T::Weq(..) => "weq",
        T::Rel(..) => "rel",
        T::Cmp(..) => "cmp",
    }
}

fn stats_f(f: &F, out: &mut CaseOut, depth: usize) -> usize {
    let mut d = depth;
    for a in f {
        for t in a {
            out.stat(&format!("term:{}", kind_of(t)));
            match t {
                T::Par(g) => d = d.max(stats_f(g, out, depth + 1)),
                T::Cmp(_, _, v) => out.stat(&format!("lit:{}", crate::c01::kind_name(v))),
                _ => {}
            }
        }
    }
    d
}

/// compare a parsed filter with the tree it must be
fn check_tree(what: &str, expect: &F, got: &Filter, out: &mut CaseOut) {
    let back = from_or(&got.or);
    if let Some(d) = diff_f(expect, &back, "f") {
        out.fail(&format!("{what}_mismatch"), d);
    }
    let mut want = Vec::new();
    trace_f(expect, &mut want);
    let mut tr = Tracer(Vec::new());
    got.accept_visitor(&mut tr);
    if want != tr.0 {
        let i = want.iter().zip(tr.0.iter()).position(|(a, b)| a != b).unwrap_or(want.len().min(tr.0.len()));
        out.fail(
            "visitor_mismatch",
            format!("visit #{i}: expected {:?}, visitor saw {:?}", want.get(i), tr.0.get(i)),
        );
    }
}

pub fn exec(label: &str, input: &str, out: &mut CaseOut) {
    let (mode, rest) = input.split_once(' ').unwrap_or((input, ""));
    match mode {
        "rt" | "pr" => {
            let mut rd = Rd::new(rest);
            let f = match p_f(&mut rd) {
                Some(f) if rd.done() => f,
                _ => {
                    out.fail("harness", "unparsable tree".into());
                    return;
                }
            };
            out.nontrivial = true;
            let d = stats_f(&f, out, 0);
            out.stat(&format!("nesting:{}", d.min(9)));
            let filter = to_filter(&f);
            let text = filter.to_string();
            out.req(format!("C08 print {rest}"), format!("ok {}", vx::h(&text)));
            if mode == "pr" {
                return;
            }
            let (reply, back) = parse_reply(&text);
            out.req(format!("C08 parse {}", vx::h(&text)), reply);
            match back {
                None => out.fail("rt_parse_err", format!("the parser rejects the printer's output {text:?}")),
                Some(g) => {
                    if g != filter {
                        out.fail("rt_mismatch", format!("parse(print f) != f   (text {text:?})"));
                    }
                    let again = g.to_string();
                    if again != text {
                        out.fail("rt_reprint", format!("{text:?} re-prints as {again:?}"));
                    }
                    check_tree("rt_tree", &image(&f), &g, out);
                }
            }
        }
        "sp" => {
            let (seed, tree) = rest.split_once(' ').unwrap_or(("0", rest));
            let mut rd = Rd::new(tree);
            let f = match p_f(&mut rd) {
                Some(f) if rd.done() => f,
                _ => {
                    out.fail("harness", "unparsable tree".into());
                    return;
                }
            };
            out.nontrivial = true;
            let mut rng = Rng::new(seed.parse().unwrap_or(0));
            let (text, expect) = if label.starts_with("sp:trailing") {
                // exactly one space after the last token (was a parse error after a bare Ref: fixed 16fcdf0)
                let (body, g) = spell(&mut rng, &f);
                (format!("{body} "), g)
            } else {
                spell_top(&mut rng, &f)
            };
            out.stat("spelling");
            let (reply, back) = parse_reply(&text);
            if text.len() <= 4000 {
                out.req(format!("C08 parse {}", vx::h(&text)), reply);
            }
            match back {
                None => out.fail("spell_parse_err", format!("the parser rejects the spelling {text:?}")),
                Some(g) => check_tree("spell_tree", &expect, &g, out),
            }
        }
        "tx" => {
            let bytes = match vx::unhex(rest.trim()) {
                Some(b) => b,
                None => {
                    out.fail("harness", "unparsable hex".into());
                    return;
                }
            };
            let text = match String::from_utf8(bytes) {
                Ok(t) => t,
                Err(_) => {
                    out.fail("harness", "tx input must be UTF-8".into());
                    return;
                }
            };
            out.nontrivial = !text.is_empty();
            let (reply, back) = parse_reply(&text);
            out.stat(if back.is_some() { "tx:ok" } else { "tx:err" });
            out.req(format!("C08 parse {}", vx::h(&text)), reply);
            if let Some(g) = back {
                // A zone's offset before standard time had seconds (Kiritimati in the year 992: -10:29:20);
                // the timestamp syntax (hh:mm) cannot spell such a value, so it is not a literal the
                // filter syntax admits and the round trip is not demanded of it.
                if has_submin_offset(&from_or(&g.or)) {
                    out.stat("tx:sub-minute-offset");
                    return;
                }
                // printing any filter and parsing the result gives an equal filter
                let printed = g.to_string();
                match Filter::try_from(printed.as_str()) {
                    Err(_) => out.fail("reprint_parse_err", format!("{text:?} parses, its printed form {printed:?} does not")),
                    Ok(h) => {
                        if h != g {
                            out.fail("reprint_mismatch", format!("{text:?} prints as {printed:?}, which parses to a different filter"));
                        } else if h.to_string() != printed {
                            out.fail("reprint_unstable", format!("{printed:?} re-prints as {:?}", h.to_string()));
                        }
                    }
                }
            }
        }
        _ => out.fail("harness", format!("unknown mode {mode}")),
    }
}

/// a timestamp literal whose UTC offset is not a whole number of minutes
pub fn has_submin_offset(f: &F) -> bool {
    use chrono::Offset;
    f.iter().any(|a| {
        a.iter().any(|t| match t {
            T::Par(g) => has_submin_offset(g),
            T::Cmp(_, _, Value::DateTime(dt)) => dt.offset().fix().local_minus_utc() % 60 != 0,
            _ => false,
        })
    })
}

pub fn mutate_text(rng: &mut Rng, s: &str) -> String {
    const SPLICE: &[&str] = &[
        " and ", " or ", "not ", "(", ")", "->", "-", ">", "==", "!=", "<", "<=", ">=", "*==", "?", "^", "@", "\"", "`", " ", "\n", "a", "and", "or", "not",
        "true", "1", "1e", "5kW", "2021-01-01", "12:00:00", "T", "Z", "\\", "!", "=", "*", "x->y", "@r \"d\"", "^s", "é", "_", ".", ":",
    ];
    let mut cs: Vec<char> = s.chars().collect();
    if cs.is_empty() {
        return rng.pick(SPLICE).to_string();
    }
    let i = rng.below(cs.len() as u64) as usize;
    match rng.below(6) {
        0 => {
            cs.remove(i);
        }
        1 => {
            let c = cs[i];
            cs.insert(i, c);
        }
        2 => {
            let t: Vec<char> = rng.pick(SPLICE).chars().collect();
            for (k, c) in t.into_iter().enumerate() {
                cs.insert(i + k, c);
            }
        }
        3 => {
            let t: Vec<char> = rng.pick(SPLICE).chars().collect();
            cs.remove(i);
            for (k, c) in t.into_iter().enumerate() {
                cs.insert(i + k, c);
            }
        }
        4 => {
            let n = (1 + rng.below(5) as usize).min(cs.len() - i);
            cs.drain(i..i + n);
        }
        _ => {
            let j = rng.below(cs.len() as u64) as usize;
            cs.swap(i, j);
        }
    }
    cs.into_iter().collect()
}

/// small universe for the exhaustive part: every tree with up to `max_terms` terms
fn enumerate_trees(max_terms: usize) -> Vec<F> {
    let atoms: Vec<T> = vec![
        T::Has(vec!["a".into()]),
        T::Has(vec!["d".into(), "b".into()]),
        T::Miss(vec!["c".into()]),
        T::Cmp("eq".into(), vec!["x".into(), "y".into()], Value::make_bool(true)),
        T::Cmp("lt".into(), vec!["n".into()], Value::Number(Number { value: 5.0, unit: None })),
        T::IsA("site".into()),
        T::Rel("inputs".into(), Some("air".into()), None),
        T::Weq(vec!["r".into()], "x".into(), None),
    ];
    // shapes: compositions of k terms into or/and groups, each term an atom or a group of smaller trees
    fn shapes(k: usize) -> Vec<Vec<usize>> {
        // ordered partitions of k
        if k == 0 {
            return vec![vec![]];
        }
        let mut out = Vec::new();
        for first in 1..=k {
            for mut rest in shapes(k - first) {
                let mut v = vec![first];
                v.append(&mut rest);
                out.push(v);
            }
        }
        out
    }
    let mut all: Vec<F> = Vec::new();
    let mut counter = 0usize;
    for k in 1..=max_terms {
        for shape in shapes(k) {
            // choose atoms round-robin with a rotating offset so that every atom meets every position
            for off in 0..atoms.len() {
                let mut f: F = Vec::new();
                let mut idx = off;
                for n in &shape {
                    let mut a = Vec::new();
                    for _ in 0..*n {
                        a.push(atoms[idx % atoms.len()].clone());
                        idx += 3;
                    }
                    f.push(a);
                }
                all.push(f.clone());
                // the same tree as a group inside a larger one
                counter += 1;
                if k < max_terms {
                    all.push(vec![vec![atoms[counter % atoms.len()].clone(), T::Par(f.clone())]]);
                    all.push(vec![vec![T::Par(f.clone())], vec![atoms[(counter + 1) % atoms.len()].clone()]]);
                }
            }
        }
    }
    all
}

pub fn generate(ctx: &mut Ctx) {
    // fixed shapes: the formerly failing one first
    let fixed: Vec<F> = vec![
        vec![vec![T::Has(vec!["d".into(), "b".into()]), T::Has(vec!["c".into()])]],
        vec![vec![T::Has(vec!["a".into()])], vec![T::Has(vec!["b".into()]), T::Has(vec!["c".into()])]],
        vec![vec![T::Par(vec![vec![T::Has(vec!["a".into()])], vec![T::Has(vec!["b".into()])]]), T::Has(vec!["c".into()])]],
        vec![vec![T::Miss(vec!["a".into(), "b".into(), "c".into(), "d".into()]), T::Miss(vec!["and".into()])]],
        vec![vec![T::Has(vec!["and".into()]), T::Has(vec!["or".into()])], vec![T::Has(vec!["or".into()])]],
        vec![vec![T::Cmp("eq".into(), vec!["a".into()], Value::Ref(Ref { value: "x".into(), dis: Some("Dis \"q\"".into()) })), T::Has(vec!["b".into()])]],
        vec![vec![T::Weq(vec!["a".into(), "b".into()], "x".into(), Some("dropped".into())), T::Rel("rel".into(), Some("sym".into()), Some(("r".into(), Some("d".into()))))]],
        vec![vec![T::Rel("not".into(), None, None), T::Rel("a".into(), None, Some(("r".into(), None))), T::Has(vec!["z".into()])]],
    ];
    for f in &fixed {
        ctx.case("rt:fixed", &format!("rt {}", show_f(f)));
        for s in 0..4 {
            ctx.case("sp:fixed", &format!("sp {s} {}", show_f(f)));
        }
    }
    // nesting up to the parser's limit
    for levels in [1usize, 2, 10, 62, 63] {
        let f = nest(vec![vec![T::Has(vec!["a".into()]), T::Has(vec!["b".into(), "c".into()])]], levels);
        ctx.case("rt:nested", &format!("rt {}", show_f(&f)));
    }
    // many closed groups side by side: the depth bookkeeping must come back after each one
    for k in [2usize, 30, 64, 65, 66, 200] {
        let g = || T::Par(vec![vec![T::Has(vec!["a".into()])]]);
        let ands: F = vec![(0..k).map(|_| g()).collect()];
        ctx.case("rt:siblings", &format!("rt {}", show_f(&ands)));
        let ors: F = (0..k).map(|_| vec![g(), T::Has(vec!["b".into()])]).collect();
        ctx.case("rt:siblings", &format!("rt {}", show_f(&ors)));
        // each sibling itself two groups deep, the whole under 60 levels
        let two = || T::Par(vec![vec![T::Par(vec![vec![T::Has(vec!["c".into()])]]), T::Has(vec!["d".into()])]]);
        let inner: F = vec![(0..k.min(40)).map(|_| two()).collect()];
        ctx.case("rt:siblings", &format!("rt {}", show_f(&nest(inner, 60))));
    }
    // look-alikes, one after the other in the same process: filters that differ only INSIDE a literal (runs of blanks,
    // blanks at the ends, letter case, a character that some normalisation would fold) - whatever is kept between two
    // parses (a cache keyed by a normalised text, an interner) must not hand the earlier tree to the later text
    let variants: Vec<Vec<&str>> = vec![
        vec!["Room 101", "Room  101", "Room   101", "Room 101 ", " Room 101", "room 101", "ROOM 101", "Room\u{a0}101", "Room-101", "Room 1O1"],
        vec!["a  b", "a b", "ab", "a b ", "A B"],
        vec!["", " ", "  "],
    ];
    for fam in &variants {
        for order in 0..2 {
            let mut texts: Vec<&str> = fam.clone();
            if order == 1 {
                texts.reverse();
            }
            for t in texts {
                let lits: Vec<Value> = vec![
                    Value::make_str(t),
                    Value::make_uri(&format!("http://x/{t}")),
                    Value::Ref(Ref { value: "r1".into(), dis: Some(t.to_string()) }),
                ];
                for l in lits {
                    let f: F = vec![vec![T::Cmp("eq".into(), vec!["dis".into()], l), T::Has(vec!["site".into()])]];
                    ctx.case("rt:lookalike", &format!("rt {}", show_f(&f)));
                }
            }
        }
    }
    // random well-formed trees: round trip, visitor, spelling
    let n = ctx.n(2500, 300_000);
    for _ in 0..n {
        let mut rng = ctx.rng.fork();
        let depth = match rng.below(10) {
            0..=4 => 0,
            5..=7 => 1,
            8 => 2,
            _ => 3,
        };
        let f = tree(&mut rng, depth, &literal);
        let s = show_f(&f);
        if s.len() > 6000 {
            continue;
        }
        ctx.case("rt:random", &format!("rt {s}"));
        if rng.chance(1, 2) {
            ctx.case("sp:random", &format!("sp {} {s}", rng.below(1 << 30)));
        }
        if ends_with_bare_ref(&f) && rng.chance(1, 4) {
            ctx.case("sp:trailing", &format!("sp {} {s}", rng.below(1 << 30)));
        }
    }
    // every literal kind at least once in every comparison operator
    for op in OPS {
        for k in 0..40u64 {
            let mut rng = ctx.rng.fork();
            let _ = k;
            let f = vec![vec![T::Cmp(op.to_string(), path(&mut rng), literal(&mut rng)), T::Has(path(&mut rng))]];
            ctx.case("rt:literal", &format!("rt {}", show_f(&f)));
        }
    }
    // timestamp literals where only the written offset tells two instants apart (both passes of the repeated hour at the
    // end of daylight saving time, the seconds around each transition) and where the offset has seconds (local mean
    // time), and zones with three-segment ids: the literal must come back with its exact value
    {
        let mut stamps: Vec<DateTime> = gen::dst_edge_datetimes();
        stamps.extend(gen::lmt_datetimes());
        stamps.extend(gen::leap_datetimes());
        for zone in ["America/Indiana/Knox", "America/Kentucky/Monticello", "America/North_Dakota/Center", "America/Argentina/Ushuaia", "America/Argentina/Buenos_Aires"] {
            if let Ok(tz) = zone.parse::<chrono_tz::Tz>() {
                use chrono::TimeZone;
                if let Some(d) = tz.timestamp_opt(1_636_270_200, 0).single() {
                    stamps.push(DateTime::from(d));
                }
            }
        }
        for (i, dt) in stamps.into_iter().enumerate() {
            let op = OPS[i % OPS.len()];
            let f = vec![vec![T::Cmp(op.to_string(), vec!["ts".to_string()], Value::DateTime(dt))]];
            ctx.case("rt:stamp", &format!("rt {}", show_f(&f)));
        }
    }
    // arbitrary constructible trees: `to_string` fidelity for every Value kind
    let n = ctx.n(300, 30_000);
    for _ in 0..n {
        let mut rng = ctx.rng.fork();
        let any = |r: &mut Rng| gen::value(r, &Cfg::any(2));
        let f = tree(&mut rng, 1, &any);
        let s = show_f(&f);
        if s.len() > 6000 || !xstr_ascii_f(&f) {
            continue;
        }
        ctx.case("pr:any", &format!("pr {s}"));
    }
    // mutated / invalid texts
    let n = ctx.n(2500, 300_000);
    for _ in 0..n {
        let mut rng = ctx.rng.fork();
        let depth = if rng.chance(1, 3) { 1 } else { 0 };
        let f = tree(&mut rng, depth, &literal);
        let (text, _) = if rng.chance(1, 2) { (to_filter(&f).to_string(), f.clone()) } else { spell_top(&mut rng, &f) };
        let mut m = mutate_text(&mut rng, &text);
        if rng.chance(1, 3) {
            m = mutate_text(&mut rng, &m);
        }
        if m.len() <= 3000 {
            ctx.case("tx:mutant", &format!("tx {}", vx::h(&m)));
        }
    }
    // thorough: every tree with up to 4 terms over a small universe, printed and in three spellings
    if !ctx.quick() {
        for f in enumerate_trees(4) {
            let s = show_f(&f);
            ctx.case("rt:enum", &format!("rt {s}"));
            for seed in 0..3 {
                ctx.case("sp:enum", &format!("sp {seed} {s}"));
            }
        }
    }
}

fn xstr_ascii(v: &Value) -> bool {
    match v {
        Value::XStr(x) => x.r#type.chars().next().map_or(true, |c| c.is_ascii()),
        Value::List(l) => l.iter().all(xstr_ascii),
        Value::Dict(d) => d.values().all(xstr_ascii),
        Value::Grid(g) => {
            g.meta.as_ref().map_or(true, |m| m.values().all(xstr_ascii))
                && g.columns.iter().all(|c| c.meta.as_ref().map_or(true, |m| m.values().all(xstr_ascii)))
                && g.rows.iter().all(|r| r.values().all(xstr_ascii))
        }
        _ => true,
    }
}
fn xstr_ascii_f(f: &F) -> bool {
    f.iter().all(|a| {
        a.iter().all(|t| match t {
            T::Par(g) => xstr_ascii_f(g),
            T::Cmp(_, _, v) => xstr_ascii(v),
            _ => true,
        })
    })
}
