//! C11 — re-encoding decoded text is stable; stream decoding equals buffer decoding; lazy rows.
//!
//! input: `z <hex zinc text>` | `j <hex json text>` | `look <hex zinc grid> <first-token ends…>`
//!   z    : if the text is accepted: v = decode(t); t' = encode(v); decode(t') equals v in every component;
//!          decode through chunked / interrupted readers equals decode from the buffer (value and rows)
//!          correspondence: `C11 dec H(t)`, `C11 enc V`, `C11 rows H(t)` (incl. consumed byte counts)
//!   j    : the Hayson analogue of the fixed point (serde_json to_string / from_str)
//!   look : a grid text whose rows were laid out by the harness; `ends[i]` = offset just past the first
//!          token of the line after row i; the iterator must hand out row i having pulled at most
//!          `ends[i] + LOOKAHEAD` bytes from the reader

use crate::c03::{decode_bytes, rows_reply_counted, FaultyReader};
use crate::ctx::{CaseOut, Ctx};
use crate::gen::{self, Cfg};
use crate::same;
use crate::spell;
use crate::vx;
use libhaystack::encoding::zinc::decode::parser::Parser;
use libhaystack::encoding::zinc::decode::{from_str, parse_grid_iterator};
use libhaystack::encoding::zinc::encode::to_zinc_string;
use libhaystack::val::*;

/// bytes the scanner may hold beyond the end of the first token after a row: its current byte plus
/// the one/two-byte peeks of the scalar readers (`@id "`, `Z AB`, number/date dispatch)
pub const LOOKAHEAD: usize = 3;

fn rows_via(bytes: &[u8], chunk: usize, intr: usize) -> Option<Vec<String>> {
    let mut rd = FaultyReader { data: bytes, pos: 0, chunk, intr, fail_at: None, calls: 0, transient: false, failed_once: false };
    let mut p = Parser::make(&mut rd).ok()?;
    let it = parse_grid_iterator(&mut p).ok()?;
    let mut out = Vec::new();
    for (n, item) in it.enumerate() {
        if n > bytes.len() + 3 {
            out.push("unbounded".into());
            break;
        }
        match item {
            Ok(r) => out.push(vx::show(&Value::Dict(r))),
            Err(_) => {
                out.push("e".into());
                break;
            }
        }
    }
    Some(out)
}

pub fn exec(_label: &str, input: &str, out: &mut CaseOut) {
    let mut parts = input.split(' ');
    let mode = parts.next().unwrap_or("");
    let bytes = match parts.next().and_then(vx::unhex) {
        Some(b) => b,
        None => {
            out.fail("harness", "unparsable C11 input".into());
            return;
        }
    };
    match mode {
        "z" => {
            let text = match String::from_utf8(bytes.clone()) {
                Ok(t) => t,
                Err(_) => return,
            };
            // buffer entry point = reader entry point: `from_str` and a `Parser` over a reader on the same bytes
            {
                let by_str = from_str(&text).map(|v| vx::show(&v)).map_err(|_| ());
                let by_reader = decode_bytes(&bytes).map(|v| vx::show(&v));
                if by_str != by_reader {
                    out.fail(
                        "str_vs_reader",
                        format!("from_str gives {}, Parser::make(reader).parse_value() gives {} on the same bytes   t={text:?}", if by_str.is_ok() { "a value" } else { "an error" }, if by_reader.is_ok() { if by_str.is_ok() { "another value" } else { "a value" } } else { "an error" }),
                    );
                }
            }
            let v = match from_str(&text) {
                Ok(v) => v,
                Err(_) => {
                    out.stat("z:rejected");
                    out.req(format!("C11 dec {}", vx::hex(&bytes)), "err".into());
                    return;
                }
            };
            out.nontrivial = true;
            out.stat("z:accepted");
            out.req(format!("C11 dec {}", vx::hex(&bytes)), format!("ok {}", vx::show(&v)));
            // re-encode
            match to_zinc_string(&v) {
                Err(e) => out.fail("reencode_err", format!("decoded value cannot be encoded: {e}")),
                Ok(t2) => {
                    out.req(format!("C11 enc {}", vx::show(&v)), format!("ok {}", vx::h(&t2)));
                    match from_str(&t2) {
                        Err(e) => out.fail("reencode_unreadable", format!("decode(encode(decode(t))) fails: {e}   t={text:?} t'={t2:?}")),
                        Ok(v2) => {
                            // the model's second decode must be the implementation's (so that the model's
                            // stability on this text, a theorem where `stableCert` holds, is the code's)
                            if t2.len() <= 4000 {
                                out.req(format!("C11 dec {}", vx::hex(t2.as_bytes())), format!("ok {}", vx::show(&v2)));
                            }
                            if let Some(d) = same::diff(&v, &v2, "v") {
                                out.fail("reencode_unstable", format!("{d}   t={text:?} t'={t2:?}"));
                            }
                        }
                    }
                }
            }
            // stream = buffer
            let base = decode_bytes(&bytes).map(|v| vx::show(&v));
            let base_rows = rows_via(&bytes, usize::MAX, 0);
            // parse_grid is the collected lazy iterator: same rows, same order
            if let (Value::Grid(g), true) = (&v, text.starts_with("ver")) {
                let whole: Vec<String> = g.rows.iter().map(|r| vx::show(&Value::Dict(r.clone()))).collect();
                if base_rows.as_ref() != Some(&whole) {
                    out.fail("grid_ne_iterator", format!("from_str has {} rows, parse_grid_iterator yields {:?} rows   t={text:?}", whole.len(), base_rows.as_ref().map(|r| r.len())));
                }
                // the iterator's other ways of moving on - nth, skip, step_by, last - hand out the same rows as next()
                if whole.len() >= 2 {
                    let fresh = |f: &mut dyn FnMut(&mut dyn Iterator<Item = Result<Dict, std::io::Error>>) -> Vec<String>| -> Option<Vec<String>> {
                        let mut rd = std::io::Cursor::new(bytes.as_slice());
                        let mut p = Parser::make(&mut rd).ok()?;
                        let mut it = parse_grid_iterator(&mut p).ok()?;
                        Some(f(&mut it))
                    };
                    let show = |r: Option<Result<Dict, std::io::Error>>| match r {
                        Some(Ok(d)) => vx::show(&Value::Dict(d)),
                        Some(Err(_)) => "e".to_string(),
                        None => "end".to_string(),
                    };
                    let k = 1 + whole.len() / 3;
                    let nth = fresh(&mut |it| vec![show(it.nth(k)), show(it.next())]);
                    let want_nth = vec![whole.get(k).cloned().unwrap_or("end".into()), whole.get(k + 1).cloned().unwrap_or("end".into())];
                    if nth.as_ref() != Some(&want_nth) {
                        out.fail("grid_ne_iterator", format!("nth({k}) then next() yield {nth:?}, rows {k} and {} of the grid are {want_nth:?}   t={text:?}", k + 1));
                    }
                    let skipped = fresh(&mut |it| it.skip(1).step_by(2).map(|r| show(Some(r))).collect());
                    let want_skip: Vec<String> = whole.iter().skip(1).step_by(2).cloned().collect();
                    if skipped.as_ref() != Some(&want_skip) {
                        out.fail("grid_ne_iterator", format!("skip(1).step_by(2) yields {} rows, the grid has {} such rows   t={text:?}", skipped.as_ref().map_or(0, |v| v.len()), want_skip.len()));
                    }
                }
            }
            for (chunk, intr) in [(1usize, 0usize), (2, 3), (3, 2), (7, 0), (64, 5)] {
                let mut rd = FaultyReader { data: &bytes, pos: 0, chunk, intr, fail_at: None, calls: 0, transient: false, failed_once: false };
                let got = match Parser::make(&mut rd) {
                    Ok(mut p) => p.parse_value().map(|v| vx::show(&v)).map_err(|_| ()),
                    Err(_) => Err(()),
                };
                if got != base {
                    out.fail("chunk_variance", format!("chunk={chunk} intr={intr}: value differs from the buffer decode   t={text:?}"));
                }
                if text.starts_with("ver") && rows_via(&bytes, chunk, intr) != base_rows {
                    out.fail("chunk_variance_rows", format!("chunk={chunk} intr={intr}: rows differ from the buffer decode   t={text:?}"));
                }
            }
            if text.starts_with("ver") {
                out.req(format!("C11 rows {}", vx::hex(&bytes)), rows_reply_counted(&bytes));
            }
        }
        "j" => {
            let text = match String::from_utf8(bytes) {
                Ok(t) => t,
                Err(_) => return,
            };
            let v: Value = match serde_json::from_str(&text) {
                Ok(v) => v,
                Err(_) => {
                    out.stat("j:rejected");
                    return;
                }
            };
            out.nontrivial = true;
            out.stat("j:accepted");
            match serde_json::to_string(&v) {
                Err(e) => out.fail("j_reencode_err", format!("decoded value cannot be encoded: {e}")),
                Ok(t2) => match serde_json::from_str::<Value>(&t2) {
                    Err(e) => out.fail("j_reencode_unreadable", format!("{e}   t={text:?} t'={t2:?}")),
                    Ok(v2) => {
                        if let Some(d) = same::diff(&v, &v2, "v") {
                            out.fail("j_reencode_unstable", format!("{d}   t={text:?} t'={t2:?}"));
                        }
                    }
                },
            }
        }
        "look" => {
            let ends: Vec<usize> = parts.filter_map(|s| s.parse().ok()).collect();
            out.nontrivial = true;
            let reply = rows_reply_counted(&bytes);
            out.req(format!("C11 rows {}", vx::hex(&bytes)), reply.clone());
            // consumed counts are the tokens following each `r`
            let toks: Vec<&str> = reply.split(' ').collect();
            let mut consumed: Vec<usize> = Vec::new();
            let mut i = 0;
            while i < toks.len() {
                if toks[i] == "row" {
                    if let Some(c) = toks.get(i + 1).and_then(|s| s.parse().ok()) {
                        consumed.push(c);
                    }
                }
                i += 1;
            }
            if consumed.len() != ends.len() {
                out.fail("look_rows", format!("{} rows handed out, {} laid out", consumed.len(), ends.len()));
                return;
            }
            for (k, (c, e)) in consumed.iter().zip(ends.iter()).enumerate() {
                out.stat("look:row");
                if *c > (*e + LOOKAHEAD).min(bytes.len()) {
                    out.fail("lookahead", format!("row {k} was handed out after {c} bytes; the first token after it ends at {e}"));
                }
            }
        }
        _ => out.fail("harness", format!("unknown mode {mode}")),
    }
}

/// lay out a grid text row by row and remember where the first token after each row ends
fn layout_grid(rng: &mut crate::rng::Rng, nrows: usize) -> (String, Vec<usize>) {
    let ncols = 1 + rng.below(4) as usize;
    let names: Vec<String> = (0..ncols).map(|i| format!("c{i}")).collect();
    let mut text = format!("ver:\"3.0\"\n{}\n", names.join(","));
    let cfg = Cfg::wf(1);
    let mut first_lens: Vec<usize> = Vec::new();
    let mut starts: Vec<usize> = Vec::new();
    for _ in 0..nrows {
        starts.push(text.len());
        let mut cells: Vec<String> = Vec::new();
        for c in 0..ncols {
            let v = gen::scalar(rng, &cfg);
            let t = if c > 0 && rng.chance(1, 6) { String::new() } else { to_zinc_string(&v).unwrap_or_else(|_| "N".into()) };
            cells.push(t);
        }
        // first lexer token of the line
        let first = if cells[0].is_empty() { 1 } else { cells[0].len() };
        first_lens.push(first);
        text.push_str(&cells.join(","));
        text.push('\n');
    }
    let end_line_start = text.len();
    text.push('\n');
    // ends[i] = end of the first token of the line after row i
    let mut ends = Vec::new();
    for i in 0..nrows {
        if i + 1 < nrows {
            ends.push(starts[i + 1] + first_lens[i + 1]);
        } else {
            ends.push(end_line_start + 1);
        }
    }
    (text, ends)
}

pub fn generate(ctx: &mut Ctx) {
    // accepted texts: spelled from values with random legal spellings
    let n = ctx.n(2500, 120_000);
    for i in 0..n {
        let mut rng = ctx.rng.fork();
        let cfg = Cfg::wf(if i % 10 == 0 { 5 } else { 3 });
        let v = if i % 3 == 0 { Value::Grid(gen::grid(&mut rng, &cfg, 0)) } else { gen::value(&mut rng, &cfg) };
        let mut t = spell::spell(&mut rng, &v);
        if i % 3 == 0 && rng.chance(1, 3) {
            // white space after the grid's closing empty line
            for _ in 0..1 + rng.below(3) {
                const WS: &[&str] = &["\n", "\n\n", " ", "\t", "\r\n", " \n"];
                let w: &str = *rng.pick::<&str>(WS);
                t.push_str(w);
            }
        }
        ctx.case("z:spelled", &format!("z {}", vx::h(&t)));
    }
    // something BEFORE the document: a byte order mark, blanks, line breaks, a NUL - whatever the buffer entry point does
    // with it (skip it, reject it) the reader entry points must do too
    for lead in ["\u{feff}", "\u{feff}\u{feff}", " ", "\n", "\r\n", "\t", "\u{0}", "\u{a0}", "\u{200b}", "\u{fffe}", "#"] {
        for doc in ["42kW", "\"s\"", "[1,2]", "{a:1}", "ver:\"3.0\"\na,b\n1,2\n3,4\n", "ver:\"3.0\" m:1\nid\n@a\n\n"] {
            ctx.case("z:lead", &format!("z {}", vx::h(&format!("{lead}{doc}"))));
        }
    }
    // grids without rows, with and without white space after them
    for head in ["a", "id,dis", "a,b,c", "a x:1", "a, b"] {
        for tail in ["\n", "\n\n", "\n\n\n", "\n\n \t", "\r\n\r\n\r\n", "\n\n\n\n", "\n \n", "\n\n1"] {
            ctx.case("z:norows", &format!("z {}", vx::h(&format!("ver:\"3.0\"\n{head}{tail}"))));
            ctx.case("z:norows", &format!("z {}", vx::h(&format!("ver:\"3.0\" m:1\n{head}\n1{tail}"))));
        }
    }
    // the library's own output and its mutants (accepted ones count)
    let docs = crate::c03::sample_docs(ctx, ctx.n(40, 300));
    for d in &docs {
        ctx.case("z:doc", &format!("z {}", vx::hex(d)));
    }
    let n = ctx.n(2500, 100_000);
    for _ in 0..n {
        let mut rng = ctx.rng.fork();
        let d = rng.pick(&docs).clone();
        let m = crate::c03::mutate_bytes(&mut rng, &d);
        ctx.case("z:mutant", &format!("z {}", vx::hex(&m)));
    }
    // timestamps in periods whose zone offset has seconds: written with the true offset (minutes) and, as an
    // accepted text whose offset does not fit the zone, with a whole-hour offset
    for dt in gen::lmt_datetimes() {
        let v = Value::DateTime(dt);
        if let Ok(t) = to_zinc_string(&v) {
            ctx.case("z:lmt", &format!("z {}", vx::h(&t)));
            ctx.case("z:lmt", &format!("z {}", vx::h(&format!("[{t}, {t}]"))));
            if let Some((head, zone)) = t.rsplit_once(' ') {
                if head.len() > 6 {
                    ctx.case("z:lmt", &format!("z {}", vx::h(&format!("{}+07:00 {zone}", &head[..head.len() - 6]))));
                }
            }
        }
        if let Ok(j) = serde_json::to_string(&v) {
            ctx.case("j:lmt", &format!("j {}", vx::h(&j)));
        }
    }
    // raw control characters inside a Uri are accepted by the reader: they must survive re-encoding
    for t in ["`a\tb`", "`\u{1}`", "[`a\u{1f}b`,\"x\"]", "ver:\"3.0\"\na\n`x\ty`\n"] {
        ctx.case("z:ctrl", &format!("z {}", vx::h(t)));
    }
    // texts nested as deep as the reader accepts, and a few levels either side, in every position a value can stand in:
    // top level, a tag of grid meta, a tag of column meta, a cell, a cell of a grid in a cell - what is accepted must be
    // written again and read back the same
    for d in 56usize..=66 {
        for (open, close, scalar) in [("[", "]", "1"), ("{a:", "}", "1"), ("[", "]", "[]"), ("[", "]", "{}")] {
            let nest = format!("{}{scalar}{}", open.repeat(d), close.repeat(d));
            for text in [
                nest.clone(),
                format!("ver:\"3.0\" m:{nest}\na\n1\n"),
                format!("ver:\"3.0\"\na k:{nest}\n1\n"),
                format!("ver:\"3.0\"\na\n{nest}\n"),
                format!("ver:\"3.0\"\na\n<<\nver:\"3.0\" m:{nest}\nb\n1\n>>\n"),
                format!("ver:\"3.0\" g:<<\nver:\"3.0\" m:{nest}\nb\n1\n>>\na\n1\n"),
            ] {
                ctx.case("z:edge", &format!("z {}", vx::h(&text)));
            }
        }
    }
    // corpus files shipped with the repository
    for f in ["/repo/benches/zinc/points.zinc", "/repo/tests/defs/defs.zinc"] {
        if let Ok(data) = std::fs::read(f) {
            let lim = if ctx.quick() { 60_000 } else { data.len() };
            // cut at a line end so that the text stays a grid
            let mut cut = lim.min(data.len());
            while cut > 0 && cut < data.len() && data[cut - 1] != b'\n' {
                cut -= 1;
            }
            if ctx.quick() {
                // the Lean driver walks lists: keep the correspondence part small
                let mut small = 4000.min(data.len());
                while small > 0 && data[small - 1] != b'\n' {
                    small -= 1;
                }
                ctx.case("z:corpus", &format!("z {}", vx::hex(&data[..small])));
            } else {
                ctx.case("z:corpus", &format!("z {}", vx::hex(&data[..cut])));
            }
        }
    }
    // Hayson
    let n = ctx.n(1500, 60_000);
    for _ in 0..n {
        let mut rng = ctx.rng.fork();
        let v = gen::value(&mut rng, &Cfg::any(3));
        if let Ok(j) = serde_json::to_string(&v) {
            let m = if rng.chance(2, 3) { j.into_bytes() } else { crate::c03::mutate_bytes(&mut rng, j.as_bytes()) };
            ctx.case("j", &format!("j {}", vx::hex(&m)));
        }
    }
    // Hayson documents written by the reference speller (optional members as the specification has them,
    // whatever the library's own writer would print)
    let n = ctx.n(1500, 60_000);
    for i in 0..n {
        let mut rng = ctx.rng.fork();
        let v = if i % 5 == 0 {
            // non-finite numbers with a unit, alone and nested
            let x = *rng.pick(&[f64::INFINITY, f64::NEG_INFINITY, f64::NAN]);
            let nv = Value::Number(Number { value: x, unit: Some(*rng.pick(gen::all_units_cached())) });
            match rng.below(3) {
                0 => nv,
                1 => Value::List(vec![Value::Marker, nv]),
                _ => {
                    let mut d = Dict::new();
                    d.insert("n".into(), nv);
                    Value::Dict(d)
                }
            }
        } else {
            gen::value(&mut rng, &Cfg::any(3))
        };
        let j = crate::jtok::to_text(&crate::jspell::spell(&mut rng, &v));
        ctx.case("j:spelled", &format!("j {}", vx::h(&j)));
    }
    // look-ahead of the lazy row iterator
    let n = ctx.n(300, 6000);
    for i in 0..n {
        let mut rng = ctx.rng.fork();
        let nrows = if i % 50 == 0 { 400 } else { 1 + rng.below(12) as usize };
        let (text, ends) = layout_grid(&mut rng, nrows);
        let e: Vec<String> = ends.iter().map(|x| x.to_string()).collect();
        ctx.case("look", &format!("look {} {}", vx::h(&text), e.join(" ")));
    }
}

// ---------------------------------------------------------------------------------------------
// table by execution (`hsverif dump scanread`): the second source of `Hs/Gen/ScannerRead.lean`.  gen/scanner_read.py
// lists the uses of the reader in the TEXT of scanner.rs; when that text no longer has the shape it knows, the
// sizes of the buffers handed to the reader are measured here: every Zinc text of the corpus (and the spelled /
// mutated ones of a fixed seed) is decoded through a reader that records the length of each buffer it is given.
// ---------------------------------------------------------------------------------------------
struct SizeRecorder<'a> {
    data: &'a [u8],
    pos: usize,
    sizes: std::rc::Rc<std::cell::RefCell<std::collections::BTreeMap<usize, u64>>>,
}
impl<'a> std::io::Read for SizeRecorder<'a> {
    fn read(&mut self, buf: &mut [u8]) -> std::io::Result<usize> {
        *self.sizes.borrow_mut().entry(buf.len()).or_insert(0) += 1;
        let n = buf.len().min(self.data.len() - self.pos);
        buf[..n].copy_from_slice(&self.data[self.pos..self.pos + n]);
        self.pos += n;
        Ok(n)
    }
}

pub fn dump_tables() {
    let sizes = std::rc::Rc::new(std::cell::RefCell::new(std::collections::BTreeMap::new()));
    let mut texts: Vec<Vec<u8>> = vec![
        b"ver:\"3.0\" a:1\nb,c dis:\"x\"\n1,\"s\"\n2020-01-01T00:00:00Z,[1,2,{a:<<\nver:\"3.0\"\nx\n1\n>>}]\n\n".to_vec(),
        b"[1e10kW, -3.5, 2021-03-04, 12:30:00.5, C(1,2), Bin(\"x\"), `u`, ^s, @r \"d\", NA, M, R, N, T, F, INF, NaN]".to_vec(),
        b"{a:1 b c:\"\\u00e9\"}".to_vec(),
        b"".to_vec(),
        b"\xff\xfe garbage".to_vec(),
    ];
    let mut rng = crate::rng::Rng::new(11);
    for _ in 0..200 {
        let v = gen::value(&mut rng, &Cfg::wf(3));
        if let Ok(t) = to_zinc_string(&v) {
            let mut b = t.into_bytes();
            texts.push(b.clone());
            if !b.is_empty() {
                let k = rng.below(b.len() as u64) as usize;
                b.truncate(k);
                texts.push(b);
            }
        }
    }
    let mut docs = 0u64;
    for t in &texts {
        let mut rd = SizeRecorder { data: t, pos: 0, sizes: sizes.clone() };
        let _ = std::panic::catch_unwind(std::panic::AssertUnwindSafe(|| {
            if let Ok(mut p) = Parser::make(&mut rd) {
                let _ = p.parse_value();
            }
        }));
        let mut rd = SizeRecorder { data: t, pos: 0, sizes: sizes.clone() };
        let _ = std::panic::catch_unwind(std::panic::AssertUnwindSafe(|| {
            if let Ok(mut p) = Parser::make(&mut rd) {
                if let Ok(it) = parse_grid_iterator(&mut p) {
                    for _ in it.take(10000) {}
                }
            }
        }));
        docs += 1;
    }
    let m = sizes.borrow();
    println!(
        "{{\"docs\":{},\"sizes\":[{}]}}",
        docs,
        m.iter().map(|(k, v)| format!("[{k},{v}]")).collect::<Vec<_>>().join(",")
    );
}
