//! C02 — Hayson (JSON) encode -> decode returns the original value.
//!
//! input: VX of one value; label `wf…` = well-formed (exact round trip required), `any…` = model fidelity.
//! Correspondence: `C02 jenc V` -> `ok J` (document order of serde_json::to_string's text);
//!                 `C02 jdec J` -> `ok V'` | `err` (serde_json::from_str on that text).
//! Oracles: all six entry points (to_string/to_vec/to_value, from_str/from_slice/from_value) agree and
//! give back the value in every component; each typed (De)Serialize impl accepts exactly its kind.

use crate::ctx::{CaseOut, Ctx};
use crate::gen::{self, Cfg};
use crate::jtok;
use crate::same;
use crate::vx;
use libhaystack::val::*;

pub fn jdec_reply(text: &str) -> (String, Option<Value>) {
    match serde_json::from_str::<Value>(text) {
        Ok(v) => (format!("ok {}", vx::show(&v)), Some(v)),
        Err(_) => ("err".into(), None),
    }
}

fn typed_checks(v: &Value, text: &str, out: &mut CaseOut) {
    macro_rules! typed {
        ($t:ty, $variant:pat, $name:expr) => {{
            let r: Result<$t, _> = serde_json::from_str(text);
            let should = matches!(v, $variant);
            if r.is_ok() != should {
                out.fail("typed_accepts", format!("{}: deserialising {text} as {} gives ok={}", crate::c01::kind_name(v), $name, r.is_ok()));
            }
            if let Ok(x) = r {
                match serde_json::to_string(&x) {
                    Ok(t2) => {
                        if t2 != text {
                            out.fail("typed_reencode", format!("{} re-serialises {text} as {t2}", $name));
                        }
                    }
                    Err(e) => out.fail("typed_reencode", format!("{}: {e}", $name)),
                }
            }
        }};
    }
    typed!(Marker, Value::Marker, "Marker");
    typed!(Remove, Value::Remove, "Remove");
    typed!(Na, Value::Na, "Na");
    typed!(Number, Value::Number(_), "Number");
    {
        // Str has Deserialize only
        let r: Result<Str, _> = serde_json::from_str(text);
        if r.is_ok() != matches!(v, Value::Str(_)) {
            out.fail("typed_accepts", format!("{}: deserialising {text} as Str gives ok={}", crate::c01::kind_name(v), r.is_ok()));
        }
    }
    typed!(Ref, Value::Ref(_), "Ref");
    typed!(Uri, Value::Uri(_), "Uri");
    typed!(Symbol, Value::Symbol(_), "Symbol");
    typed!(Date, Value::Date(_), "Date");
    typed!(Time, Value::Time(_), "Time");
    typed!(DateTime, Value::DateTime(_), "DateTime");
    typed!(Coord, Value::Coord(_), "Coord");
    typed!(XStr, Value::XStr(_), "XStr");
    typed!(Dict, Value::Dict(_), "Dict");
    typed!(Grid, Value::Grid(_), "Grid");
}

/// a well-formed value nested `depth` levels deep: lists, dicts, grids (or the three in turn) around a Number
pub fn wf_chain(kind: &str, depth: usize) -> Value {
    let mut v = Value::make_number(1.5);
    for i in 0..depth {
        let k = if kind == "mix" { ["list", "dict", "grid"][i % 3] } else { kind };
        v = match k {
            "list" => Value::List(vec![v, Value::make_str("x")]),
            "dict" => {
                let mut d = Dict::new();
                d.insert("a".into(), v);
                d.insert("m".into(), Value::Marker);
                Value::Dict(d)
            }
            _ => {
                let mut d = Dict::new();
                d.insert("a".into(), v);
                Value::Grid(Grid { meta: None, columns: vec![Column { name: "a".into(), meta: None }], rows: vec![d], ver: "3.0".into() })
            }
        };
    }
    v
}

/// Documents the decoder must reject, the fault sitting INSIDE nested arrays / objects / grid rows (so that the error
/// unwinds through every container visitor) - decoded `rounds` times on the calling thread.  Whatever the decoder keeps
/// between calls (a depth counter, a scratch buffer) has seen some thousand aborted containers afterwards; the caller
/// then decodes well-formed documents on the same thread.
pub fn rejected_documents(rounds: usize, out: &mut CaseOut) {
    const BAD: &[&str] = &[
        r#"[[[{"_kind":"nope"}]]]"#,
        r#"[1,[2,[3,{"_kind":"number","val":1,"unit":"noSuchUnit"}]]]"#,
        r#"{"a":[[{"_kind":"ref"}]]}"#,
        r#"{"_kind":"grid","meta":{"ver":"3.0"},"cols":[{"name":"a"}],"rows":[{"a":[[{"_kind":"date","val":"x"}]]}]}"#,
        r#"[[[[[[[[1,"#,
        r#"[[{"_kind":"dict","a":[{"_kind":"time","val":"25:00:00"}]}]]"#,
        r#"{"a":{"b":{"c":[{"_kind":"coord","lat":"x","lng":1}]}}}"#,
        r#"[[],[[]],[[[{"_kind":"xstr","type":1,"val":"x"}]]]]"#,
        r#"[{"_kind":"dateTime","val":"2021-01-01T00:00:00Z","tz":"Nowhere/Land"}]"#,
        r#"[[[[[[[[[[[[{"_kind":"symbol"}]]]]]]]]]]]]"#,
    ];
    for _ in 0..rounds {
        for b in BAD {
            if serde_json::from_str::<Value>(b).is_ok() {
                out.fail("harness", format!("a document meant to be rejected is accepted: {b}"));
            }
        }
    }
    out.stat("history_of_rejected_documents");
}

pub fn exec(label: &str, input: &str, out: &mut CaseOut) {
    let v = match vx::parse(input) {
        Some(v) => v,
        None => return out.fail("harness", "unparsable VX input".into()),
    };
    out.nontrivial = true;
    out.stat(&format!("kind:{}", crate::c01::kind_name(&v)));
    // `hist:` cases: the same round trip AFTER a history of rejected documents on this thread
    let hist = label.starts_with("hist");
    if hist {
        rejected_documents(40, out);
    }
    let wf = label.starts_with("wf") || hist;
    let text = match serde_json::to_string(&v) {
        Ok(t) => t,
        Err(e) => {
            if wf {
                out.fail("enc_err", format!("serde_json::to_string failed: {e}"));
            }
            return;
        }
    };
    // entry points agree
    match serde_json::to_vec(&v) {
        Ok(b) if b == text.as_bytes() => {}
        _ => out.fail("entry_points", "to_vec differs from to_string".into()),
    }
    let tree = serde_json::to_value(&v);
    match jtok::parse(&text) {
        Some(j) => out.req(format!("C02 jenc {input}"), format!("ok {}", jtok::show_reply(&j))),
        None => out.fail("harness", format!("own JSON reader rejects {text}")),
    }
    let (reply, back) = jdec_reply(&text);
    if let Some(j) = jtok::parse(&text) {
        out.req(format!("C02 jdec {}", jtok::show_request(&j)), reply);
    }
    let from_slice: Option<Value> = serde_json::from_slice(text.as_bytes()).ok();
    let from_value: Option<Value> = tree.ok().and_then(|t| serde_json::from_value(t).ok());
    for (name, got) in [("from_slice", &from_slice), ("from_value(to_value)", &from_value)] {
        match (&back, got) {
            (Some(a), Some(b)) => {
                if let Some(d) = same::diff(a, b, "v") {
                    out.fail("entry_points", format!("{name} differs from from_str: {d}"));
                }
            }
            (None, None) => {}
            _ => out.fail("entry_points", format!("{name} and from_str disagree on acceptance of {text}")),
        }
    }
    if wf {
        match &back {
            None => out.fail("rt_decode_err", format!("decoder rejects the encoder's output {text}")),
            Some(b) => {
                if let Some(d) = same::diff(&v, b, "v") {
                    out.fail("rt_mismatch", format!("{d}   (json {text})"));
                }
            }
        }
        typed_checks(&v, &text, out);
    }
}

pub fn generate(ctx: &mut Ctx) {
    for v in crate::c01::extreme_numbers().into_iter().chain(crate::c01::named_cases()) {
        ctx.case("wf:named", &vx::show(&v));
    }
    // round trips that follow a history of rejected documents on the same thread: lists, dicts and grids nested a
    // few and a few dozen levels deep
    for depth in [1usize, 2, 5, 20, 40, 60] {
        for kind in ["list", "dict", "grid", "mix"] {
            // serde_json refuses text nested deeper than 128: a grid level costs three JSON levels
            if (kind == "grid" && depth > 20) || (kind == "mix" && depth > 40) {
                continue;
            }
            ctx.case("hist:chain", &vx::show(&wf_chain(kind, depth)));
        }
    }
    for v in crate::c01::named_cases().into_iter().take(12) {
        ctx.case("hist:named", &vx::show(&v));
    }
    // numbers: the magnitudes the property names
    for x in gen::F64_EDGES.iter().copied().chain([f64::NAN, f64::INFINITY, f64::NEG_INFINITY]) {
        ctx.case("wf:num", &vx::show(&Value::make_number(x)));
        if x.is_finite() {
            ctx.case("wf:num", &vx::show(&Value::Number(Number { value: x, unit: libhaystack::units::get_unit("kW") })));
        }
        ctx.case("wf:coordnum", &vx::show(&Value::List(vec![Value::make_number(x), Value::make_number(-x)])));
    }
    for (i, u) in gen::all_units_cached().iter().enumerate() {
        let x = gen::F64_EDGES[i % gen::F64_EDGES.len()];
        ctx.case("wf:unit", &vx::show(&Value::Number(Number { value: x, unit: Some(u) })));
    }
    {
        use chrono::TimeZone;
        let zones = gen::zones_cached(true).clone();
        let step = if ctx.quick() { 7 } else { 1 };
        for (i, z) in zones.iter().enumerate() {
            if i % step != 0 {
                continue;
            }
            let secs = 315_532_800 + (i as i64) * 4_000_003;
            let dt = z.timestamp_opt(secs, (i as u32 % 3) * 250_000_000).single().unwrap();
            ctx.case("wf:zone", &vx::show(&Value::DateTime(DateTime::from(dt))));
        }
    }
    // the seconds around daylight-saving transitions, incl. the repeated local hour
    for dt in gen::dst_edge_datetimes().into_iter().chain(gen::leap_datetimes()) {
        ctx.case("wf:dst", &vx::show(&Value::DateTime(dt)));
    }
    // zone offsets with seconds (local mean time): the written offset has minute precision
    for dt in gen::lmt_datetimes() {
        ctx.case("wf:lmt", &vx::show(&Value::DateTime(dt)));
    }
    let total = ctx.n(4000, 200_000);
    for i in 0..total {
        let mut rng = ctx.rng.fork();
        let depth = if i % 10 == 0 { 6 } else { 3 };
        let v = gen::value(&mut rng, &Cfg::wf(depth));
        ctx.case("wf:rand", &vx::show(&v));
    }
    let total = ctx.n(1000, 30_000);
    for _ in 0..total {
        let mut rng = ctx.rng.fork();
        let v = gen::value(&mut rng, &Cfg::any(3));
        ctx.case("any:rand", &vx::show(&v));
    }
}
