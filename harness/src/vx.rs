//! VX exchange format (DESIGN.md Appendix A): Value <-> space separated tokens.

use chrono::{Datelike, NaiveDate, NaiveTime, Offset, SecondsFormat, TimeZone, Timelike};
use libhaystack::units::get_unit;
use libhaystack::val::*;
use std::io::{BufRead, Write};

pub fn hex(bytes: &[u8]) -> String {
    if bytes.is_empty() {
        return "=".into();
    }
    let mut s = String::with_capacity(bytes.len() * 2);
    for b in bytes {
        s.push_str(&format!("{b:02x}"));
    }
    s
}
pub fn h(s: &str) -> String {
    hex(s.as_bytes())
}
pub fn ho(s: &Option<String>) -> String {
    match s {
        None => "-".into(),
        Some(s) => h(s),
    }
}
pub fn unhex(s: &str) -> Option<Vec<u8>> {
    if s == "=" {
        return Some(vec![]);
    }
    if s.len() % 2 != 0 {
        return None;
    }
    let b = s.as_bytes();
    let mut out = Vec::with_capacity(b.len() / 2);
    for i in (0..b.len()).step_by(2) {
        let hi = (b[i] as char).to_digit(16)?;
        let lo = (b[i + 1] as char).to_digit(16)?;
        out.push((hi * 16 + lo) as u8);
    }
    Some(out)
}
pub fn unh(s: &str) -> Option<String> {
    String::from_utf8(unhex(s)?).ok()
}

pub fn flt(x: f64) -> String {
    format!("{:016x} {}", x.to_bits(), h(&format!("{x}")))
}

pub fn w_date(d: &NaiveDate, out: &mut Vec<String>) {
    out.push("d".into());
    out.push(d.year().to_string());
    out.push(d.month().to_string());
    out.push(d.day().to_string());
    out.push(h(&format!("{d:?}")));
}
pub fn w_time(t: &NaiveTime, out: &mut Vec<String>) {
    out.push("t".into());
    out.push(t.hour().to_string());
    out.push(t.minute().to_string());
    out.push(t.second().to_string());
    out.push(t.nanosecond().to_string());
    out.push(h(&format!("{t:?}")));
}

pub fn w_val(v: &Value, out: &mut Vec<String>) {
    match v {
        Value::Null => out.push("N".into()),
        Value::Remove => out.push("R".into()),
        Value::Marker => out.push("M".into()),
        Value::Na => out.push("A".into()),
        Value::Bool(b) => out.push(if b.value { "B1".into() } else { "B0".into() }),
        Value::Number(n) => {
            out.push("n".into());
            out.push(flt(n.value));
            out.push(match n.unit {
                None => "-".into(),
                Some(u) => h(u.symbol()),
            });
        }
        Value::Str(s) => {
            out.push("s".into());
            out.push(h(&s.value));
        }
        Value::Uri(s) => {
            out.push("u".into());
            out.push(h(&s.value));
        }
        Value::Symbol(s) => {
            out.push("y".into());
            out.push(h(&s.value));
        }
        Value::Ref(r) => {
            out.push("r".into());
            out.push(h(&r.value));
            out.push(ho(&r.dis));
        }
        Value::XStr(x) => {
            out.push("x".into());
            out.push(h(&x.r#type));
            out.push(h(&x.value));
        }
        Value::Date(d) => w_date(d, out),
        Value::Time(t) => w_time(t, out),
        Value::DateTime(dt) => {
            out.push("T".into());
            out.push(dt.timestamp().to_string());
            out.push(dt.timestamp_subsec_nanos().to_string());
            out.push(dt.offset().fix().local_minus_utc().to_string());
            out.push(h(&dt.timezone_short_name()));
            out.push(h(dt.timezone().name()));
            out.push(h(&dt.to_rfc3339_opts(SecondsFormat::AutoSi, true)));
        }
        Value::Coord(c) => {
            out.push("c".into());
            out.push(flt(c.lat));
            out.push(flt(c.long));
        }
        Value::List(l) => {
            out.push("[".into());
            out.push(l.len().to_string());
            for e in l {
                w_val(e, out);
            }
        }
        Value::Dict(d) => w_dict(d, out),
        Value::Grid(g) => {
            out.push("G".into());
            w_odict(&g.meta, out);
            out.push(g.columns.len().to_string());
            for c in &g.columns {
                out.push(h(&c.name));
                w_odict(&c.meta, out);
            }
            out.push(g.rows.len().to_string());
            for r in &g.rows {
                w_dict(r, out);
            }
            out.push(h(&g.ver));
        }
    }
}
pub fn w_dict(d: &Dict, out: &mut Vec<String>) {
    out.push("{".into());
    out.push(d.len().to_string());
    for (k, v) in d.iter() {
        out.push(h(k));
        w_val(v, out);
    }
}
pub fn w_odict(d: &Option<Dict>, out: &mut Vec<String>) {
    match d {
        None => out.push("-".into()),
        Some(d) => w_dict(d, out),
    }
}
pub fn show(v: &Value) -> String {
    let mut out = Vec::new();
    w_val(v, &mut out);
    out.join(" ")
}

/// Token reader
pub struct Rd<'a> {
    toks: Vec<&'a str>,
    pos: usize,
}
impl<'a> Rd<'a> {
    pub fn new(s: &'a str) -> Rd<'a> {
        Rd { toks: s.split(' ').filter(|t| !t.is_empty()).collect(), pos: 0 }
    }
    pub fn tok(&mut self) -> Option<&'a str> {
        let t = self.toks.get(self.pos).copied();
        self.pos += 1;
        t
    }
    pub fn peek(&self) -> Option<&'a str> {
        self.toks.get(self.pos).copied()
    }
    pub fn done(&self) -> bool {
        self.pos >= self.toks.len()
    }
    pub fn num<T: std::str::FromStr>(&mut self) -> Option<T> {
        self.tok()?.parse().ok()
    }
    pub fn hs(&mut self) -> Option<String> {
        unh(self.tok()?)
    }
    pub fn hbytes(&mut self) -> Option<Vec<u8>> {
        unhex(self.tok()?)
    }
    pub fn hos(&mut self) -> Option<Option<String>> {
        let t = self.tok()?;
        if t == "-" {
            Some(None)
        } else {
            Some(Some(unh(t)?))
        }
    }
    pub fn flt(&mut self) -> Option<f64> {
        let bits = u64::from_str_radix(self.tok()?, 16).ok()?;
        let _txt = self.tok()?;
        Some(f64::from_bits(bits))
    }
    pub fn val(&mut self) -> Option<Value> {
        let t = self.tok()?;
        Some(match t {
            "N" => Value::Null,
            "R" => Value::Remove,
            "M" => Value::Marker,
            "A" => Value::Na,
            "B0" => Value::make_false(),
            "B1" => Value::make_true(),
            "n" => {
                let x = self.flt()?;
                let u = self.hos()?;
                match u {
                    None => Value::Number(Number { value: x, unit: None }),
                    Some(u) => Value::Number(Number { value: x, unit: Some(get_unit(&u)?) }),
                }
            }
            "s" => Value::Str(Str { value: self.hs()? }),
            "u" => Value::Uri(Uri { value: self.hs()? }),
            "y" => Value::Symbol(Symbol { value: self.hs()? }),
            "r" => {
                let id = self.hs()?;
                let dis = self.hos()?;
                Value::Ref(Ref { value: id, dis })
            }
            "x" => {
                let ty = self.hs()?;
                let v = self.hs()?;
                Value::XStr(XStr { r#type: ty, value: v })
            }
            "d" => {
                let y: i32 = self.num()?;
                let m: u32 = self.num()?;
                let d: u32 = self.num()?;
                let _ = self.tok()?;
                Value::Date(Date::from(NaiveDate::from_ymd_opt(y, m, d)?))
            }
            "t" => {
                let hh: u32 = self.num()?;
                let mm: u32 = self.num()?;
                let ss: u32 = self.num()?;
                let ns: u32 = self.num()?;
                let _ = self.tok()?;
                Value::Time(Time::from(NaiveTime::from_hms_nano_opt(hh, mm, ss, ns)?))
            }
            "T" => {
                let secs: i64 = self.num()?;
                let ns: u32 = self.num()?;
                let _off: i64 = self.num()?;
                let _zone = self.tok()?;
                let tzid = self.hs()?;
                let _txt = self.tok()?;
                let tz: chrono_tz::Tz = tzid.parse().ok()?;
                let dt = tz.timestamp_opt(secs, ns).single()?;
                Value::DateTime(DateTime::from(dt))
            }
            "c" => {
                let a = self.flt()?;
                let b = self.flt()?;
                Value::Coord(Coord { lat: a, long: b })
            }
            "[" => {
                let k: usize = self.num()?;
                let mut l = Vec::with_capacity(k.min(1 << 16));
                for _ in 0..k {
                    l.push(self.val()?);
                }
                Value::List(l)
            }
            "{" => Value::Dict(self.dict_body()?),
            "G" => {
                let meta = self.odict()?;
                let nc: usize = self.num()?;
                let mut columns = Vec::new();
                for _ in 0..nc {
                    let name = self.hs()?;
                    let meta = self.odict()?;
                    columns.push(Column { name, meta });
                }
                let nr: usize = self.num()?;
                let mut rows = Vec::new();
                for _ in 0..nr {
                    if self.tok()? != "{" {
                        return None;
                    }
                    rows.push(self.dict_body()?);
                }
                let ver = self.hs()?;
                Value::Grid(Grid { meta, columns, rows, ver })
            }
            _ => return None,
        })
    }
    pub fn dict_body(&mut self) -> Option<Dict> {
        let k: usize = self.num()?;
        let mut d = Dict::new();
        for _ in 0..k {
            let key = self.hs()?;
            let v = self.val()?;
            d.insert(key, v);
        }
        Some(d)
    }
    pub fn dict(&mut self) -> Option<Dict> {
        if self.tok()? != "{" {
            return None;
        }
        self.dict_body()
    }
    pub fn odict(&mut self) -> Option<Option<Dict>> {
        let t = self.tok()?;
        if t == "-" {
            Some(None)
        } else if t == "{" {
            Some(Some(self.dict_body()?))
        } else {
            None
        }
    }
}

pub fn parse(s: &str) -> Option<Value> {
    let mut rd = Rd::new(s);
    let v = rd.val()?;
    if rd.done() {
        Some(v)
    } else {
        None
    }
}

/// `hsverif canon`: model replies may contain number lexemes `nl H(decimal) H(exponent)|- U`
/// (what the model would hand to `str::parse::<f64>`); rewrite them to `n BITS H(display) U`
/// by evaluating with Rust std exactly as `parse_number` does, so that replies are comparable.
/// Coordinates likewise: `cl H(lat) H(lng)`.
pub fn canon_stdin() {
    let stdin = std::io::stdin();
    let stdout = std::io::stdout();
    let mut out = std::io::BufWriter::new(stdout.lock());
    for line in stdin.lock().lines() {
        let line = line.unwrap_or_default();
        let toks: Vec<&str> = line.split(' ').collect();
        let mut res: Vec<String> = Vec::with_capacity(toks.len());
        let mut i = 0;
        let mut bad = false;
        while i < toks.len() {
            if toks[i] == "nl" && i + 2 < toks.len() {
                // `nl H(lexeme) U`: lexeme = decimal [ 'e' sign? exponent ]; evaluate as parse_number does (decimal text + exponent, parsed once):
                // format!("{decimal}{exp}") with decimal and exponent printed through f64 Display
                let lex = unh(toks[i + 1]).unwrap_or_default();
                let (dec, exp) = match lex.find('e') {
                    Some(k) => (lex[..k].to_string(), Some(lex[k + 1..].to_string())),
                    None => (lex.clone(), None),
                };
                match dec.parse::<f64>() {
                    Ok(_) => {
                        // the decimal part goes into the final text AS WRITTEN (one rounding, fix in /repo); only the
                        // exponent digits are printed through f64 Display
                        let txt = match exp {
                            None => Some(dec.clone()),
                            Some(e) => {
                                let (sign, digits) = if e.starts_with('+') || e.starts_with('-') {
                                    (e[..1].to_string(), e[1..].to_string())
                                } else {
                                    (String::new(), e)
                                };
                                digits.parse::<f64>().ok().map(|x| format!("{dec}e{sign}{x}"))
                            }
                        };
                        match txt.and_then(|t| t.parse::<f64>().ok()) {
                            Some(x) => {
                                res.push("n".into());
                                res.push(flt(x));
                                res.push(toks[i + 2].to_string());
                            }
                            None => bad = true,
                        }
                    }
                    Err(_) => bad = true,
                }
                i += 3;
            } else if toks[i] == "dl" && i + 1 < toks.len() {
                match unh(toks[i + 1]).unwrap_or_default().parse::<Date>() {
                    Ok(d) => w_val(&Value::Date(d), &mut res),
                    Err(_) => bad = true,
                }
                i += 2;
            } else if toks[i] == "tl" && i + 1 < toks.len() {
                match unh(toks[i + 1]).unwrap_or_default().parse::<Time>() {
                    Ok(t) => w_val(&Value::Time(t), &mut res),
                    Err(_) => bad = true,
                }
                i += 2;
            } else if toks[i] == "Tj" && i + 2 < toks.len() {
                // Hayson dateTime token: chrono / chrono-tz evaluate it through the real reader (as for `Tl`)
                let val = unh(toks[i + 1]).unwrap_or_default();
                let tz = if toks[i + 2] == "-" { None } else { unh(toks[i + 2]) };
                let mut m = serde_json::Map::new();
                m.insert("_kind".into(), serde_json::Value::String("dateTime".into()));
                m.insert("val".into(), serde_json::Value::String(val));
                if let Some(tz) = tz {
                    m.insert("tz".into(), serde_json::Value::String(tz));
                }
                match serde_json::from_value::<Value>(serde_json::Value::Object(m)) {
                    Ok(v @ Value::DateTime(_)) => w_val(&v, &mut res),
                    _ => bad = true,
                }
                i += 3;
            } else if toks[i] == "ns" && i + 2 < toks.len() {
                // `ns H(decimal text) U` (reference reader): the nearest double of the decimal text
                match unh(toks[i + 1]).unwrap_or_default().parse::<f64>() {
                    Ok(x) => {
                        res.push("n".into());
                        res.push(flt(x));
                        res.push(toks[i + 2].to_string());
                    }
                    Err(_) => bad = true,
                }
                i += 3;
            } else if toks[i] == "Tl" && i + 1 < toks.len() {
                // `Tl H(text)`: a timestamp token; chrono / chrono-tz (through the real reader) evaluate it
                let text = unh(toks[i + 1]).unwrap_or_default();
                match libhaystack::encoding::zinc::decode::from_str(&text) {
                    Ok(v @ Value::DateTime(_)) => w_val(&v, &mut res),
                    _ => bad = true,
                }
                i += 2;
            } else if toks[i] == "cl" && i + 2 < toks.len() {
                let a = unh(toks[i + 1]).unwrap_or_default().parse::<f64>();
                let b = unh(toks[i + 2]).unwrap_or_default().parse::<f64>();
                match (a, b) {
                    (Ok(a), Ok(b)) => {
                        res.push("c".into());
                        res.push(flt(a));
                        res.push(flt(b));
                    }
                    _ => bad = true,
                }
                i += 3;
            } else {
                res.push(toks[i].to_string());
                i += 1;
            }
        }
        if bad {
            let _ = writeln!(out, "err");
        } else {
            let _ = writeln!(out, "{}", res.join(" "));
        }
    }
}
