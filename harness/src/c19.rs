//! C19 — kinds, typed accessors and grid construction are coherent.
//!
//! labels / inputs
//!   val    VX value            all 18 `is_*` tests, HaystackKind of the value, all 20 `TryFrom<&Value>` impls
//!   get    H(key) {dict}       all 17 typed `HaystackDict` getters for `key`, plus id / safe_id / ts
//!   code   N                   `HaystackKind::try_from(N as u8)`           (all 256 codes on every run)
//!   name   H(text)             `HaystackKind::try_from(text)`              (all names + near misses)
//!   kinds  -                   the declared kinds with code, name and Display (exhaustive round trips)
//!   grid   -|{meta} [ k {row}… `Grid::make_from_dicts(_with_meta)`
//! Each case sends the matching `C19 <cmd> …` request to the model and checks the property's clauses
//! directly on the real code.

use crate::ctx::{CaseOut, Ctx};
use crate::gen::{self, Cfg};
use crate::rng::Rng;
use crate::vx::{self, Rd};
use libhaystack::val::kind::HaystackKind;
use libhaystack::val::*;

// ---------------------------------------------------------------------------------------------
// hand-written inventory (kept exhaustive by the wildcard-free matches below)
// ---------------------------------------------------------------------------------------------

/// index of the value's own variant in declaration order of `enum Value`
fn variant_index(v: &Value) -> usize {
    match v {
        Value::Null => 0,
        Value::Remove => 1,
        Value::Marker => 2,
        Value::Bool(_) => 3,
        Value::Na => 4,
        Value::Number(_) => 5,
        Value::Str(_) => 6,
        Value::Uri(_) => 7,
        Value::Ref(_) => 8,
        Value::Symbol(_) => 9,
        Value::Date(_) => 10,
        Value::Time(_) => 11,
        Value::DateTime(_) => 12,
        Value::Coord(_) => 13,
        Value::XStr(_) => 14,
        Value::List(_) => 15,
        Value::Dict(_) => 16,
        Value::Grid(_) => 17,
    }
}
const VARIANT_NAMES: [&str; 18] = [
    "Null", "Remove", "Marker", "Bool", "Na", "Number", "Str", "Uri", "Ref", "Symbol", "Date", "Time", "DateTime", "Coord",
    "XStr", "List", "Dict", "Grid",
];

type Pred = fn(&Value) -> bool;
/// (method, index of the variant it is named for)
const PREDS: [(&str, Pred, usize); 18] = [
    ("is_null", Value::is_null, 0),
    ("is_remove", Value::is_remove, 1),
    ("is_marker", Value::is_marker, 2),
    ("is_bool", Value::is_bool, 3),
    ("is_na", Value::is_na, 4),
    ("is_number", Value::is_number, 5),
    ("is_str", Value::is_str, 6),
    ("is_uri", Value::is_uri, 7),
    ("is_ref", Value::is_ref, 8),
    ("is_symbol", Value::is_symbol, 9),
    ("is_date", Value::is_date, 10),
    ("is_time", Value::is_time, 11),
    ("is_datetime", Value::is_datetime, 12),
    ("is_coord", Value::is_coord, 13),
    ("is_xstr", Value::is_xstr, 14),
    ("is_list", Value::is_list, 15),
    ("is_dict", Value::is_dict, 16),
    ("is_grid", Value::is_grid, 17),
];

const ALL_KINDS: [HaystackKind; 18] = [
    HaystackKind::Null,
    HaystackKind::Remove,
    HaystackKind::Marker,
    HaystackKind::Na,
    HaystackKind::Bool,
    HaystackKind::Number,
    HaystackKind::Str,
    HaystackKind::Uri,
    HaystackKind::Ref,
    HaystackKind::Symbol,
    HaystackKind::Date,
    HaystackKind::Time,
    HaystackKind::DateTime,
    HaystackKind::Coord,
    HaystackKind::XStr,
    HaystackKind::List,
    HaystackKind::Dict,
    HaystackKind::Grid,
];
/// no wildcard: a new kind makes this harness fail to build (reported by `check`)
fn kind_listed(k: HaystackKind) -> bool {
    match k {
        HaystackKind::Null
        | HaystackKind::Remove
        | HaystackKind::Marker
        | HaystackKind::Na
        | HaystackKind::Bool
        | HaystackKind::Number
        | HaystackKind::Str
        | HaystackKind::Uri
        | HaystackKind::Ref
        | HaystackKind::Symbol
        | HaystackKind::Date
        | HaystackKind::Time
        | HaystackKind::DateTime
        | HaystackKind::Coord
        | HaystackKind::XStr
        | HaystackKind::List
        | HaystackKind::Dict
        | HaystackKind::Grid => ALL_KINDS.contains(&k),
    }
}

fn items(mut v: Vec<(String, bool)>) -> String {
    v.sort();
    v.iter().map(|(n, b)| format!("{n}={}", *b as u8)).collect::<Vec<_>>().join(" ")
}

fn same(a: &Value, b: &Value) -> bool {
    vx::show(a) == vx::show(b)
}

// ---------------------------------------------------------------------------------------------
// val
// ---------------------------------------------------------------------------------------------

/// (target type, index of the variant it stands for, conversion succeeded, payload is the stored one)
fn conversions(v: &Value) -> Vec<(&'static str, usize, bool, bool)> {
    let mut r: Vec<(&'static str, usize, bool, bool)> = Vec::new();
    macro_rules! whole {
        ($name:expr, $t:ty, $idx:expr) => {
            match <$t>::try_from(v) {
                Ok(x) => r.push(($name, $idx, true, same(&Value::from(x), v))),
                Err(_) => r.push(($name, $idx, false, true)),
            }
        };
    }
    match bool::try_from(v) {
        Ok(b) => r.push(("bool", 3, true, matches!(v, Value::Bool(x) if x.value == b))),
        Err(_) => r.push(("bool", 3, false, true)),
    }
    whole!("Bool", Bool, 3);
    whole!("Coord", Coord, 13);
    whole!("Date", Date, 10);
    whole!("DateTime", DateTime, 12);
    whole!("Dict", Dict, 16);
    whole!("Grid", Grid, 17);
    whole!("List", List, 15);
    whole!("Marker", Marker, 2);
    whole!("Na", Na, 4);
    match f64::try_from(v) {
        Ok(x) => r.push(("f64", 5, true, matches!(v, Value::Number(n) if n.value.to_bits() == x.to_bits()))),
        Err(_) => r.push(("f64", 5, false, true)),
    }
    whole!("Number", Number, 5);
    whole!("Ref", Ref, 8);
    whole!("Remove", Remove, 1);
    match String::try_from(v) {
        Ok(s) => r.push(("String", 6, true, matches!(v, Value::Str(x) if x.value == s))),
        Err(_) => r.push(("String", 6, false, true)),
    }
    whole!("Str", Str, 6);
    whole!("Symbol", Symbol, 9);
    whole!("Time", Time, 11);
    whole!("Uri", Uri, 7);
    whole!("XStr", XStr, 14);
    r
}

fn exec_val(input: &str, out: &mut CaseOut) {
    let v = match vx::parse(input) {
        Some(v) => v,
        None => return out.fail("harness", "unparsable C19 val input".into()),
    };
    exec_val_v(v, out)
}

/// Numbers whose unit the exchange format cannot name: the database's DEFAULT_UNIT (no identifiers; what
/// `get_unit_or_default` and `"unknown".into()` hand out) stored through the public field, alone, in a dict, in a list
fn exec_du(out: &mut CaseOut) {
    let du: &'static libhaystack::units::Unit = &libhaystack::units::DEFAULT_UNIT;
    for x in [1.5f64, 0.0, -3.0, f64::NAN] {
        let n = Value::Number(Number { value: x, unit: Some(du) });
        exec_val_v(n.clone(), out);
        let mut d = Dict::new();
        d.insert("n".into(), n.clone());
        exec_val_v(Value::Dict(d), out);
        exec_val_v(Value::List(vec![n]), out);
    }
    // the model is not asked about these: the exchange format names units by symbol
    out.reqs.clear();
    // dicts that LOOK like Hayson objects (a `_kind` tag naming a kind): a dict all the same (model asked)
    for kind in ["number", "marker", "str", "ref", "grid", "list", "dict", "dateTime", "Number", "nope"] {
        let mut d = Dict::new();
        d.insert("_kind".into(), Value::make_str(kind));
        d.insert("val".into(), Value::make_number(1.0));
        exec_val_v(Value::Dict(d.clone()), out);
        exec_val_v(Value::List(vec![Value::Dict(d)]), out);
    }
}

fn exec_val_v(v: Value, out: &mut CaseOut) {
    out.nontrivial = true;
    let me = variant_index(&v);
    out.stat(&format!("kind:{}", VARIANT_NAMES[me]));
    // --- variant tests ---------------------------------------------------------------------
    let bits: Vec<(String, bool)> = PREDS.iter().map(|(n, f, _)| (n.to_string(), f(&v))).collect();
    let n_true = bits.iter().filter(|(_, b)| *b).count();
    if n_true != 1 {
        out.fail("not_exactly_one_kind", format!("{n_true} of the is_* tests are true for {v:?}"));
    }
    for (n, f, idx) in PREDS.iter() {
        if f(&v) != (*idx == me) {
            out.fail("pred_wrong_kind", format!("{n} answers {} for a {} value", f(&v), VARIANT_NAMES[me]));
        }
    }
    // --- HaystackKind ----------------------------------------------------------------------
    let kind = HaystackKind::from(&v);
    let code = kind as u8;
    let name: &'static str = kind.into();
    let display = kind.to_string();
    if HaystackKind::try_from(code) != Ok(kind) {
        out.fail("kind_code_rt", format!("{kind:?} as u8 = {code} but try_from({code}) = {:?}", HaystackKind::try_from(code)));
    }
    if HaystackKind::try_from(name) != Ok(kind) {
        out.fail("kind_name_rt", format!("{kind:?} is named {name:?} but try_from({name:?}) = {:?}", HaystackKind::try_from(name)));
    }
    if format!("{kind:?}") != VARIANT_NAMES[me] {
        out.fail("kind_not_variant", format!("a {} value is reported as kind {kind:?} (code {code})", VARIANT_NAMES[me]));
    }
    if display != name {
        out.fail("kind_display", format!("{kind:?} displays as {display:?} but is named {name:?}"));
    }
    out.req(
        format!("C19 preds {}", vx::show(&v)),
        format!("ok {} K {code} {} {} {}", items(bits), vx::h(&format!("{kind:?}")), vx::h(name), vx::h(&display)),
    );
    // --- TryFrom<&Value> -------------------------------------------------------------------
    let conv = conversions(&v);
    for (t, idx, ok, payload) in conv.iter() {
        if *ok != (*idx == me) {
            out.fail("tryfrom_kind_mismatch", format!("{t}::try_from(&{}) succeeded = {ok}", VARIANT_NAMES[me]));
        }
        if !*payload {
            out.fail("tryfrom_payload", format!("{t}::try_from returned something else than the stored payload of {v:?}"));
        }
    }
    out.req(
        format!("C19 conv {}", vx::show(&v)),
        format!("ok {}", items(conv.iter().map(|(t, _, ok, _)| (t.to_string(), *ok)).collect())),
    );
}

// ---------------------------------------------------------------------------------------------
// get
// ---------------------------------------------------------------------------------------------

fn exec_get(input: &str, out: &mut CaseOut) {
    let mut rd = Rd::new(input);
    let (key, d) = match (rd.hs(), rd.dict()) {
        (Some(k), Some(d)) => (k, d),
        _ => return out.fail("harness", "unparsable C19 get input".into()),
    };
    out.nontrivial = true;
    let stored = d.get(key.as_str());
    let me: Option<usize> = stored.map(variant_index);
    out.stat(match me {
        None => "get:absent",
        Some(_) => "get:present",
    });
    let k = key.as_str();
    let mut bits: Vec<(String, bool)> = Vec::new();
    // has_*: true iff the key holds that payload-free variant
    for (n, got, idx) in [("has_marker", d.has_marker(k), 2usize), ("has_na", d.has_na(k), 4), ("has_remove", d.has_remove(k), 1)] {
        if got != (me == Some(idx)) {
            out.fail("getter_kind_mismatch", format!("{n}({key:?}) = {got} but the entry is {:?}", me.map(|i| VARIANT_NAMES[i])));
        }
        bits.push((n.to_string(), got));
    }
    // get_*: Some iff the key holds that variant, and then a reference to the stored payload itself
    macro_rules! getter {
        ($n:expr, $call:expr, $idx:expr, $var:path) => {{
            let got = $call;
            if got.is_some() != (me == Some($idx)) {
                out.fail(
                    "getter_kind_mismatch",
                    format!("{}({key:?}).is_some() = {} but the entry is {:?}", $n, got.is_some(), me.map(|i| VARIANT_NAMES[i])),
                );
            }
            if let (Some(r), Some($var(p))) = (got, stored) {
                if !std::ptr::eq(r, p) {
                    out.fail("getter_payload", format!("{}({key:?}) does not point to the stored payload", $n));
                }
            }
            bits.push(($n.to_string(), got.is_some()));
        }};
    }
    getter!("get_bool", d.get_bool(k), 3, Value::Bool);
    getter!("get_num", d.get_num(k), 5, Value::Number);
    getter!("get_str", d.get_str(k), 6, Value::Str);
    getter!("get_xstr", d.get_xstr(k), 14, Value::XStr);
    getter!("get_ref", d.get_ref(k), 8, Value::Ref);
    getter!("get_uri", d.get_uri(k), 7, Value::Uri);
    getter!("get_symbol", d.get_symbol(k), 9, Value::Symbol);
    getter!("get_date", d.get_date(k), 10, Value::Date);
    getter!("get_time", d.get_time(k), 11, Value::Time);
    getter!("get_date_time", d.get_date_time(k), 12, Value::DateTime);
    getter!("get_coord", d.get_coord(k), 13, Value::Coord);
    getter!("get_dict", d.get_dict(k), 16, Value::Dict);
    getter!("get_list", d.get_list(k), 15, Value::List);
    getter!("get_grid", d.get_grid(k), 17, Value::Grid);
    // getters with a fixed key
    let mut keyed: Vec<(String, bool)> = Vec::new();
    let id_entry = d.get("id");
    let id_is_ref = matches!(id_entry, Some(Value::Ref(_)));
    match (d.id(), id_entry) {
        (Some(r), Some(Value::Ref(p))) if std::ptr::eq(r, p) => {}
        (None, e) if !matches!(e, Some(Value::Ref(_))) => {}
        (got, e) => out.fail("getter_kind_mismatch", format!("id() = {got:?} but the entry `id` is {e:?}")),
    }
    keyed.push(("id".into(), d.id().is_some()));
    let sid = d.safe_id();
    match id_entry {
        Some(Value::Ref(p)) => {
            if sid.value != p.value || sid.dis != p.dis {
                out.fail("getter_payload", format!("safe_id() = {sid:?} but the entry `id` is {p:?}"));
            }
        }
        e => {
            let def = Ref::default();
            if sid.value != def.value || sid.dis != def.dis {
                out.fail("getter_kind_mismatch", format!("safe_id() = {sid:?} but the entry `id` is {e:?}"));
            }
        }
    }
    keyed.push(("safe_id".into(), id_is_ref));
    let mod_entry = d.get("mod");
    match (d.ts(), mod_entry) {
        (Some(r), Some(Value::DateTime(p))) if std::ptr::eq(r, p) => {}
        (None, e) if !matches!(e, Some(Value::DateTime(_))) => {}
        (got, e) => out.fail("getter_kind_mismatch", format!("ts() = {got:?} but the entry `mod` is {e:?}")),
    }
    keyed.push(("ts".into(), d.ts().is_some()));
    // has / missing are the untyped pair
    if d.has(k) != stored.is_some() || d.missing(k) == stored.is_some() {
        out.fail("getter_kind_mismatch", format!("has({key:?}) / missing({key:?}) disagree with the entry"));
    }
    let mut toks = Vec::new();
    vx::w_dict(&d, &mut toks);
    out.req(format!("C19 get {} {}", vx::h(&key), toks.join(" ")), format!("ok {} | {}", items(bits), items(keyed)));
}

// ---------------------------------------------------------------------------------------------
// code / name / kinds
// ---------------------------------------------------------------------------------------------

fn exec_code(input: &str, out: &mut CaseOut) {
    let n: u16 = match input.trim().parse() {
        Ok(n) if n < 256 => n,
        _ => return out.fail("harness", "unparsable C19 code input".into()),
    };
    let n = n as u8;
    out.nontrivial = true;
    match HaystackKind::try_from(n) {
        Ok(k) => {
            out.stat("code:kind");
            if k as u8 != n {
                out.fail("kind_code_rt", format!("try_from({n}) = {k:?} but {k:?} as u8 = {}", k as u8));
            }
            if !kind_listed(k) {
                out.fail("kind_code_rt", format!("try_from({n}) = {k:?}: not a listed kind"));
            }
            let name: &'static str = k.into();
            out.req(
                format!("C19 code {n}"),
                format!("ok {} {} {}", vx::h(&format!("{k:?}")), vx::h(name), vx::h(&k.to_string())),
            );
        }
        Err(_) => {
            out.stat("code:err");
            if let Some(k) = ALL_KINDS.iter().find(|k| **k as u8 == n) {
                out.fail("kind_code_rt", format!("{k:?} as u8 = {n} but try_from({n}) is an error"));
            }
            out.req(format!("C19 code {n}"), "err".into());
        }
    }
}

fn exec_name(input: &str, out: &mut CaseOut) {
    let s = match vx::unh(input.trim()) {
        Some(s) => s,
        None => return out.fail("harness", "unparsable C19 name input".into()),
    };
    out.nontrivial = true;
    match HaystackKind::try_from(s.as_str()) {
        Ok(k) => {
            out.stat("name:kind");
            let name: &'static str = k.into();
            if name != s {
                out.fail("kind_name_rt", format!("try_from({s:?}) = {k:?} but {k:?} is named {name:?}"));
            }
            out.req(format!("C19 name {}", vx::h(&s)), format!("ok {} {}", vx::h(&format!("{k:?}")), k as u8));
        }
        Err(_) => {
            out.stat("name:err");
            if let Some(k) = ALL_KINDS.iter().find(|k| <&'static str>::from(**k) == s) {
                out.fail("kind_name_rt", format!("{k:?} is named {s:?} but try_from({s:?}) is an error"));
            }
            out.req(format!("C19 name {}", vx::h(&s)), "err".into());
        }
    }
}

fn exec_kinds(out: &mut CaseOut) {
    out.nontrivial = true;
    let mut rows: Vec<String> = Vec::new();
    for (i, k) in ALL_KINDS.iter().enumerate() {
        let code = *k as u8;
        let name: &'static str = (*k).into();
        if HaystackKind::try_from(code) != Ok(*k) {
            out.fail("kind_code_rt", format!("{k:?} as u8 = {code} but try_from({code}) = {:?}", HaystackKind::try_from(code)));
        }
        if HaystackKind::try_from(name) != Ok(*k) {
            out.fail("kind_name_rt", format!("{k:?} is named {name:?} but try_from({name:?}) = {:?}", HaystackKind::try_from(name)));
        }
        if k.to_string() != name {
            out.fail("kind_display", format!("{k:?} displays as {:?} but is named {name:?}", k.to_string()));
        }
        for j in ALL_KINDS.iter().skip(i + 1) {
            let jn: &'static str = (*j).into();
            if *j as u8 == code || jn == name {
                out.fail("kind_not_injective", format!("{k:?} and {j:?} share a code or a name"));
            }
        }
        rows.push(format!("{k:?}={code}"));
    }
    rows.sort();
    out.req("C19 kinds".into(), format!("ok {}", rows.join(" ")));
}

// ---------------------------------------------------------------------------------------------
// grid
// ---------------------------------------------------------------------------------------------

/// Records carrying several hundred thousand DISTINCT tag names between them (words of a point-naming scheme with
/// running numbers): one column per name - whatever a constructor remembers names by (a hash, a prefix, a length) has
/// met more names than it can keep apart if it is not the name itself
fn exec_manynames(out: &mut CaseOut) {
    out.nontrivial = true;
    out.stat("grid:manynames");
    let words = ["gasTempFb", "coilSpeedLim", "mixedModeCmd", "vavPowerLim", "returnHumidityLim", "chillerEnableFb", "dischargeAirTemp", "zoneCo2Sp", "t", "x_"];
    let mut rows: Vec<Dict> = Vec::new();
    let mut names: std::collections::BTreeSet<String> = std::collections::BTreeSet::new();
    let mut i = 0u32;
    for r in 0..300 {
        let mut d = Dict::new();
        for _ in 0..1000 {
            let n = format!("{}{}", words[(i as usize) % words.len()], i / words.len() as u32);
            i += 1;
            d.insert(n.clone(), Value::Marker);
            names.insert(n);
        }
        if r % 50 == 0 {
            d.insert("id".into(), Value::make_ref("r"));
        }
        rows.push(d);
    }
    names.insert("id".into());
    let grid = Grid::make_from_dicts(rows);
    let cols: Vec<&String> = grid.columns.iter().map(|c| &c.name).collect();
    if cols.len() != names.len() {
        let have: std::collections::BTreeSet<&String> = cols.iter().copied().collect();
        let missing: Vec<&String> = names.iter().filter(|n| !have.contains(n)).take(4).collect();
        out.fail("grid_cols_union", format!("{} records with {} distinct tag names give a grid of {} columns; without a column: {missing:?}", grid.rows.len(), names.len(), cols.len()));
    } else if !cols.iter().copied().eq(names.iter()) {
        out.fail("grid_cols_sorted", "the columns of the many-names grid are not the sorted distinct tag names".into());
    }
}

fn exec_grid(input: &str, out: &mut CaseOut) {
    let mut rd = Rd::new(input);
    let meta = match rd.odict() {
        Some(m) => m,
        None => return out.fail("harness", "unparsable C19 grid input (meta)".into()),
    };
    let rows: Vec<Dict> = match rd.val() {
        Some(Value::List(l)) => {
            let mut rows = Vec::new();
            for v in l {
                match v {
                    Value::Dict(d) => rows.push(d),
                    _ => return out.fail("harness", "C19 grid input: row is not a dict".into()),
                }
            }
            rows
        }
        _ => return out.fail("harness", "unparsable C19 grid input (rows)".into()),
    };
    out.nontrivial = !rows.is_empty();
    out.stat(&format!("grid:rows={}", rows.len().min(6)));
    let grid = match &meta {
        None => Grid::make_from_dicts(rows.clone()),
        Some(m) => Grid::make_from_dicts_with_meta(rows.clone(), m.clone()),
    };
    // rows preserved, in order
    if grid.rows.len() != rows.len() || grid.rows.iter().zip(rows.iter()).any(|(a, b)| !same(&Value::Dict(a.clone()), &Value::Dict(b.clone()))) {
        out.fail("grid_rows", format!("rows of the grid differ from the records: {:?} vs {:?}", grid.rows, rows));
    }
    // columns strictly ascending (sorted, no duplicate)
    for w in grid.columns.windows(2) {
        if w[0].name >= w[1].name {
            out.fail("grid_cols_order", format!("column {:?} is followed by {:?}", w[0].name, w[1].name));
        }
    }
    // columns = union of the row keys
    for r in rows.iter() {
        for k in r.keys() {
            if !grid.columns.iter().any(|c| &c.name == k) {
                out.fail("grid_key_without_col", format!("row key {k:?} is not a column"));
            }
        }
    }
    for c in grid.columns.iter() {
        if !rows.iter().any(|r| r.contains_key(c.name.as_str())) {
            out.fail("grid_col_without_key", format!("column {:?} is no key of any row", c.name));
        }
    }
    // meta as given
    match (&meta, &grid.meta) {
        (None, None) => {}
        (Some(a), Some(b)) if same(&Value::Dict(a.clone()), &Value::Dict(b.clone())) => {}
        (a, b) => out.fail("grid_meta", format!("meta {b:?}, expected {a:?}")),
    }
    let mut toks = Vec::new();
    vx::w_odict(&meta, &mut toks);
    out.req(
        format!("C19 grid {} {}", toks.join(" "), vx::show(&Value::List(rows.into_iter().map(Value::Dict).collect()))),
        format!("ok {}", vx::show(&Value::Grid(grid))),
    );
}

pub fn exec(label: &str, input: &str, out: &mut CaseOut) {
    match label.split(':').next().unwrap_or(label) {
        "val" => exec_val(input, out),
        "du" => exec_du(out),
        "manynames" => exec_manynames(out),
        "get" => exec_get(input, out),
        "code" => exec_code(input, out),
        "name" => exec_name(input, out),
        "kinds" => exec_kinds(out),
        "grid" => exec_grid(input, out),
        _ => out.fail("harness", format!("unknown C19 label {label}")),
    }
}

// ---------------------------------------------------------------------------------------------
// generation
// ---------------------------------------------------------------------------------------------

fn any_value(rng: &mut Rng) -> Value {
    let cfg = if rng.chance(1, 2) { Cfg::any(3) } else { Cfg::wf(3) };
    gen::value(rng, &cfg)
}

fn row_key(rng: &mut Rng) -> String {
    match rng.below(8) {
        0..=4 => gen::ident(rng),
        5 => rng.pick(&["é", "e", "z", "Z", "€", "\u{ffff}", "😀", "\u{10ffff}", "", "a b", "A", "aa", "a\u{0}"]).to_string(),
        _ => gen::text(rng),
    }
}

fn get_case(rng: &mut Rng) -> String {
    let cfg = Cfg::any(2);
    let mut d = gen::dict(rng, &cfg, 1);
    // make the interesting keys likely, with right and wrong kinds
    if rng.chance(1, 2) {
        let v = if rng.chance(1, 2) { Value::Ref(Ref { value: gen::ref_id(rng), dis: None }) } else { any_value(rng) };
        d.insert("id".into(), v);
    }
    if rng.chance(1, 2) {
        let v = if rng.chance(1, 2) { Value::DateTime(gen::datetime(rng, &cfg)) } else { any_value(rng) };
        d.insert("mod".into(), v);
    }
    let target = any_value(rng);
    let k = row_key(rng);
    d.insert(k.clone(), target);
    let key = match rng.below(6) {
        0 => row_key(rng),                 // most likely absent
        1 => "id".to_string(),
        2 => "mod".to_string(),
        _ => k,
    };
    let mut toks = Vec::new();
    vx::w_dict(&d, &mut toks);
    format!("{} {}", vx::h(&key), toks.join(" "))
}

fn grid_case(rng: &mut Rng) -> String {
    let nrows = match rng.below(8) {
        0 => 0,
        1 => 1,
        _ => 1 + rng.below(6),
    };
    let pool: Vec<String> = (0..(1 + rng.below(7))).map(|_| row_key(rng)).collect();
    let mut rows = Vec::new();
    for _ in 0..nrows {
        let mut d = Dict::new();
        let n = rng.below(6);
        for _ in 0..n {
            let k = if rng.chance(4, 5) { rng.pick(&pool).clone() } else { row_key(rng) };
            d.insert(k, gen::scalar(rng, &Cfg::any(1)));
        }
        rows.push(Value::Dict(d));
    }
    let meta = if rng.chance(1, 3) { Some(gen::dict(rng, &Cfg::any(2), 1)) } else { None };
    let mut toks = Vec::new();
    vx::w_odict(&meta, &mut toks);
    format!("{} {}", toks.join(" "), vx::show(&Value::List(rows)))
}

pub fn generate(ctx: &mut Ctx) {
    // exhaustive parts, on every run
    ctx.case("kinds", "-");
    ctx.case("du", "-");
    ctx.case("manynames", "-");
    for n in 0..256u32 {
        ctx.case("code", &n.to_string());
    }
    let mut names: Vec<String> = Vec::new();
    for k in ALL_KINDS.iter() {
        let n: &'static str = (*k).into();
        names.push(n.to_string());
        names.push(k.to_string());
        names.push(format!("{k:?}"));
        names.push(n.to_uppercase());
        names.push(n.to_lowercase());
        names.push(format!("{n} "));
        names.push(format!(" {n}"));
        names.push(n[..n.len() - 1].to_string());
        names.push(format!("{n}{n}"));
    }
    names.push(String::new());
    names.push("datetime".into());
    names.push("string".into());
    names.push("symbols".into());
    names.push("nul".into());
    for n in names {
        ctx.case("name", &vx::h(&n));
    }
    let n_rand_names = ctx.n(200, 5000);
    for _ in 0..n_rand_names {
        let mut rng = ctx.rng.fork();
        let s = if rng.chance(1, 2) { gen::ident(&mut rng) } else { gen::text(&mut rng) };
        ctx.case("name", &vx::h(&s));
    }
    // one value of every variant first, then random ones
    let n_val = ctx.n(4000, 150_000);
    for _ in 0..n_val {
        let mut rng = ctx.rng.fork();
        let v = any_value(&mut rng);
        ctx.case("val", &vx::show(&v));
    }
    let n_get = ctx.n(4000, 150_000);
    for _ in 0..n_get {
        let mut rng = ctx.rng.fork();
        let inp = get_case(&mut rng);
        ctx.case("get", &inp);
    }
    let n_grid = ctx.n(3000, 100_000);
    for _ in 0..n_grid {
        let mut rng = ctx.rng.fork();
        let inp = grid_case(&mut rng);
        ctx.case("grid", &inp);
    }
}

// ---------------------------------------------------------------------------------------------
// tables by execution (`hsverif dump c19`): the second source of the C19 tables.  The translators
// gen/kinds.py, gen/value_shape.py and gen/accessors.py read them from the SOURCE TEXT of val/*.rs; when the
// text no longer has the shape they parse (a rewrite), they take the tables from here instead: every entry
// below is computed by calling the real code on the complete finite domain it ranges over (all 256 codes, one
// value of each of the 18 variants, every typed conversion and getter).
// ---------------------------------------------------------------------------------------------

fn variant_samples() -> Vec<Value> {
    let mut found: Vec<Option<Value>> = vec![None; 18];
    let mut rng = Rng::new(19);
    let cfg = Cfg::wf(2);
    let mut n = 0;
    while found.iter().any(|f| f.is_none()) && n < 200000 {
        let v = gen::value(&mut rng, &cfg);
        let i = variant_index(&v);
        if found[i].is_none() {
            found[i] = Some(v);
        }
        n += 1;
    }
    found.into_iter().map(|f| f.expect("generator reaches every variant")).collect()
}

fn jstr(s: &str) -> String {
    serde_json::to_string(s).unwrap()
}
fn jrow(cols: &[&str]) -> String {
    format!("[{}]", cols.iter().map(|c| jstr(c)).collect::<Vec<_>>().join(","))
}

/// name of the set of variants in `hits` (one variant: its name; otherwise a name no table theorem accepts)
fn set_name(hits: &[usize]) -> String {
    if hits.len() == 1 {
        VARIANT_NAMES[hits[0]].to_string()
    } else {
        format!("#{}", hits.iter().map(|i| VARIANT_NAMES[*i]).collect::<Vec<_>>().join("+"))
    }
}

pub fn dump_tables() {
    let samples = variant_samples();
    let kname = |k: HaystackKind| format!("{k:?}");
    let mut o: Vec<String> = Vec::new();
    // kinds
    o.push(format!("\"kinds\":[{}]", ALL_KINDS.iter().map(|k| format!("[{},{}]", jstr(&kname(*k)), *k as u8)).collect::<Vec<_>>().join(",")));
    // fromU8: every code that is accepted, named by the kind whose discriminant it is
    let mut rows = Vec::new();
    for code in 0u16..=255 {
        if let Ok(b) = HaystackKind::try_from(code as u8) {
            let a = ALL_KINDS.iter().find(|k| **k as u8 == code as u8).map(|k| kname(*k)).unwrap_or(format!("#{code}"));
            rows.push(jrow(&[&a, &kname(b)]));
        }
    }
    o.push(format!("\"fromU8\":[{}]", rows.join(",")));
    // ofValue
    o.push(format!(
        "\"ofValue\":[{}]",
        samples.iter().map(|v| jrow(&[VARIANT_NAMES[variant_index(v)], &kname(HaystackKind::from(v))])).collect::<Vec<_>>().join(",")
    ));
    // toStr / display
    o.push(format!("\"toStr\":[{}]", ALL_KINDS.iter().map(|k| jrow(&[&kname(*k), <&'static str>::from(*k)])).collect::<Vec<_>>().join(",")));
    o.push(format!("\"display\":[{}]", ALL_KINDS.iter().map(|k| jrow(&[&kname(*k), &format!("{k}")])).collect::<Vec<_>>().join(",")));
    // fromStr: every candidate text that is accepted
    let mut cands: Vec<String> = Vec::new();
    for k in ALL_KINDS.iter() {
        for s in [kname(*k), <&'static str>::from(*k).to_string(), format!("{k}")] {
            for t in [s.clone(), s.to_lowercase(), s.to_uppercase(), format!("{s} "), format!(" {s}"), {
                let mut c = s.chars();
                c.next().map(|f| f.to_uppercase().collect::<String>() + c.as_str()).unwrap_or_default()
            }] {
                if !cands.contains(&t) {
                    cands.push(t);
                }
            }
        }
    }
    cands.push(String::new());
    let mut rows = Vec::new();
    for c in &cands {
        if let Ok(k) = HaystackKind::try_from(c.as_str()) {
            rows.push(jrow(&[c, &kname(k)]));
        }
    }
    o.push(format!("\"fromStr\":[{}]", rows.join(",")));
    // variants in the order of the derived `Ord` (= declaration order), payload flag as the patterns of this harness have it
    let mut ord: Vec<&Value> = samples.iter().collect();
    ord.sort_by(|a, b| a.cmp(b));
    let payload = |i: usize| !matches!(i, 0 | 1 | 2 | 4);
    o.push(format!(
        "\"variants\":[{}]",
        ord.iter().map(|v| format!("[{},{}]", jstr(VARIANT_NAMES[variant_index(v)]), payload(variant_index(v)))).collect::<Vec<_>>().join(",")
    ));
    // preds
    let mut rows = Vec::new();
    for (n, f, _) in PREDS.iter() {
        let hits: Vec<usize> = samples.iter().filter(|v| f(v)).map(variant_index).collect();
        rows.push(jrow(&[n, &set_name(&hits)]));
    }
    o.push(format!("\"preds\":[{}]", rows.join(",")));
    let bt = Value::make_bool(true);
    let bf = Value::make_bool(false);
    let other_ok = bt.is_true() && !bt.is_false() && bf.is_false() && !bf.is_true() && samples.iter().all(|v| v.is_bool() || (!v.is_true() && v.is_false()));
    o.push(format!("\"otherPreds\":[{}]", if other_ok { "\"is_true\",\"is_false\"" } else { "\"#is_true\",\"#is_false\"" }));
    // tryFroms
    let mut by_target: Vec<(&'static str, Vec<usize>, bool)> = Vec::new();
    for v in &samples {
        for (t, _idx, ok, same) in conversions(v) {
            let e = match by_target.iter().position(|x| x.0 == t) {
                Some(p) => &mut by_target[p],
                None => {
                    by_target.push((t, Vec::new(), true));
                    by_target.last_mut().unwrap()
                }
            };
            if ok {
                e.1.push(variant_index(v));
                e.2 &= same;
            }
        }
    }
    let mut rows = Vec::new();
    for (t, hits, same) in &by_target {
        let var = set_name(hits);
        let class = if !*same {
            "#other"
        } else if matches!(*t, "bool" | "f64" | "String") {
            "value"
        } else if hits.len() == 1 && !payload(hits[0]) {
            "unit"
        } else {
            "whole"
        };
        rows.push(jrow(&[t, &var, class]));
    }
    o.push(format!("\"tryFroms\":[{}]", rows.join(",")));
    // getters: for every typed getter the variants under which it answers
    type G = (&'static str, &'static str, fn(&Dict, &str) -> bool);
    let getters: [G; 17] = [
        ("has_marker", "has", |d, k| d.has_marker(k)),
        ("has_na", "has", |d, k| d.has_na(k)),
        ("has_remove", "has", |d, k| d.has_remove(k)),
        ("get_bool", "get", |d, k| d.get_bool(k).is_some()),
        ("get_num", "get", |d, k| d.get_num(k).is_some()),
        ("get_str", "get", |d, k| d.get_str(k).is_some()),
        ("get_xstr", "get", |d, k| d.get_xstr(k).is_some()),
        ("get_ref", "get", |d, k| d.get_ref(k).is_some()),
        ("get_uri", "get", |d, k| d.get_uri(k).is_some()),
        ("get_symbol", "get", |d, k| d.get_symbol(k).is_some()),
        ("get_date", "get", |d, k| d.get_date(k).is_some()),
        ("get_time", "get", |d, k| d.get_time(k).is_some()),
        ("get_date_time", "get", |d, k| d.get_date_time(k).is_some()),
        ("get_coord", "get", |d, k| d.get_coord(k).is_some()),
        ("get_dict", "get", |d, k| d.get_dict(k).is_some()),
        ("get_list", "get", |d, k| d.get_list(k).is_some()),
        ("get_grid", "get", |d, k| d.get_grid(k).is_some()),
    ];
    let one = |key: &str, v: &Value| {
        let mut d = Dict::new();
        d.insert(key.to_string(), v.clone());
        d
    };
    let mut rows = Vec::new();
    for (n, how, f) in getters.iter() {
        let hits: Vec<usize> = samples.iter().filter(|v| f(&one("k", v), "k") && !f(&one("other", v), "k")).map(variant_index).collect();
        rows.push(jrow(&[n, how, &set_name(&hits)]));
    }
    o.push(format!("\"getters\":[{}]", rows.join(",")));
    // keyed getters: which key, and the getter they agree with on every variant stored under that key
    let keys = ["id", "mod", "ts", "dis", "k"];
    let mut rows = Vec::new();
    let keyed: [(&str, fn(&Dict) -> bool); 3] = [
        ("id", |d| d.id().is_some()),
        ("safe_id", |d| {
            let r = d.safe_id();
            let def = Ref::default();
            r.value != def.value || r.dis != def.dis
        }),
        ("ts", |d| d.ts().is_some()),
    ];
    for (n, f) in keyed.iter() {
        for key in keys {
            let hits: Vec<usize> = samples.iter().filter(|v| f(&one(key, v))).map(variant_index).collect();
            if hits.is_empty() {
                continue;
            }
            // the typed getter with the same answers under this key
            let g = getters.iter().find(|(_, _, g)| samples.iter().all(|v| g(&one(key, v), key) == f(&one(key, v))));
            rows.push(jrow(&[n, g.map(|g| g.0).unwrap_or("#none"), key]));
        }
    }
    o.push(format!("\"keyedGetters\":[{}]", rows.join(",")));
    println!("{{{}}}", o.join(",\n"));
}
