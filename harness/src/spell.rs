//! A reference Zinc WRITER written from the Project Haystack Zinc grammar, independent of
//! libhaystack's encoder: for a value it produces one of the many legal spellings, the choices
//! drawn from the PRNG (whitespace, line endings, string/uri escapes, number spellings, trailing
//! list comma, dict separators, grid layout).  Used by C04 (grammar conformance, read direction)
//! and C11 (accepted texts).
//!
//! Grammar (docs "Zinc"): grid := ver [meta] nl cols nl row*; meta/colMeta := (" " tag)*;
//! row := cell ("," cell)* nl; cell := scalar | list | dict | "<<" nl grid ">>" | (empty);
//! list := "[" val ("," val)* [","] "]"; dict := "{" tag ((" " | ",") tag)* "}"; tag := id [":" val];
//! str escapes \b \f \n \r \t \" \\ \$ \uXXXX; uri escapes \` \\ \uXXXX (and \: \/ \? \# … which are
//! not used here: what they denote is not agreed between implementations);
//! number := ["-"] digits ["." digits] [("e"|"E") ["+"|"-"] digits] [unit], "_" allowed between digits.

use crate::rng::Rng;
use chrono::{Datelike, Offset, SecondsFormat, Timelike};
use libhaystack::val::*;

pub struct Speller<'a> {
    pub rng: &'a mut Rng,
    /// probability (in 1/8) of taking a non-canonical choice
    pub wild: u64,
    pub nl: &'static str,
}

impl<'a> Speller<'a> {
    pub fn new(rng: &'a mut Rng) -> Speller<'a> {
        let nl = match rng.below(4) {
            0 => "\r\n",
            1 => "\r",
            _ => "\n",
        };
        Speller { rng, wild: 3, nl }
    }
    fn alt(&mut self) -> bool {
        self.rng.below(8) < self.wild
    }
    fn sp(&mut self) -> &'static str {
        if self.alt() {
            *self.rng.pick(&[" ", "  ", "\t", " \t "])
        } else {
            ""
        }
    }
    fn hex4(&mut self, u: u32) -> String {
        if self.rng.chance(1, 2) {
            format!("\\u{u:04x}")
        } else {
            format!("\\u{u:04X}")
        }
    }

    pub fn str_body(&mut self, s: &str) -> String {
        let mut o = String::new();
        for c in s.chars() {
            let u = c as u32;
            let short = match c {
                '\u{8}' => Some("\\b"),
                '\u{c}' => Some("\\f"),
                '\n' => Some("\\n"),
                '\r' => Some("\\r"),
                '\t' => Some("\\t"),
                '"' => Some("\\\""),
                '\\' => Some("\\\\"),
                '$' => Some("\\$"),
                _ => None,
            };
            let must_escape = u < 0x20 || c == '"' || c == '\\' || c == '$';
            let bmp = u < 0x10000 && !(0xD800..=0xDFFF).contains(&u);
            if must_escape {
                match short {
                    Some(e) if !self.alt() => o.push_str(e),
                    _ => o.push_str(&self.hex4(u)),
                }
            } else if bmp && ((u >= 0xD000 && self.rng.chance(1, 2)) || (self.alt() && self.rng.chance(1, 3))) {
                // the top of the BMP (next to the surrogate block) is written as an escape every second time: two such
                // escapes in a row are two characters, not a surrogate pair
                o.push_str(&self.hex4(u));
            } else {
                o.push(c);
            }
        }
        o
    }
    pub fn quoted(&mut self, s: &str) -> String {
        format!("\"{}\"", self.str_body(s))
    }
    pub fn uri(&mut self, s: &str) -> String {
        let mut o = String::from("`");
        for c in s.chars() {
            let u = c as u32;
            let bmp = u < 0x10000 && !(0xD800..=0xDFFF).contains(&u);
            if c == '`' {
                o.push_str("\\`");
            } else if c == '\\' {
                o.push_str("\\\\");
            } else if u < 0x20 || (bmp && ((u >= 0xD000 && self.rng.chance(1, 2)) || (self.alt() && self.rng.chance(1, 3))) && !":/?#[]@&=;".contains(c)) {
                o.push_str(&self.hex4(u));
            } else {
                o.push(c);
            }
        }
        o.push('`');
        o
    }

    fn underscores(&mut self, digits: &str) -> String {
        // "_" between two digits
        let mut o = String::new();
        let cs: Vec<char> = digits.chars().collect();
        for (i, c) in cs.iter().enumerate() {
            o.push(*c);
            if i + 1 < cs.len() && c.is_ascii_digit() && cs[i + 1].is_ascii_digit() && self.rng.chance(1, 4) {
                o.push('_');
            }
        }
        o
    }

    /// a spelling of the finite double `x` (no unit)
    pub fn decimal(&mut self, x: f64, allow_exp: bool) -> String {
        let canon = format!("{x}");
        if !self.alt() {
            return canon;
        }
        let mut cands: Vec<String> = vec![canon.clone()];
        if !canon.contains('.') {
            cands.push(format!("{canon}.0"));
            cands.push(format!("{canon}.000"));
        } else {
            cands.push(format!("{canon}0"));
            cands.push(format!("{canon}00"));
        }
        if allow_exp && x != 0.0 && x.abs() < 1e15 && x.abs() > 1e-9 {
            // m * 10^k spellings that denote exactly x
            let sci = format!("{x:e}"); // e.g. 1.5e3
            cands.push(sci.clone());
            cands.push(sci.replace('e', "E"));
            if let Some((m, k)) = sci.split_once('e') {
                if let Ok(k) = k.parse::<i32>() {
                    if k >= 0 {
                        cands.push(format!("{m}e+{k}"));
                        cands.push(format!("{m}E+{k:02}"));
                    } else {
                        cands.push(format!("{m}e-{:02}", -k));
                    }
                }
            }
        }
        if allow_exp && x != 0.0 && x.is_finite() {
            // the same digits with the point moved and the exponent adjusted (`780.5771e-6` for `7.805771e-4`): long
            // decimal parts WITH an exponent, which a reader that rounds the decimal part first gets wrong by one ulp
            let sci = format!("{x:e}");
            if let Some((m, k)) = sci.split_once('e') {
                if let Ok(k) = k.parse::<i32>() {
                    let neg = m.starts_with('-');
                    let digits: String = m.chars().filter(|c| c.is_ascii_digit()).collect();
                    for shift in [1usize, 2, 3, 5] {
                        // point after `1 + shift` digits (padded with zeros), exponent lowered by `shift`
                        let mut d = digits.clone();
                        while d.len() < 1 + shift {
                            d.push('0');
                        }
                        let (a, b) = d.split_at(1 + shift);
                        let mant = if b.is_empty() { a.to_string() } else { format!("{a}.{b}") };
                        cands.push(format!("{}{mant}e{}", if neg { "-" } else { "" }, k - shift as i32));
                    }
                    // point moved to the left: `0.07805771e-2`
                    cands.push(format!("{}0.0{digits}e{}", if neg { "-" } else { "" }, k + 2));
                }
            }
        }
        // keep only the spellings that denote exactly `x` when read the way every IEEE reader does
        // (decimal string -> nearest double)
        let ok: Vec<String> = cands
            .into_iter()
            .filter(|c| c.parse::<f64>().ok().map(|d| d.to_bits()) == Some(x.to_bits()))
            .collect();
        let pick = if ok.is_empty() { canon } else { self.rng.pick(&ok).clone() };
        match self.rng.below(6) {
            // `digits := digit (digit | "_")*` wherever the grammar says `digits`: in the integer part only ...
            0 => match pick.find(|c| c == '.' || c == 'e' || c == 'E') {
                Some(i) => format!("{}{}", self.underscores(&pick[..i]), &pick[i..]),
                None => self.underscores(&pick),
            },
            // ... or in every digit run: integer part, fraction and exponent
            1 | 2 => self.underscores(&pick),
            _ => pick,
        }
    }

    pub fn number(&mut self, n: &Number) -> String {
        if n.value.is_nan() {
            return "NaN".into();
        }
        if n.value.is_infinite() {
            return if n.value > 0.0 { "INF".into() } else { "-INF".into() };
        }
        let unit = n.unit.map(|u| u.symbol().to_string()).unwrap_or_default();
        format!("{}{}", self.decimal(n.value, true), unit)
    }

    pub fn scalar(&mut self, v: &Value) -> Option<String> {
        Some(match v {
            Value::Null => "N".into(),
            Value::Marker => "M".into(),
            Value::Remove => "R".into(),
            Value::Na => "NA".into(),
            Value::Bool(b) => if b.value { "T".into() } else { "F".into() },
            Value::Number(n) => self.number(n),
            Value::Str(s) => self.quoted(&s.value),
            Value::Uri(u) => self.uri(&u.value),
            Value::Symbol(s) => format!("^{}", s.value),
            Value::Ref(r) => match &r.dis {
                Some(d) => format!("@{} {}", r.value, self.quoted(d)),
                None => format!("@{}", r.value),
            },
            Value::XStr(x) => {
                let a = self.sp();
                let b = self.sp();
                format!("{}({a}{}{b})", x.r#type, self.quoted(&x.value))
            }
            Value::Date(d) => format!("{:04}-{:02}-{:02}", d.year(), d.month(), d.day()),
            Value::Time(t) => self.time(t.hour(), t.minute(), t.second(), t.nanosecond()),
            Value::DateTime(dt) => {
                let local = dt.naive_local();
                let date = format!("{:04}-{:02}-{:02}", local.year(), local.month(), local.day());
                let time = self.time(local.hour(), local.minute(), local.second(), local.nanosecond());
                if dt.is_utc() {
                    if self.alt() {
                        format!("{date}T{time}Z UTC")
                    } else {
                        format!("{date}T{time}Z")
                    }
                } else {
                    let off = dt.offset().fix().local_minus_utc();
                    let sign = if off < 0 { '-' } else { '+' };
                    let a = off.abs();
                    if a % 60 != 0 {
                        // sub-minute offsets have no Zinc spelling; fall back to the library's own text
                        return Some(format!("{} {}", dt.to_rfc3339_opts(SecondsFormat::AutoSi, true), dt.timezone_short_name()));
                    }
                    format!("{date}T{time}{sign}{:02}:{:02} {}", a / 3600, a % 3600 / 60, dt.timezone_short_name())
                }
            }
            Value::Coord(c) => {
                let (a, b, c2, d) = (self.sp(), self.sp(), self.sp(), self.sp());
                format!("C({a}{}{b},{c2}{}{d})", self.decimal(c.lat, false), self.decimal(c.long, false))
            }
            _ => return None,
        })
    }

    fn time(&mut self, h: u32, m: u32, s: u32, ns: u32) -> String {
        let (s, ns) = if ns >= 1_000_000_000 { (s + 1, ns - 1_000_000_000) } else { (s, ns) };
        let base = format!("{h:02}:{m:02}:{s:02}");
        if ns == 0 {
            if self.alt() {
                format!("{base}.{}", "0".repeat(1 + self.rng.below(9) as usize))
            } else {
                base
            }
        } else {
            let mut frac = format!("{ns:09}");
            while frac.ends_with('0') {
                frac.pop();
            }
            if self.alt() {
                let pad = self.rng.below((10 - frac.len()) as u64) as usize;
                frac.push_str(&"0".repeat(pad));
            }
            format!("{base}.{frac}")
        }
    }

    pub fn value(&mut self, v: &Value, nested: bool) -> String {
        match v {
            Value::List(l) => {
                let mut o = String::from("[");
                o.push_str(self.sp());
                for (i, e) in l.iter().enumerate() {
                    if i > 0 {
                        o.push(',');
                        o.push_str(self.sp());
                    }
                    o.push_str(&self.value(e, true));
                    o.push_str(self.sp());
                }
                if !l.is_empty() && self.alt() {
                    o.push(',');
                    o.push_str(self.sp());
                }
                o.push(']');
                o
            }
            Value::Dict(d) => {
                let mut o = String::from("{");
                o.push_str(self.sp());
                o.push_str(&self.tags(d, true));
                o.push_str(self.sp());
                o.push('}');
                o
            }
            Value::Grid(g) => self.grid(g, nested),
            _ => self.scalar(v).unwrap_or_default(),
        }
    }

    /// tags of a dict: `braced` allows the comma separator
    pub fn tags(&mut self, d: &Dict, braced: bool) -> String {
        let mut o = String::new();
        for (i, (k, v)) in d.iter().enumerate() {
            if i > 0 {
                if braced && self.alt() {
                    o.push_str(self.sp());
                    o.push(',');
                    o.push_str(self.sp());
                } else {
                    o.push(' ');
                    o.push_str(self.sp());
                }
            }
            o.push_str(k);
            if v.is_marker() {
                if self.alt() {
                    o.push_str(":M");
                }
            } else {
                o.push(':');
                o.push_str(self.sp());
                o.push_str(&self.value(v, true));
            }
        }
        o
    }

    pub fn grid(&mut self, g: &Grid, nested: bool) -> String {
        let nl = self.nl;
        let mut o = String::new();
        if nested {
            o.push_str("<<");
            o.push_str(nl);
        }
        o.push_str("ver:\"3.0\"");
        if let Some(m) = &g.meta {
            if !m.is_empty() {
                o.push(' ');
                o.push_str(&self.tags(m, false));
            }
        }
        o.push_str(nl);
        if g.columns.is_empty() {
            o.push_str("empty");
        }
        for (i, c) in g.columns.iter().enumerate() {
            if i > 0 {
                o.push(',');
                o.push_str(self.sp());
            }
            o.push_str(&c.name);
            if let Some(m) = &c.meta {
                if !m.is_empty() {
                    o.push(' ');
                    o.push_str(&self.tags(m, false));
                }
            }
        }
        o.push_str(nl);
        for r in &g.rows {
            for (i, c) in g.columns.iter().enumerate() {
                if i > 0 {
                    o.push(',');
                    o.push_str(self.sp());
                }
                match r.get(&c.name) {
                    Some(v) => o.push_str(&self.value(v, true)),
                    None => {
                        if g.columns.len() == 1 {
                            o.push('N');
                        }
                    }
                }
            }
            o.push_str(nl);
        }
        if nested {
            o.push_str(">>");
        } else if self.rng.chance(1, 2) {
            o.push_str(nl);
        }
        o
    }
}

/// one spelling of `v`
pub fn spell(rng: &mut Rng, v: &Value) -> String {
    let mut sp = Speller::new(rng);
    sp.value(v, false)
}
