//! C16 — unit conversion and Number arithmetic are dimensionally sound.
//!
//! Cases (input = unit NAMES, i.e. first ids; every database name is `[A-Za-z0-9_]+`):
//!   `pair`  "A B"   the ordered pair (A, B) of database units
//!   `solo`  "A"     Numbers over A against unit-less Numbers
//!   `none`  ""      two unit-less Numbers
//! Everything else (magnitudes included) is derived from the input, so a case replays from its two strings.
//! thorough: all 443 × 443 ordered pairs.  quick (≈15 k pairs, deterministic given the seed): all pairs among
//! the temperature / byte / quantity-"dimensionless" units, all pairs whose composed name is a database unit,
//! all pairs that can reach the `len() == 1` path of Mul/Div through a single-id unit, every unit with itself,
//! 3000 random pairs (half of them convertible).
//!
//! Oracles on the real code (kind → what the property demands):
//!   conv_guard    `A.convert_to(x, B)` is Ok  ⇔  A.dimensions == B.dimensions  or  both are byte units
//!                 (byte unit, for the oracle: quantity "bytes")
//!   conv_formula  the result is ((x·scale_A + offset_A) − offset_B) / scale_B: compared with a double-double
//!                 (≈106 bit) evaluation of that formula on the implementation's own table values;
//!                 tolerance 1e-14 · (|x·scale_A| + |offset_A| + |offset_B|) / |scale_B|
//!                 (a rigorous bound for 4 correctly rounded operations is 4·2⁻⁵³ ≈ 4.4e-16 of that magnitude;
//!                 the magnitude — not |result| — because of the cancellation in the two offset steps)
//!   conv_inverse  converting the result back gives x within 1e-14 · (|x| + (|offset_A| + |offset_B|) / |scale_A|)
//!                 ("within floating-point rounding": a few ulp of the intermediate magnitudes, both directions)
//!   mul_sound / div_sound   `&A * B` / `&A / B` = Ok(u)  ⇒  u is the database unit of its name,
//!                 u.dimensions = A.dimensions ± B.dimensions (computed here in i16),
//!                 u.scale ≈ A.scale ×/÷ B.scale (within 1/1000 of the smaller magnitude — the tolerance of the lookup)
//!   add_unit / sub_unit     Number(x, A) ± Number(y, B): same unit ⇒ Ok, the unit is kept and the value is x ± y;
//!                 two different units ⇒ Err.  (One unit-less operand: the property is silent; the behaviour
//!                 "adopt the other operand's unit" is compared with the model only.)
//!   nmul_sound / ndiv_sound Number × ÷ Number over A and B: when Ok, the unit of the result is sound as above.
//!
//! Correspondence (decisions and unit names only; magnitudes never travel as text):
//!   `C16 pair A B`  → `c=<ok|err> m=<name|err> d=<name|err> a=<name|-|err> s=… nm=… nd=…`
//!   `C16 solo A`    → the eight results of  (x,A) op (y,—)  and  (x,—) op (y,A)
//!   `C16 none`      → the four results of two unit-less Numbers
//!   `C16 cx A B <bits of x> <bits of the implementation's result>` → `in`: the exact-rational model
//!                   (scale/offset = the decimal literals of the source) agrees within 1e-14 of the magnitude above.

use crate::ctx::{CaseOut, Ctx};
use libhaystack::units::units_generated::UNITS;
use libhaystack::units::{Unit, UnitDimensions};
use libhaystack::val::Number;
use std::collections::{BTreeMap, BTreeSet};
use std::sync::OnceLock;

/// all database units, sorted by name (UNITS has one entry per id)
fn units() -> &'static Vec<&'static Unit> {
    static CELL: OnceLock<Vec<&'static Unit>> = OnceLock::new();
    CELL.get_or_init(|| {
        let mut m: BTreeMap<String, &'static Unit> = BTreeMap::new();
        for (_, u) in UNITS.iter() {
            m.entry(u.name().to_string()).or_insert(*u);
        }
        m.into_values().collect()
    })
}

fn by_name(n: &str) -> Option<&'static Unit> {
    let us = units();
    us.binary_search_by(|u| u.name().cmp(n)).ok().map(|i| us[i])
}

fn is_bytes(u: &Unit) -> bool {
    u.quantity.as_deref() == Some("bytes")
}

// ---- double-double reference arithmetic ------------------------------------------------------
#[derive(Clone, Copy)]
struct DD(f64, f64);

fn two_sum(a: f64, b: f64) -> (f64, f64) {
    let s = a + b;
    let bb = s - a;
    (s, (a - (s - bb)) + (b - bb))
}
fn quick_two_sum(a: f64, b: f64) -> DD {
    let s = a + b;
    DD(s, b - (s - a))
}
fn two_prod(a: f64, b: f64) -> (f64, f64) {
    let p = a * b;
    (p, a.mul_add(b, -p))
}
fn dd(x: f64) -> DD {
    DD(x, 0.0)
}
fn dd_add(x: DD, y: DD) -> DD {
    let (s, e) = two_sum(x.0, y.0);
    let (t, f) = two_sum(x.1, y.1);
    let r = quick_two_sum(s, e + t);
    quick_two_sum(r.0, r.1 + f)
}
fn dd_neg(x: DD) -> DD {
    DD(-x.0, -x.1)
}
fn dd_mul(x: DD, y: DD) -> DD {
    let (p, e) = two_prod(x.0, y.0);
    quick_two_sum(p, e + (x.0 * y.1 + x.1 * y.0))
}
fn dd_div(x: DD, y: DD) -> DD {
    let q1 = x.0 / y.0;
    let r = dd_add(x, dd_neg(dd_mul(y, dd(q1))));
    let q2 = r.0 / y.0;
    let r = dd_add(r, dd_neg(dd_mul(y, dd(q2))));
    let q3 = r.0 / y.0;
    dd_add(quick_two_sum(q1, q2), dd(q3))
}
/// ((x·sa + oa) − ob) / sb  in double-double
fn formula_dd(x: f64, a: &Unit, b: &Unit) -> DD {
    let t = dd_add(dd_mul(dd(x), dd(a.scale)), dd(a.offset));
    let t = dd_add(t, dd(-b.offset));
    dd_div(t, dd(b.scale))
}

// ---- magnitudes --------------------------------------------------------------------------------
const MAGS: &[f64] = &[0.0, 1.0, -1.0, 0.5, 100.0, -40.0, 273.15, 1.0e6, 1.0e-3, 37.5, 1234.5678, -459.67];

fn fnv(s: &str) -> u64 {
    let mut h: u64 = 0xcbf29ce484222325;
    for b in s.as_bytes() {
        h ^= *b as u64;
        h = h.wrapping_mul(0x100000001b3);
    }
    h
}

/// the fixed spread plus two magnitudes derived from the input (log-uniform 1e-6 … 1e9, either sign)
fn magnitudes(input: &str) -> Vec<f64> {
    let mut v = MAGS.to_vec();
    let mut r = crate::rng::Rng::new(fnv(input));
    for _ in 0..2 {
        let e = (r.below(15_000) as f64) / 1000.0 - 6.0;
        let m = 10f64.powf(e) * (1.0 + (r.below(1 << 20) as f64) / ((1u64 << 20) as f64));
        v.push(if r.chance(1, 3) { -m } else { m });
    }
    v
}

// ---- what the property demands of a product / quotient ---------------------------------------
fn dims16(d: &UnitDimensions) -> [i16; 7] {
    [d.kg as i16, d.m as i16, d.sec as i16, d.k as i16, d.a as i16, d.mol as i16, d.cd as i16]
}

fn approx(a: f64, b: f64) -> bool {
    a == b || (a - b).abs() <= f64::min(a.abs(), b.abs()) / 1e3
}

/// is `s` ≈ one of sa·sb, sa/sb, sb/sa ?
fn approx_any(sa: f64, sb: f64, s: f64) -> bool {
    approx(s, sa * sb) || approx(s, sa / sb) || approx(s, sb / sa)
}

/// `u` claimed as `a op b` (`op` = '*' or '/'); returns a description of what is wrong
fn unsound(a: &Unit, b: &Unit, u: &Unit, op: char) -> Option<String> {
    match UNITS.get(u.name()) {
        Some(d) if std::ptr::eq(*d, u) => {}
        _ => return Some(format!("result `{}` is not the database unit of that name", u.name())),
    }
    // a unit of the quantity `dimensionless` without an exponent vector has every exponent zero; for the other units
    // without a vector (currency, bytes ...) there is nothing to compare (the model says Err; a change shows up in the
    // correspondence)
    let dims_of = |x: &Unit| -> Option<[i16; 7]> {
        match &x.dimensions {
            Some(d) => Some(dims16(d)),
            None if x.quantity.as_deref() == Some("dimensionless") => Some([0i16; 7]),
            None => None,
        }
    };
    let (da, db) = match (dims_of(a), dims_of(b)) {
        (Some(x), Some(y)) => (x, y),
        _ => return None,
    };
    let mut want = [0i16; 7];
    for i in 0..7 {
        want[i] = if op == '*' { da[i] + db[i] } else { da[i] - db[i] };
    }
    match dims_of(u) {
        Some(du) if du == want => {}
        _ => return Some(format!("dimensions of `{}` are {:?}, expected exponents {:?}", u.name(), u.dimensions, want)),
    }
    let scale = if op == '*' { a.scale * b.scale } else { a.scale / b.scale };
    if !approx(u.scale, scale) {
        return Some(format!("scale of `{}` is {}, expected ≈ {}", u.name(), u.scale, scale));
    }
    None
}

fn uname(r: &Result<&'static Unit, String>) -> String {
    match r {
        Ok(u) => u.name().to_string(),
        Err(_) => "err".into(),
    }
}
fn nname(r: &Result<Number, String>) -> String {
    match r {
        Ok(n) => n.unit.map_or("-".to_string(), |u| u.name().to_string()),
        Err(_) => "err".into(),
    }
}

const X: f64 = 6.0;
const Y: f64 = 1.5;

fn exec_pair(input: &str, a: &'static Unit, b: &'static Unit, out: &mut CaseOut) {
    let an = a.name();
    let bn = b.name();
    let mut interesting = false;

    // ---- conversion --------------------------------------------------------------------------
    let want_ok = a.dimensions == b.dimensions || (is_bytes(a) && is_bytes(b));
    let mut conv_ok = None;
    for &x in magnitudes(input).iter() {
        let r = a.convert_to(x, b);
        if conv_ok.is_none() {
            conv_ok = Some(r.is_ok());
        }
        if r.is_ok() != want_ok {
            out.fail(
                "conv_guard",
                format!("{an}.convert_to({x}, {bn}) is {} but dimensions {} ({:?} vs {:?}; byte units: {} {})",
                    if r.is_ok() { "Ok" } else { "Err" }, if a.dimensions == b.dimensions { "are equal" } else { "differ" },
                    a.dimensions, b.dimensions, is_bytes(a), is_bytes(b)),
            );
            break;
        }
        if conv_ok != Some(r.is_ok()) {
            out.fail("conv_guard", format!("{an}.convert_to(·, {bn}) succeeds for some magnitudes only (x = {x})"));
            break;
        }
        let Ok(y) = r else { continue };
        interesting = true;
        let mag = (x * a.scale).abs() + a.offset.abs() + b.offset.abs();
        let tol = 1e-14 * mag / b.scale.abs();
        let want = formula_dd(x, a, b);
        let diff = dd_add(want, dd(-y));
        if !(diff.0.abs() <= tol) {
            out.fail(
                "conv_formula",
                format!("{an}.convert_to({x}, {bn}) = {y}, the formula gives {} (difference {:e}, tolerance {:e})", want.0, diff.0, tol),
            );
        }
        out.req(format!("C16 cx {an} {bn} {:016x} {:016x}", x.to_bits(), y.to_bits()), "in".into());
        match b.convert_to(y, a) {
            Ok(x2) => {
                let tol = 1e-14 * (x.abs() + (a.offset.abs() + b.offset.abs()) / a.scale.abs());
                if !((x2 - x).abs() <= tol) {
                    out.fail(
                        "conv_inverse",
                        format!("{an}.convert_to({x}, {bn}) = {y}, {bn}.convert_to({y}, {an}) = {x2} (off by {:e}, tolerance {:e})", (x2 - x).abs(), tol),
                    );
                }
            }
            Err(_) => out.fail("conv_inverse", format!("{an} → {bn} converts but {bn} → {an} does not")),
        }
    }

    // ---- product / quotient of the units ---------------------------------------------------------
    let m = a * b;
    let d = a / b;
    if let Ok(u) = &m {
        interesting = true;
        out.stat("mul:ok");
        if let Some(w) = unsound(a, b, u, '*') {
            out.fail("mul_sound", format!("{an} * {bn} = {}: {w}", u.name()));
        }
    }
    if let Ok(u) = &d {
        interesting = true;
        out.stat("div:ok");
        if let Some(w) = unsound(a, b, u, '/') {
            out.fail("div_sound", format!("{an} / {bn} = {}: {w}", u.name()));
        }
    }

    // ---- Numbers -----------------------------------------------------------------------------
    let na = Number { value: X, unit: Some(a) };
    let nb = Number { value: Y, unit: Some(b) };
    let same = std::ptr::eq(a, b);
    let add = na + nb;
    let sub = na - nb;
    for (kind, r, want) in [("add_unit", &add, X + Y), ("sub_unit", &sub, X - Y)] {
        match r {
            Ok(n) if same => {
                interesting = true;
                if !n.unit.map_or(false, |u| std::ptr::eq(u, a)) {
                    out.fail(kind, format!("{X}{an} ± {Y}{bn}: the common unit is not kept (got {:?})", n.unit.map(|u| u.name())));
                }
                if n.value != want {
                    out.fail(kind, format!("{X}{an} ± {Y}{bn}: value {} instead of {want}", n.value));
                }
            }
            Ok(n) => out.fail(kind, format!("{X}{an} ± {Y}{bn} is Ok({}{:?}) although the units differ", n.value, n.unit.map(|u| u.name()))),
            Err(_) if same => out.fail(kind, format!("{X}{an} ± {Y}{bn} fails although the units are the same")),
            Err(_) => {}
        }
    }
    let nm = na * nb;
    let nd = na / nb;
    for (kind, r, op) in [("nmul_sound", &nm, '*'), ("ndiv_sound", &nd, '/')] {
        if let Ok(n) = r {
            match n.unit {
                Some(u) => {
                    if let Some(w) = unsound(a, b, u, op) {
                        out.fail(kind, format!("{X}{an} {op} {Y}{bn} has unit {}: {w}", u.name()));
                    }
                }
                None => out.fail(kind, format!("{X}{an} {op} {Y}{bn} is Ok without a unit")),
            }
        }
    }

    // the same four operators where the result leaves the finite range (overflow of a sum, a difference, a product;
    // division by a zero quantity; 0/0) or underflows: whether and which unit the result carries does not depend on
    // the magnitudes
    for (x, y) in [(1.7e308, 1.7e308), (-1.7e308, 1.7e308), (1.0e200, 1.0e200), (5.0, 0.0), (0.0, 0.0), (-3.0, -0.0), (1.0e-300, 1.0e300), (f64::MIN_POSITIVE, 0.5)] {
        let (pa, pb) = (Number { value: x, unit: Some(a) }, Number { value: y, unit: Some(b) });
        let unit_of = |r: &Result<Number, String>| -> Option<Option<&'static str>> { r.as_ref().ok().map(|n| n.unit.map(|u| u.name())) };
        let same_val = |got: f64, want: f64| (got.is_nan() && want.is_nan()) || got == want;
        for (kind, got, ref_res, want) in [
            ("add_unit", pa + pb, &add, x + y),
            ("sub_unit", pa - pb, &sub, x - y),
            ("nmul_sound", pa * pb, &nm, x * y),
            ("ndiv_sound", pa / pb, &nd, x / y),
        ] {
            if unit_of(&got) != unit_of(ref_res) {
                out.fail(
                    kind,
                    format!("{x}{an} and {y}{bn}: the result is {:?}, with the magnitudes {X} and {Y} it is {:?} (Ok/Err and the unit must not depend on the magnitudes)", unit_of(&got), unit_of(ref_res)),
                );
            }
            if let Ok(n) = &got {
                if !same_val(n.value, want) {
                    out.fail(kind, format!("{x}{an} and {y}{bn}: value {} instead of {want}", n.value));
                }
            }
        }
    }

    out.req(
        format!("C16 pair {an} {bn}"),
        format!(
            "c={} m={} d={} a={} s={} nm={} nd={}",
            if conv_ok == Some(true) { "ok" } else { "err" },
            uname(&m), uname(&d), nname(&add), nname(&sub), nname(&nm), nname(&nd)
        ),
    );
    out.stat(if conv_ok == Some(true) { "conv:ok" } else { "conv:err" });
    out.nontrivial = interesting;
}

fn exec_solo(a: &'static Unit, out: &mut CaseOut) {
    let na = Number { value: X, unit: Some(a) };
    let n0 = Number { value: Y, unit: None };
    let rs = [na + n0, na - n0, na * n0, na / n0, n0 + na, n0 - na, n0 * na, n0 / na];
    let txt: Vec<String> = rs.iter().map(nname).collect();
    out.req(format!("C16 solo {}", a.name()), txt.join(" "));
    out.nontrivial = true;
}

fn exec_none(out: &mut CaseOut) {
    let p = Number { value: X, unit: None };
    let q = Number { value: Y, unit: None };
    let rs = [p + q, p - q, p * q, p / q];
    // the common "unit" of two unit-less Numbers is no unit
    for (i, (r, want)) in rs.iter().zip([X + Y, X - Y]).enumerate() {
        let kind = if i == 0 { "add_unit" } else { "sub_unit" };
        match r {
            Ok(n) if n.unit.is_none() && n.value == want => {}
            other => out.fail(kind, format!("{X} ± {Y} (no units) gives {other:?}")),
        }
    }
    let txt: Vec<String> = rs.iter().map(nname).collect();
    out.req("C16 none".to_string(), txt.join(" "));
    out.nontrivial = true;
}

pub fn exec(label: &str, input: &str, out: &mut CaseOut) {
    let names: Vec<&str> = input.split_whitespace().collect();
    let kind = label.split(':').next().unwrap_or(label);
    match (kind, names.as_slice()) {
        ("none", []) => exec_none(out),
        ("solo", [a]) => match by_name(a) {
            Some(a) => exec_solo(a, out),
            None => out.fail("harness", format!("no database unit named {a}")),
        },
        ("pair", [a, b]) => match (by_name(a), by_name(b)) {
            (Some(a), Some(b)) => exec_pair(input, a, b, out),
            _ => out.fail("harness", format!("no database units named {a} / {b}")),
        },
        _ => out.fail("harness", "unparsable C16 input".into()),
    }
}

pub fn generate(ctx: &mut Ctx) {
    let us = units();
    let n = us.len();
    ctx.case("none", "");
    if !ctx.quick() {
        // exhaustive: every ordered pair of database units
        for a in us.iter() {
            for b in us.iter() {
                ctx.case("pair", &format!("{} {}", a.name(), b.name()));
            }
        }
        for u in us.iter() {
            ctx.case("solo", u.name());
        }
        return;
    }
    // quick: a deterministic sample.
    let mut seen: BTreeSet<(usize, usize)> = BTreeSet::new();
    fn emit_pair(seen: &mut BTreeSet<(usize, usize)>, ctx: &mut Ctx, label: &str, i: usize, j: usize) {
        let us = units();
        if seen.insert((i, j)) {
            ctx.case(label, &format!("{} {}", us[i].name(), us[j].name()));
        }
    }
    // (1) all ordered pairs among the temperature, byte and quantity-"dimensionless" units
    let special: Vec<usize> = (0..n)
        .filter(|&i| {
            let q = us[i].quantity.as_deref().unwrap_or("");
            q.starts_with("temperature") || q == "bytes" || q == "dimensionless"
        })
        .collect();
    for &i in &special {
        for &j in &special {
            emit_pair(&mut seen, ctx, "pair:special", i, j);
        }
    }
    // (2) pairs whose composed name `a_b`, `a_per_b`, `as_per_b` is the name of a database unit
    for u in us.iter() {
        let name = u.name();
        for (pos, _) in name.match_indices('_') {
            let (l, r) = (&name[..pos], &name[pos + 1..]);
            let mut cands: Vec<(String, String)> = vec![(l.to_string(), r.to_string())];
            if let Some(r2) = r.strip_prefix("per_") {
                cands.push((l.to_string(), r2.to_string()));
                if let Some(l2) = l.strip_suffix('s') {
                    cands.push((l2.to_string(), r2.to_string()));
                }
            }
            for (x, y) in cands {
                if let (Ok(i), Ok(j)) = (us.binary_search_by(|u| u.name().cmp(&x)), us.binary_search_by(|u| u.name().cmp(&y))) {
                    emit_pair(&mut seen, ctx, "pair:composed", i, j);
                }
            }
        }
    }
    // (3) the `units.len() == 1` path of Mul/Div: a unit with a single id is the only thing `match_units` can
    //     return alone.  Every pair with such a unit as an operand, and every pair whose exponent sum or
    //     difference (either way round) is that of such a unit.
    let single: Vec<usize> = (0..n).filter(|&i| us[i].ids.len() == 1).collect();
    for &k in &single {
        for i in 0..n {
            emit_pair(&mut seen, ctx, "pair:single", i, k);
            emit_pair(&mut seen, ctx, "pair:single", k, i);
        }
        let Some(dk) = us[k].dimensions.as_ref().map(dims16) else { continue };
        for i in 0..n {
            let Some(di) = us[i].dimensions.as_ref().map(dims16) else { continue };
            for j in 0..n {
                let Some(dj) = us[j].dimensions.as_ref().map(dims16) else { continue };
                let hit = (0..7).all(|t| di[t] + dj[t] == dk[t]) || (0..7).all(|t| di[t] - dj[t] == dk[t]) || (0..7).all(|t| dj[t] - di[t] == dk[t]);
                if hit && approx_any(us[i].scale, us[j].scale, us[k].scale) {
                    emit_pair(&mut seen, ctx, "pair:single", i, j);
                }
            }
        }
    }
    // (4) random pairs: half of them inside one dimension class (convertible), every unit paired with itself
    let mut rng = ctx.rng.fork();
    for i in 0..n {
        emit_pair(&mut seen, ctx, "pair:self", i, i);
    }
    let mut classes: BTreeMap<String, Vec<usize>> = BTreeMap::new();
    for (i, u) in us.iter().enumerate() {
        classes.entry(format!("{:?}", u.dimensions)).or_default().push(i);
    }
    let classes: Vec<Vec<usize>> = classes.into_values().filter(|c| c.len() > 1).collect();
    let target = seen.len() + ctx.n(3000, 3000) as usize;
    let mut guard = 0;
    while seen.len() < target && guard < 100_000 {
        guard += 1;
        if rng.chance(1, 2) {
            let c = rng.pick(&classes);
            let (i, j) = (*rng.pick(c), *rng.pick(c));
            emit_pair(&mut seen, ctx, "pair:samedim", i, j);
        } else {
            let (i, j) = (rng.below(n as u64) as usize, rng.below(n as u64) as usize);
            emit_pair(&mut seen, ctx, "pair:random", i, j);
        }
    }
    for u in us.iter() {
        ctx.case("solo", u.name());
    }
}
