//! C03 — decoders are total: any input gives a value or an error, never a crash or hang.
//!
//! input: `<mode> <hex bytes> [params]`
//!   dec   : Parser::make(cursor).parse_value() (and from_str when the bytes are UTF-8)      -> `C03 dec H`
//!   rows  : parse_grid_iterator driven to the end over a counting reader                     -> `C03 rows H`
//!   json  : serde_json::from_slice::<Value>                                                  (oracle only)
//!   io    : decode through a reader that delivers `chunk`-sized reads, injects `Interrupted`, and
//!           fails with an I/O error from offset `fail_at` on (`-` = never)                    (oracle only)
//! A panic is caught by the runner (kind `panic`), a hang by the watchdog (kind `hang`), an abort
//! (stack overflow) by `check` (kind `abort`); each carries this input as the replay.

use crate::ctx::{CaseOut, Ctx};
use crate::gen::{self, Cfg};
use crate::vx;
use libhaystack::encoding::zinc::decode::parser::Parser;
use libhaystack::encoding::zinc::decode::{from_str, parse_grid_iterator};
use libhaystack::encoding::zinc::encode::to_zinc_string;
use libhaystack::val::*;
use std::io::{Cursor, Read};

/// counts the bytes handed out
pub struct CountingReader<'a> {
    pub data: &'a [u8],
    pub pos: usize,
}
impl<'a> Read for CountingReader<'a> {
    fn read(&mut self, buf: &mut [u8]) -> std::io::Result<usize> {
        let n = buf.len().min(self.data.len() - self.pos);
        buf[..n].copy_from_slice(&self.data[self.pos..self.pos + n]);
        self.pos += n;
        Ok(n)
    }
}

/// delivers at most `chunk` bytes per read, returns `Interrupted` before every `intr`-th read,
/// and fails with an I/O error once `fail_at` bytes have been delivered
pub struct FaultyReader<'a> {
    pub data: &'a [u8],
    pub pos: usize,
    pub chunk: usize,
    pub intr: usize,
    pub fail_at: Option<usize>,
    pub calls: usize,
    pub transient: bool,
    pub failed_once: bool,
}
impl<'a> Read for FaultyReader<'a> {
    fn read(&mut self, buf: &mut [u8]) -> std::io::Result<usize> {
        self.calls += 1;
        if self.intr > 0 && self.calls % self.intr == 0 {
            return Err(std::io::Error::new(std::io::ErrorKind::Interrupted, "interrupted"));
        }
        if let Some(k) = self.fail_at {
            if self.pos >= k && !(self.transient && self.failed_once) {
                self.failed_once = true;
                return Err(std::io::Error::new(std::io::ErrorKind::Other, "injected I/O error"));
            }
        }
        let mut n = buf.len().min(self.chunk.max(1)).min(self.data.len() - self.pos);
        if let Some(k) = self.fail_at {
            if self.pos < k {
                n = n.min(k - self.pos);
            }
        }
        buf[..n].copy_from_slice(&self.data[self.pos..self.pos + n]);
        self.pos += n;
        Ok(n)
    }
}

pub fn decode_bytes(bytes: &[u8]) -> Result<Value, ()> {
    let mut cur = Cursor::new(bytes);
    let mut parser = Parser::make(&mut cur).map_err(|_| ())?;
    parser.parse_value().map_err(|_| ())
}

pub fn dec_reply(bytes: &[u8]) -> String {
    match decode_bytes(bytes) {
        Ok(v) => format!("ok {}", vx::show(&v)),
        Err(_) => "err".into(),
    }
}

/// `ok (r <consumed> {dict} | e)* end` or `err` when the header does not parse
pub fn rows_reply(bytes: &[u8]) -> String {
    let mut rd = CountingReader { data: bytes, pos: 0 };
    let mut parser = match Parser::make(&mut rd) {
        Ok(p) => p,
        Err(_) => return "err".into(),
    };
    let mut toks: Vec<String> = vec!["ok".into()];
    // the reader is borrowed by the parser: observe consumption through a raw pointer to `pos`
    let it = match parse_grid_iterator(&mut parser) {
        Ok(it) => it,
        Err(_) => return "err".into(),
    };
    let mut n = 0usize;
    let mut failed = false;
    for item in it {
        n += 1;
        if n > bytes.len() + 3 {
            toks.push("unbounded".into());
            return toks.join(" ");
        }
        match item {
            Ok(_) if failed => toks.push("row-after-error".into()),
            Ok(row) => {
                toks.push("row".into());
                toks.push("?".into()); // consumption is filled in by rows_reply_counted
                vx::w_dict(&row, &mut toks);
            }
            Err(_) => {
                // reported once; the consumer keeps iterating: the stream must still end
                if !failed {
                    toks.push("e".into());
                }
                failed = true;
            }
        }
    }
    toks.push("end".into());
    toks.join(" ")
}

/// same as `rows_reply`, with the number of bytes the scanner had pulled from the reader when each
/// row was handed out (a shared counter the reader updates)
pub fn rows_reply_counted(bytes: &[u8]) -> String {
    use std::cell::Cell;
    use std::rc::Rc;
    struct Shared<'a> {
        data: &'a [u8],
        pos: Rc<Cell<usize>>,
    }
    impl<'a> Read for Shared<'a> {
        fn read(&mut self, buf: &mut [u8]) -> std::io::Result<usize> {
            let p = self.pos.get();
            let n = buf.len().min(self.data.len() - p);
            buf[..n].copy_from_slice(&self.data[p..p + n]);
            self.pos.set(p + n);
            Ok(n)
        }
    }
    let pos = Rc::new(Cell::new(0usize));
    let mut rd = Shared { data: bytes, pos: pos.clone() };
    let mut parser = match Parser::make(&mut rd) {
        Ok(p) => p,
        Err(_) => return "err".into(),
    };
    let it = match parse_grid_iterator(&mut parser) {
        Ok(it) => it,
        Err(_) => return "err".into(),
    };
    let mut toks: Vec<String> = vec!["ok".into()];
    let mut n = 0usize;
    let mut failed = false;
    for item in it {
        n += 1;
        if n > bytes.len() + 3 {
            toks.push("unbounded".into());
            return toks.join(" ");
        }
        match item {
            Ok(_) if failed => toks.push("row-after-error".into()),
            Ok(row) => {
                toks.push("row".into());
                toks.push(pos.get().to_string());
                vx::w_dict(&row, &mut toks);
            }
            Err(_) => {
                // reported once; the consumer keeps iterating: the stream must still end
                if !failed {
                    toks.push("e".into());
                }
                failed = true;
            }
        }
    }
    toks.push("end".into());
    toks.join(" ")
}

pub fn exec(_label: &str, input: &str, out: &mut CaseOut) {
    let mut parts = input.split(' ');
    let mode = parts.next().unwrap_or("");
    let bytes = match parts.next().and_then(vx::unhex) {
        Some(b) => b,
        None => {
            out.fail("harness", "unparsable C03 input".into());
            return;
        }
    };
    out.nontrivial = !bytes.is_empty();
    match mode {
        "dec" => {
            let reply = dec_reply(&bytes);
            out.stat(if reply == "err" { "dec:err" } else { "dec:ok" });
            if let Ok(s) = std::str::from_utf8(&bytes) {
                let r2 = match from_str(s) {
                    Ok(v) => format!("ok {}", vx::show(&v)),
                    Err(_) => "err".into(),
                };
                if r2 != reply {
                    out.fail("from_str_vs_parser", format!("from_str gives {r2}, Parser gives {reply}"));
                }
            }
            out.req(format!("C03 dec {}", vx::hex(&bytes)), reply);
        }
        "rows" => {
            let reply = rows_reply_counted(&bytes);
            out.stat(if reply == "err" { "rows:err" } else { "rows:ok" });
            out.req(format!("C03 rows {}", vx::hex(&bytes)), reply);
        }
        "json" => {
            let r: Result<Value, _> = serde_json::from_slice(&bytes);
            out.stat(if r.is_ok() { "json:ok" } else { "json:err" });
            if let Ok(s) = std::str::from_utf8(&bytes) {
                let r2: Result<Value, _> = serde_json::from_str(s);
                if r.is_ok() != r2.is_ok() {
                    out.fail("json_str_vs_slice", "from_str and from_slice disagree".into());
                }
            }
        }
        "io" => {
            let chunk: usize = parts.next().and_then(|s| s.parse().ok()).unwrap_or(1);
            let intr: usize = parts.next().and_then(|s| s.parse().ok()).unwrap_or(0);
            let fail_tok = parts.next().unwrap_or("-");
            let transient = parts.next() == Some("t");
            let fail_at: Option<usize> = fail_tok.parse().ok();
            let plain = decode_bytes(&bytes);
            let mut rd = FaultyReader { data: &bytes, pos: 0, chunk, intr, fail_at, calls: 0, transient, failed_once: false };
            let got = match Parser::make(&mut rd) {
                Ok(mut p) => p.parse_value().map_err(|_| ()),
                Err(_) => Err(()),
            };
            out.stat(if fail_at.is_some() { "io:fault" } else { "io:chunked" });
            if fail_at.is_none() {
                // chunking and Interrupted must be invisible
                let a = plain.as_ref().map(vx::show).map_err(|_| ());
                let b = got.as_ref().map(vx::show).map_err(|_| ());
                if a != b {
                    out.fail("chunk_variance", format!("chunk={chunk} intr={intr}: {b:?} instead of {a:?}"));
                }
            }
            // rows through the same reader
            let mut rd = FaultyReader { data: &bytes, pos: 0, chunk, intr, fail_at, calls: 0, transient, failed_once: false };
            if let Ok(mut p) = Parser::make(&mut rd) {
                if let Ok(it) = parse_grid_iterator(&mut p) {
                    let mut n = 0usize;
                    for item in it {
                        n += 1;
                        if n > bytes.len() + 3 {
                            out.fail("unbounded_iterator", "the row iterator keeps yielding items".into());
                            break;
                        }
                        // a consumer that notes an error and goes on iterating must come to an end too
                        let _ = item.is_err();
                    }
                }
            }
        }
        _ => out.fail("harness", format!("unknown mode {mode}")),
    }
}

pub fn zinc_alphabet_bytes(rng: &mut crate::rng::Rng, n: usize) -> Vec<u8> {
    const TOKENS: &[&str] = &[
        "ver:\"3.0\"", "\n", "\r\n", "\r", ",", " ", "  ", "\t", "[", "]", "{", "}", "<<", ">>", "<", ">", ":", "a", "b", "dis", "empty", "N", "NA",
        "M", "R", "T", "F", "NaN", "INF", "-INF", "-", "1", "12", "-3.5", "1e5", "1E-3", "1e3.0", "1e3.5", "1E-3.00000000000000000000000001", "1e0.99999999999999999999999", "1e+-3", "5kW", "100%", "1_000", "2021-03-04", "12:30:00",
        "12:30:00.123", "2021-03-04T12:30:00Z", "2021-03-04T12:30:00-05:00 New_York", "2021-03-04T12:30:00Z UTC", "@a", "@a \"x\"", "^sym",
        "\"str\"", "\"a\\nb\"", "\"\\u00e9\"", "\"\\uD83D\\uDE00\"", "\"\\ud800\"", "`\\uDFFF`", "@r \"\\uDBFF\"", "\\uD83D", "\"", "`uri`", "`", "\\", "C(1,2)", "C(", "Bin(\"x\")", "Xyz", "(", ")", "é", "\u{1F600}", "$", "_", ".",
        "0", "9999", "e", "E", "Z", "+", "/",
    ];
    let mut out = Vec::new();
    while out.len() < n {
        if rng.chance(1, 12) {
            out.push(rng.below(256) as u8);
        } else {
            out.extend_from_slice(rng.pick(TOKENS).as_bytes());
        }
    }
    out
}

pub fn mutate_bytes(rng: &mut crate::rng::Rng, b: &[u8]) -> Vec<u8> {
    let mut v = b.to_vec();
    if v.is_empty() {
        return vec![rng.below(256) as u8];
    }
    let i = rng.below(v.len() as u64) as usize;
    match rng.below(6) {
        0 => v[i] ^= 1 << rng.below(8),
        1 => v.insert(i, rng.below(256) as u8),
        2 => {
            v.remove(i);
        }
        3 => {
            let c = v[i];
            v.insert(i, c);
        }
        4 => {
            // token splice
            let t = zinc_alphabet_bytes(rng, 1);
            for (k, c) in t.iter().enumerate() {
                v.insert(i + k, *c);
            }
        }
        _ => {
            // delete a run
            let n = (rng.below(6) as usize + 1).min(v.len() - i);
            v.drain(i..i + n);
        }
    }
    v
}

pub fn sample_docs(ctx: &mut Ctx, n: u64) -> Vec<Vec<u8>> {
    let mut docs: Vec<Vec<u8>> = Vec::new();
    let fixed: &[&str] = &[
        "ver:\"3.0\"\na\n1,2\n",
        "ver:\"3.0\"\na\n\"x\" ",
        "ver:\"3.0\"\nempty\n\nver:\"3.0\"\nemp\n",
        "ver:\"3.0\" dis:\"x\" m\na dis:\"A\",b,c u:`x`\n1,,3\n,N,\n\n",
        "ver:\"3.0\"\r\na,b\r\n1,2\r\n",
        "ver:\"3.0\"\ra,b\r1,2\r",
        "ver:\"2.0\"\nid,dis\n@a \"A\",\"x\"\n@b,\n",
        "[1, 2 ,3,]",
        "{a:1 b:\"x\", c}",
        "[<<\nver:\"3.0\"\na\n1\n>>,2]",
        "ver:\"3.0\"\na\n<<\nver:\"3.0\"\nb\n<<\nver:\"3.0\"\nc\n1\n>>\n>>\n",
        "2021-03-04T12:30:00-05:00 New_York",
        "2021-03-04T12:30:00Z",
        "1.5e-3kW",
        "C(37.5,-77.4)",
        "Bin(\"text/plain\")",
        "@p:demo:r:1 \"Dis \\\"x\\\"\"",
    ];
    for f in fixed {
        docs.push(f.as_bytes().to_vec());
    }
    while (docs.len() as u64) < n {
        let mut rng = ctx.rng.fork();
        let cfg = if rng.chance(3, 4) { Cfg::wf(3) } else { Cfg::any(3) };
        let v = if rng.chance(1, 2) { Value::Grid(gen::grid(&mut rng, &cfg, 0)) } else { gen::value(&mut rng, &cfg) };
        if let Ok(Ok(t)) = std::panic::catch_unwind(|| to_zinc_string(&v)) {
            if t.len() < 600 {
                docs.push(t.into_bytes());
            }
        }
    }
    docs
}

pub fn generate(ctx: &mut Ctx) {
    let docs = sample_docs(ctx, ctx.n(40, 300));
    // every prefix of every document, whole value and row by row
    for d in &docs {
        for k in 0..=d.len() {
            let h = vx::hex(&d[..k]);
            ctx.case("prefix:dec", &format!("dec {h}"));
            if d.starts_with(b"ver") {
                ctx.case("prefix:rows", &format!("rows {h}"));
            }
        }
    }
    // mutants
    let n = ctx.n(3000, 150_000);
    for _ in 0..n {
        let mut rng = ctx.rng.fork();
        let d = rng.pick(&docs).clone();
        let mut m = mutate_bytes(&mut rng, &d);
        if rng.chance(1, 3) {
            m = mutate_bytes(&mut rng, &m);
        }
        let h = vx::hex(&m);
        ctx.case("mutant:dec", &format!("dec {h}"));
        if rng.chance(1, 2) {
            ctx.case("mutant:rows", &format!("rows {h}"));
        }
    }
    // token soup and raw bytes
    let n = ctx.n(3000, 150_000);
    for _ in 0..n {
        let mut rng = ctx.rng.fork();
        let len = rng.below(40) as usize + 1;
        let b = if rng.chance(1, 5) { (0..len).map(|_| rng.below(256) as u8).collect() } else { zinc_alphabet_bytes(&mut rng, len) };
        let h = vx::hex(&b);
        ctx.case("soup:dec", &format!("dec {h}"));
        if rng.chance(1, 3) {
            let mut g = b"ver:\"3.0\"\na,b\n".to_vec();
            g.extend_from_slice(&b);
            ctx.case("soup:rows", &format!("rows {}", vx::hex(&g)));
        }
    }
    // EVERY string up to a length over the bytes the lexer dispatches on: the whole of a small input space, so that the
    // model and the code are compared on every boundary between two token kinds, not on a sample of them
    {
        let alpha: &[u8] = b"1-.e:TZ\"`@^a_N<>[]{},( \n\\$C/+";
        let max_len = if ctx.quick() { 3 } else { 4 };
        let mut buf: Vec<u8> = Vec::new();
        fn rec(ctx: &mut Ctx, alpha: &[u8], buf: &mut Vec<u8>, left: usize) {
            ctx.case("short:dec", &format!("dec {}", vx::hex(buf)));
            if left == 0 {
                return;
            }
            for &b in alpha {
                buf.push(b);
                rec(ctx, alpha, buf, left - 1);
                buf.pop();
            }
        }
        rec(ctx, alpha, &mut buf, max_len);
        // the same strings (up to one byte shorter) as the row lines of a two-column grid
        let mut buf: Vec<u8> = Vec::new();
        fn rec_rows(ctx: &mut Ctx, alpha: &[u8], buf: &mut Vec<u8>, left: usize) {
            let mut g = b"ver:\"3.0\"\na,b\n".to_vec();
            g.extend_from_slice(buf);
            ctx.case("short:rows", &format!("rows {}", vx::hex(&g)));
            if left == 0 {
                return;
            }
            for &b in alpha {
                buf.push(b);
                rec_rows(ctx, alpha, buf, left - 1);
                buf.pop();
            }
        }
        rec_rows(ctx, alpha, &mut buf, max_len - 1);
    }
    // number spellings: every exponent 0..45 and the overflow / underflow boundaries, each sign, integral and
    // fractional mantissas, with and without a unit, alone and as a grid cell (a table-driven fast path of a number
    // reader has its edges at particular exponents, not at particular lengths)
    let mantissas: &[&str] = if ctx.quick() { &["1", "-7", "4", "1.5", "9007199254740993"] } else { &["1", "-7", "4", "1.5", "9007199254740993", "0", "-0", "12", "0.001", "123456789012345678901234567890", "9.999"] };
    let mut exps: Vec<i32> = (0..=45).collect();
    exps.extend_from_slice(&[99, 100, 290, 307, 308, 309, 310, 322, 323, 324, 325, 400, 1000]);
    for m in mantissas {
        for e in &exps {
            for sign in ["", "+", "-"] {
                for (letter, unit) in [("e", ""), ("E", "kW")] {
                    let t = format!("{m}{letter}{sign}{e}{unit}");
                    ctx.case("num:dec", &format!("dec {}", vx::hex(t.as_bytes())));
                    if *e % 5 == 3 || *e > 45 {
                        ctx.case("num:rows", &format!("rows {}", vx::hex(format!("ver:\"3.0\"\na,b\n{t},[{t}]\n").as_bytes())));
                    }
                }
            }
        }
    }
    // nesting depth 1 .. 10^5 (Zinc: model + implementation; JSON: implementation)
    let depths: &[usize] = if ctx.quick() { &[1, 10, 63, 64, 65, 100, 1000, 100_000] } else { &[1, 2, 10, 32, 63, 64, 65, 66, 100, 128, 129, 1000, 10_000, 100_000] };
    for &d in depths {
        for (open, close) in [
            ("[", "]"),
            ("{a:", "}"),
            ("<<\nver:\"3.0\"\na\n", "\n>>"),
            ("[{a:", "}]"),
            // grids nested through grid meta / column meta: no bracket opens these levels
            ("ver:\"3.0\" a:", ""),
            ("ver:\"3.0\"\nc m:", ""),
            ("ver:\"3.0\" a:[", "]"),
            // ... nor these: a grid whose first cell / second cell / only row's cell is again a bracket-less grid
            ("ver:\"3.0\"\na\n", ""),
            ("ver:\"3.0\"\na,b\n1,", ""),
            ("ver:\"3.0\" m\na\n", ""),
        ] {
            let mut s = String::new();
            for _ in 0..d {
                s.push_str(open);
            }
            let unterminated = s.clone();
            s.push_str(if open.starts_with("ver") { "ver:\"3.0\"\nb\n1\n" } else { "1" });
            for _ in 0..d {
                s.push_str(close);
            }
            // the Lean model walks lists: keep the largest inputs for the implementation only
            if s.len() <= 4000 {
                ctx.case("deep:dec", &format!("dec {}", vx::h(&s)));
                ctx.case("deep:dec", &format!("dec {}", vx::h(&unterminated)));
            } else {
                ctx.case("deep:io", &format!("io {} 4096 0 -", vx::h(&s)));
                ctx.case("deep:io", &format!("io {} 4096 0 -", vx::h(&unterminated)));
            }
        }
        for (open, close) in [("[", "]"), ("{\"a\":", "}"), ("{\"_kind\":\"dict\",\"a\":[", "]}")] {
            let mut s = String::new();
            for _ in 0..d {
                s.push_str(open);
            }
            let unterminated = s.clone();
            s.push('1');
            for _ in 0..d {
                s.push_str(close);
            }
            ctx.case("deep:json", &format!("json {}", vx::h(&s)));
            ctx.case("deep:json", &format!("json {}", vx::h(&unterminated)));
        }
    }
    // JSON: prefixes and mutants of encoder output
    let n = ctx.n(60, 400);
    for _ in 0..n {
        let mut rng = ctx.rng.fork();
        let v = gen::value(&mut rng, &Cfg::any(3));
        if let Ok(j) = serde_json::to_string(&v) {
            let jb = j.as_bytes();
            if jb.len() < 400 {
                for k in 0..=jb.len() {
                    ctx.case("prefix:json", &format!("json {}", vx::hex(&jb[..k])));
                }
            }
            for _ in 0..20 {
                let m = mutate_bytes(&mut rng, jb);
                ctx.case("mutant:json", &format!("json {}", vx::hex(&m)));
            }
        }
    }
    for j in [
        "{\"_kind\":\"xstr\",\"type\":\"\",\"val\":\"x\"}", "{\"_kind\":\"\\u0000x\"}", "{\"_kind\":1}", "{\"_kind\":\"grid\"}",
        "{\"_kind\":\"grid\",\"cols\":[1],\"rows\":[]}", "{\"_kind\":\"grid\",\"cols\":[],\"rows\":[1]}", "{\"_kind\":\"number\",\"val\":\"INF\"}",
        "{\"_kind\":\"number\",\"val\":\"x\"}", "{\"_kind\":\"dateTime\",\"val\":\"2021-01-01T00:00:00+99:00\"}", "{\"_kind\":\"coord\",\"lat\":\"a\"}",
        "1e999", "-1e999", "18446744073709551616", "[1,]", "{\"a\":}", "\u{feff}1",
    ] {
        ctx.case("fixed:json", &format!("json {}", vx::h(j)));
    }
    // every zone name of the bundled database - as the city alone, as the full id, under a wrong / unknown / empty region -
    // and unknown city-style names, one after the other in ONE process: whatever a decoder keeps between calls (a name
    // table, a cache with a size bound, an alias map) has seen several hundred distinct names when the last ones arrive
    {
        let mut names: Vec<String> = Vec::new();
        for tz in chrono_tz::TZ_VARIANTS.iter() {
            let id = tz.name();
            let city = id.rsplit('/').next().unwrap_or(id);
            let short = id.split_once('/').map_or(id, |x| x.1);
            names.push(short.to_string());
            if ctx.rng.chance(1, 6) {
                names.push(id.to_string());
            }
            if ctx.rng.chance(1, 12) {
                names.push(format!("Asia/{city}"));
                names.push(format!("Nowhere/{city}"));
                names.push(format!("/{city}"));
                names.push(format!("{city}/"));
                names.push(format!("{city}_{}", names.len()));
            }
        }
        for old in ["Kiev", "Kyiv", "Calcutta", "Kolkata", "Saigon", "Ho_Chi_Minh", "Katmandu", "Kathmandu", "Rangoon", "Yangon", "Asia/Kiev", "Europe/Kyiv", "Europe/Calcutta", "America/Kiev"] {
            names.push(old.to_string());
        }
        for n in &names {
            let z = format!("2021-06-01T12:00:00+01:00 {n}");
            ctx.case("zones:dec", &format!("dec {}", vx::h(&z)));
            let j = format!("{{\"_kind\":\"dateTime\",\"val\":\"2021-06-01T12:00:00+01:00\",\"tz\":\"{n}\"}}");
            ctx.case("zones:json", &format!("json {}", vx::h(&j)));
        }
    }
    // a connection that delivers pieces and then fails FOR EVER, every piece size 1..64 crossed with every failure
    // offset, on rows that end in the two look-aheads the scanner makes on its own (`Z` + optional zone name, `@id ` +
    // optional display name): whatever the scanner buffers must not be scanned a second time after the failure
    for doc in [
        "ver:\"3.0\"\nts\n2021-03-04T12:30:00Z\n2021-03-04T12:30:01Z\n2021-03-04T12:30:02Z\n2021-03-04T12:30:03Z\n",
        "ver:\"3.0\"\nr,x\n@abc ,1\n@abd ,2\n@abe ,3\n@abf ,4\n",
        "[2021-03-04T12:30:00Z,2021-03-04T12:30:01Z,@a ,@b ,2021-03-04T12:30:02Z]",
    ] {
        let h = vx::hex(doc.as_bytes());
        let kstep = if ctx.quick() { 1 } else { 1 };
        for chunk in 1usize..=64 {
            if ctx.quick() && chunk > 24 && chunk % 4 != 0 {
                continue;
            }
            for k in (0..=doc.len()).step_by(kstep) {
                ctx.case("io:dead", &format!("io {h} {chunk} 0 {k}"));
            }
        }
    }
    // chunked / interrupted / failing readers
    let ndocs = ctx.n(12, 100).min(docs.len() as u64) as usize;
    for d in docs.iter().take(ndocs) {
        let h = vx::hex(d);
        for chunk in [1usize, 2, 3, 7, 64] {
            for intr in [0usize, 2, 3] {
                ctx.case("io:chunk", &format!("io {h} {chunk} {intr} -"));
            }
        }
        let step = if ctx.quick() { 3 } else { 1 };
        for k in (0..=d.len()).step_by(step) {
            ctx.case("io:fail", &format!("io {h} 5 0 {k}"));
            ctx.case("io:fail", &format!("io {h} 1 3 {k} t"));
        }
    }
    // corpus files shipped with the repository (thorough: every prefix of the first 4 KiB)
    if !ctx.quick() {
        for f in ["/repo/benches/zinc/points.zinc", "/repo/tests/defs/defs.zinc"] {
            if let Ok(data) = std::fs::read(f) {
                let lim = data.len().min(4096);
                for k in 0..=lim {
                    ctx.case("corpus:dec", &format!("dec {}", vx::hex(&data[..k])));
                    if k % 7 == 0 {
                        ctx.case("corpus:rows", &format!("rows {}", vx::hex(&data[..k])));
                    }
                }
            }
        }
    }
}
