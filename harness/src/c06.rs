//! C06 — timestamps keep their instant and zone through every constructor and codec.
//!
//! Case inputs (self-contained):
//!   `rfc <utc_secs> <nanos> <off_secs> <style> H(zone name)|-`
//!        the RFC 3339 text of that instant at that offset (written by chrono; style 0 = AutoSi with `Z` for a
//!        zero offset, 1 = AutoSi with `+00:00`, 2 = nine fractional digits) through
//!        `DateTime::parse_from_rfc3339` and, with the zone name, `parse_from_rfc3339_with_timezone`
//!   `zone H(tzid) <t>`
//!        instants around `t` (an offset transition of the zone, or any instant): t-1h, t-1s, t, t+1s, t+1h and,
//!        when the offset changes by d at t, t-d-1, t-d, t-d/2, t+d/2, t+d-1, t+d (both sides of the repeated or
//!        skipped local hour), each with 0, 3, 6 and 9 fractional digits, through Zinc (`to_zinc_string` /
//!        `from_str`), Hayson (`serde_json`), the C constructors and getters; plus Zinc / Hayson texts that
//!        carry the offset of the OTHER side of the transition (local times inside the skipped / repeated hour)
//!   `lmt H(tzid) <utc_secs> <nanos>`
//!        one instant of a zone, ANY year (local mean time: the zone's offset has seconds, e.g. Amsterdam +0:19:32
//!        until 1937): Zinc, Hayson and `parse_from_rfc3339_with_timezone` on the writer's text, plus texts with
//!        the same wall-clock time and other offsets (truncated instead of rounded, one minute off, zero)
//!   `offsweep`  offsets across chrono's whole range through `to_rfc3339_opts` (minute rounding, `Z`)
//!   `names`   every zone id, every short name, and near-miss names through `parse_from_rfc3339_with_timezone`
//!
//! Correspondence requests (answered by Hs.Drv.C06):
//!   `C06 offtext <off>`                                 -> `ok H(text)`    FixedOffset's Display text
//!   `C06 rfc <local_secs> <ns> <off> DB`                -> DT              make_date_time
//!   `C06 rfcoff <off>`                                  -> `ok H(text) <secs>`  the offset text of to_rfc3339_opts(_, true)
//!                                                                           and the offset that text denotes (rounded)
//!   `C06 withtz <utc_secs> <ns> H(name) DB`             -> DT              make_date_time_with_tz
//!   `C06 fromtext <utc_secs> <ns> <written off> H(name) DB` -> DT          make_date_time_from_text
//!                                                                           (parse_from_rfc3339_with_timezone)
//!   `C06 zenc H(tzid) H(rfc3339 text)`                  -> `ok H(text)`    ToZinc for DateTime
//!   `C06 jenc H(tzid) H(rfc3339 text)`                  -> `ok H(val) H(tz)|-`
//!   `C06 zdec <local_secs> <ns> H(offtext) H(name)|- DB`-> DT              zinc parse_datetime at field level
//!   `C06 jdec <local_secs> <ns> <off> H(name)|- DB`     -> DT              json parse_datetime
//!   `C06 capi <utc_secs> <ns> H(name) DB`               -> DT + local secs haystack_value_make_tz_datetime + getters
//!   `C06 zones <count> <fnv of the sorted ids>`         -> `ok`            the translated zone list is the compiled one
//! `DT ::= ok <utc_secs> <ns> <offset> H(tzid) H(short name) | err`
//! `DB ::= k (H(tzid) <instant> <offset at that instant>)*k` — chrono-tz's answer for the zones the name could mean
//!        (the model takes the zone offset function as a parameter) at the instants the request can reach: the
//!        instant of the text and, where the zone's offset there has seconds, that instant minus them.
//!
//! Oracles on the real code:
//!   rfc_instant     parse_from_rfc3339 is Err or gives exactly the instant of the text
//!   with_tz         parse_from_rfc3339_with_timezone(text, name) for a zone id or an unambiguous city name gives
//!                   that instant in that zone
//!   zinc_rt / json_rt   decode(encode(dt)) has the same instant, local offset and short zone name (zones with an
//!                   unambiguous city name); `lmt` cases: demanded under the hypotheses of `C06_rt_subminute`
//!                   (the zone has the same offset at the instant chrono reads from the text; the rounded offset
//!                   is one a text can carry; Hayson: the rounded offset is accepted by parse_from_rfc3339)
//!   text_rt         `lmt` cases: parse_from_rfc3339_with_timezone(writer's text, city name) likewise
//!   capi            the C constructors/getters agree with the Rust value
//!   stale_offset    a Zinc / Hayson text whose offset is not the zone's at that instant is Err or keeps the instant
//!   etc_offset      `Etc/GMT-+N` has the constant offset +-N h, `UTC` 0 (the TzDb hypothesis `EtcOk` of the theorems)
//!   db_offset_range every offset met is a whole number of minutes within -12 h..+14 h (hypothesis `OffsetOk`)

use crate::ctx::{CaseOut, Ctx};
use crate::gen;
use crate::rng::Rng;
use crate::vx::{h, Rd};
use chrono::{FixedOffset, NaiveDateTime, Offset, SecondsFormat, TimeZone, Timelike, Utc};
use chrono_tz::Tz;
use libhaystack::encoding::zinc::decode::from_str as zinc_from_str;
use libhaystack::encoding::zinc::encode::ToZinc;
use libhaystack::val::*;
use std::collections::{HashMap, HashSet};
use std::ffi::{CStr, CString};
use std::sync::OnceLock;

const Y1980: i64 = 315_532_800;
const Y2060: i64 = 2_840_140_800;
const PRECISIONS: [u32; 4] = [0, 123_000_000, 123_456_000, 123_456_789];
/// fractions whose FIRST digits are zeros, whose last digits are zeros, single digits, the extremes: every probe
/// takes one of them (by its index) in place of the three-digit precision
const ODD_FRACTIONS: [u32; 12] =
    [45_000_000, 7_000_000, 1, 500_000_000, 120_000_000, 999_999_999, 1_000, 100_000, 90_000_000, 10, 1_001_000, 900_000_000];

fn off_at(tz: &Tz, secs: i64) -> i64 {
    let ndt = chrono::DateTime::<Utc>::from_timestamp(secs, 0).expect("instant").naive_utc();
    tz.offset_from_utc_datetime(&ndt).fix().local_minus_utc() as i64
}

fn unambiguous() -> &'static HashSet<String> {
    static CELL: OnceLock<HashSet<String>> = OnceLock::new();
    CELL.get_or_init(|| gen::unambiguous_zones().iter().map(|z| z.name().to_string()).collect())
}

/// zones a name could mean: by id or by short name
fn by_name() -> &'static HashMap<String, Vec<Tz>> {
    static CELL: OnceLock<HashMap<String, Vec<Tz>>> = OnceLock::new();
    CELL.get_or_init(|| {
        let mut m: HashMap<String, Vec<Tz>> = HashMap::new();
        for z in gen::all_zones() {
            m.entry(z.name().to_string()).or_default().push(z);
            let s = gen::short_name(&z);
            if s != z.name() {
                m.entry(s).or_default().push(z);
            }
        }
        m
    })
}

/// the offset as a text of minute precision carries it
fn round_min(off: i64) -> i64 {
    off.signum() * ((off.abs() + 30) / 60) * 60
}

/// `Z` or `+hh:mm` / `-hh:mm` -> seconds
fn off_of_text(s: &str) -> Option<i64> {
    if s == "Z" {
        return Some(0);
    }
    let b = s.as_bytes();
    if b.len() != 6 || b[3] != b':' || !(b[0] == b'+' || b[0] == b'-') {
        return None;
    }
    let hh: i64 = s[1..3].parse().ok()?;
    let mm: i64 = s[4..6].parse().ok()?;
    Some(if b[0] == b'-' { -(hh * 3600 + mm * 60) } else { hh * 3600 + mm * 60 })
}

/// `DB` for a name at some instants (UTC and the fixed zones are always included)
fn db_for(names: &[&str], instants: &[i64]) -> String {
    let mut zs: Vec<Tz> = vec![chrono_tz::UTC];
    for n in names {
        if let Some(v) = by_name().get(*n) {
            zs.extend(v.iter().copied());
        }
        // whatever the prefix search could find
        for z in gen::all_zones() {
            if z.name().ends_with(&format!("/{n}")) && !zs.contains(&z) {
                zs.push(z);
            }
        }
    }
    let mut seen = HashSet::new();
    let mut out = Vec::new();
    for z in zs {
        for x in instants.iter().copied() {
            let o = off_at(&z, x);
            // where the offset has seconds the reader looks at the instant minus them as well
            for t in [x, x - (o - round_min(o))] {
                if seen.insert((z.name(), t)) {
                    out.push(format!("{} {t} {}", h(z.name()), off_at(&z, t)));
                }
            }
        }
    }
    format!("{} {}", out.len(), out.join(" "))
}

fn etc_name(off: i64) -> Option<String> {
    if off % 3600 != 0 {
        return None;
    }
    let n = off / 3600;
    Some(if n == 0 {
        "UTC".to_string()
    } else if n > 0 {
        format!("Etc/GMT-{n}")
    } else {
        format!("Etc/GMT+{}", -n)
    })
}

fn dt_reply(dt: &DateTime) -> String {
    format!(
        "ok {} {} {} {} {}",
        dt.timestamp(),
        dt.timestamp_subsec_nanos(),
        dt.offset().fix().local_minus_utc(),
        h(dt.timezone().name()),
        h(&dt.timezone_short_name())
    )
}

fn tuple(dt: &DateTime) -> (i64, u32, i32, String) {
    (dt.timestamp(), dt.timestamp_subsec_nanos(), dt.offset().fix().local_minus_utc(), dt.timezone_short_name())
}

pub fn exec(_label: &str, input: &str, out: &mut CaseOut) {
    let (cmd, rest) = input.split_once(' ').unwrap_or((input, ""));
    match cmd {
        "rfc" => exec_rfc(rest, out),
        "zone" => exec_zone(rest, out),
        "lmt" => exec_lmt(rest, out),
        "offsweep" => exec_offsweep(out),
        "names" => exec_names(out),
        "etc" => exec_etc(out),
        _ => out.fail("harness", format!("unknown C06 case `{cmd}`")),
    }
}

fn rfc_text(secs: i64, ns: u32, off: i32, style: u32) -> Option<String> {
    let fo = FixedOffset::east_opt(off)?;
    let dt = fo.timestamp_opt(secs, ns).single()?;
    Some(match style {
        0 => dt.to_rfc3339_opts(SecondsFormat::AutoSi, true),
        1 => dt.to_rfc3339_opts(SecondsFormat::AutoSi, false),
        _ => dt.to_rfc3339_opts(SecondsFormat::Nanos, true),
    })
}

fn exec_rfc(rest: &str, out: &mut CaseOut) {
    let mut rd = Rd::new(rest);
    let parsed = (|| Some((rd.num::<i64>()?, rd.num::<u32>()?, rd.num::<i32>()?, rd.num::<u32>()?, rd.hos()?)))();
    let (secs, ns, off, style, name) = match parsed {
        Some(x) => x,
        None => return out.fail("harness", "unparsable C06 rfc input".into()),
    };
    let text = match rfc_text(secs, ns, off, style) {
        Some(t) => t,
        None => return out.fail("harness", "offset out of chrono's range".into()),
    };
    out.nontrivial = true;
    let local = secs + off as i64;
    out.req(format!("C06 offtext {off}"), format!("ok {}", h(&FixedOffset::east_opt(off).unwrap().to_string())));
    req_rfcoff(off, out);
    // ---- parse_from_rfc3339 ------------------------------------------------------------------
    let r = DateTime::parse_from_rfc3339(&text);
    let etc: Vec<String> = etc_name(off as i64).into_iter().collect();
    let etc_refs: Vec<&str> = etc.iter().map(|s| s.as_str()).collect();
    out.req(
        format!("C06 rfc {local} {ns} {off} {}", db_for(&etc_refs, &[secs])),
        match &r {
            Ok(dt) => dt_reply(dt),
            Err(_) => "err".into(),
        },
    );
    match &r {
        Ok(dt) => {
            out.stat(if off % 3600 == 0 { "rfc:ok_whole_hour" } else { "rfc:ok_with_minutes" });
            if dt.timestamp() != secs || dt.timestamp_subsec_nanos() != ns {
                out.fail(
                    "rfc_instant",
                    format!(
                        "parse_from_rfc3339({text:?}) = {} i.e. instant {}.{:09}, the text denotes {secs}.{ns:09} (off by {} s)",
                        dt.to_rfc3339_opts(SecondsFormat::AutoSi, true),
                        dt.timestamp(),
                        dt.timestamp_subsec_nanos(),
                        dt.timestamp() - secs
                    ),
                );
            }
        }
        Err(_) => out.stat("rfc:err"),
    }
    // FromStr and Value::make_datetime_from_iso are the same constructor
    let r2 = text.parse::<DateTime>();
    if r2.as_ref().ok().map(tuple) != r.as_ref().ok().map(tuple) {
        out.fail("rfc_instant", format!("FromStr and parse_from_rfc3339 disagree on {text:?}"));
    }
    // ---- parse_from_rfc3339_with_timezone ----------------------------------------------------
    if let Some(name) = name {
        // the constructor from an instant and a name, as the C API and the Zinc `Z Name` path call it
        if let Some(fixed) = FixedOffset::east_opt(off).and_then(|fo| fo.timestamp_opt(secs, ns).single()) {
            let r = libhaystack::timezone::make_date_time_with_tz(&fixed, &name).map(DateTime::from);
            out.req(
                format!("C06 withtz {secs} {ns} {} {}", h(&name), db_for(&[&name], &[secs])),
                match &r {
                    Ok(dt) => dt_reply(dt),
                    Err(_) => "err".into(),
                },
            );
            check_with_tz("make_date_time_with_tz", &text, &name, secs, ns, &r, out);
        }
        // … and from a text: the offset as chrono reads it from the text is the written one
        let r = DateTime::parse_from_rfc3339_with_timezone(&text, &name);
        req_fromtext(&text, &name, &r, out);
        // (1980-2060 every zone's offset is whole minutes: the instant of the text is kept as it is)
        check_with_tz("parse_from_rfc3339_with_timezone", &text, &name, secs, ns, &r, out);
    }
}

/// `C06 rfcoff`: the offset text of `to_rfc3339_opts(_, use_z = true)` and the offset that text denotes
fn req_rfcoff(off: i32, out: &mut CaseOut) {
    if let Some(t) = rfc_text(0, 0, off, 0) {
        // `1970-01-01T00:00:00` (or the day before / after): 19 characters, then the offset
        let suffix = &t[19..];
        match off_of_text(suffix) {
            Some(w) => out.req(format!("C06 rfcoff {off}"), format!("ok {} {w}", h(suffix))),
            None => out.fail("harness", format!("offset text {suffix:?} of {t:?} is not Z or +-hh:mm")),
        }
    }
}

/// `C06 fromtext` for `parse_from_rfc3339_with_timezone(text, name)`: instant and written offset as chrono reads them
fn req_fromtext(text: &str, name: &str, r: &Result<DateTime, String>, out: &mut CaseOut) {
    match chrono::DateTime::parse_from_rfc3339(text) {
        Ok(c) => out.req(
            format!(
                "C06 fromtext {} {} {} {} {}",
                c.timestamp(),
                c.timestamp_subsec_nanos(),
                c.offset().local_minus_utc(),
                h(name),
                db_for(&[name], &[c.timestamp()])
            ),
            match r {
                Ok(dt) => dt_reply(dt),
                Err(_) => "err".into(),
            },
        ),
        Err(_) => {
            if r.is_ok() {
                out.fail("harness", format!("{text:?} is not RFC 3339 for chrono but parse_from_rfc3339_with_timezone accepts it"));
            }
        }
    }
}

/// "a DateTime built from an instant and a zone name denotes that instant in that zone"
fn check_with_tz(what: &str, text: &str, name: &str, secs: i64, ns: u32, r: &Result<DateTime, String>, out: &mut CaseOut) {
    // which zone does the name mean?  a zone id, or the city name of exactly one zone
    let meant: Option<Tz> = match name.parse::<Tz>() {
        Ok(z) => Some(z),
        Err(_) => match by_name().get(name) {
            Some(v) if v.len() == 1 => Some(v[0]),
            _ => None,
        },
    };
    match (r, meant) {
        (Ok(dt), Some(z)) => {
            out.stat("with_tz:ok");
            if dt.timestamp() != secs || dt.timestamp_subsec_nanos() != ns || dt.timezone().name() != z.name() {
                out.fail(
                    "with_tz",
                    format!(
                        "{what}({text:?}, {name:?}) = {} {} — expected instant {secs}.{ns:09} in {}",
                        dt.to_rfc3339_opts(SecondsFormat::AutoSi, true),
                        dt.timezone().name(),
                        z.name()
                    ),
                );
            }
        }
        (Err(e), Some(z)) => {
            out.fail("with_tz", format!("{what}({text:?}, {name:?}) is rejected ({e}) although {name:?} names the zone {}", z.name()));
        }
        (Ok(dt), None) => {
            // an ambiguous or unknown name that the code resolves: the instant must still be kept
            out.stat("with_tz:ok_other_name");
            if dt.timestamp() != secs || dt.timestamp_subsec_nanos() != ns {
                out.fail("with_tz", format!("{what}({text:?}, {name:?}) changed the instant to {}", dt.timestamp()));
            }
        }
        (Err(_), None) => out.stat("with_tz:err_unknown_name"),
    }
}

fn exec_names(out: &mut CaseOut) {
    // every zone id and every short name, at one summer and one winter instant
    out.nontrivial = true;
    let mut ids: Vec<String> = gen::all_zones().iter().map(|z| z.name().to_string()).collect();
    ids.sort();
    let mut fnv: u64 = 0xcbf29ce484222325;
    for id in &ids {
        for b in id.as_bytes().iter().chain(b"\n") {
            fnv ^= *b as u64;
            fnv = fnv.wrapping_mul(0x100000001b3);
        }
    }
    out.req(format!("C06 zones {} {fnv}", ids.len()), "ok".into());
    for z in gen::all_zones() {
        for secs in [1_593_561_600i64, 1_609_459_200] {
            let text = rfc_text(secs, 0, 0, 0).unwrap();
            let mut names = vec![z.name().to_string(), gen::short_name(&z)];
            names.dedup();
            for name in names {
                let r = DateTime::parse_from_rfc3339_with_timezone(&text, &name);
                req_fromtext(&text, &name, &r, out);
                check_with_tz("parse_from_rfc3339_with_timezone", &text, &name, secs, 0, &r, out);
            }
        }
    }
}

fn exec_etc(out: &mut CaseOut) {
    out.nontrivial = true;
    let mut rng = Rng::new(7);
    for n in -14i64..=12 {
        // POSIX sign convention: Etc/GMT-14 is 14 h EAST of Greenwich
        let name = if n == 0 { "UTC".to_string() } else if n < 0 { format!("Etc/GMT-{}", -n) } else { format!("Etc/GMT+{n}") };
        let want = -n * 3600;
        match name.parse::<Tz>() {
            Ok(z) => {
                let mut probes = vec![Y1980, Y2060, 0, 1_600_000_000];
                for _ in 0..200 {
                    probes.push(rng.range(Y1980, Y2060));
                }
                for s in probes {
                    if off_at(&z, s) != want {
                        out.fail("etc_offset", format!("{name} has offset {} at {s}, expected {want}", off_at(&z, s)));
                        break;
                    }
                }
            }
            Err(_) => out.fail("etc_offset", format!("{name} is not a zone of the database")),
        }
    }
}

/// the C constructors and getters
fn capi_roundtrip(secs: i64, ns: u32, name: &str) -> Result<(DateTime, i64, u32, i64, u32, String), String> {
    use libhaystack::c_api::datetime::*;
    use libhaystack::c_api::value::*;
    let utc = chrono::DateTime::<Utc>::from_timestamp(secs, ns).ok_or("instant")?.naive_utc();
    let mut date = Value::Date(Date::from(utc.date()));
    let mut time = Value::Time(Time::from(utc.time()));
    let cname = CString::new(name).map_err(|e| e.to_string())?;
    unsafe {
        let v = haystack_value_make_tz_datetime(&mut date, &mut time, cname.as_ptr()).ok_or("constructor returned null")?;
        let dt = match v.as_ref() {
            Value::DateTime(dt) => *dt,
            _ => return Err("not a DateTime".into()),
        };
        let mut res = Value::Null;
        let mut get = |utc: bool| -> Result<(i64, u32), String> {
            if haystack_value_get_datetime_date(v.as_ref(), utc, &mut res) != libhaystack::c_api::ResultType::TRUE {
                return Err("get_datetime_date failed".into());
            }
            let d = match &res {
                Value::Date(d) => **d,
                _ => return Err("date getter did not give a Date".into()),
            };
            if haystack_value_get_datetime_time(v.as_ref(), utc, &mut res) != libhaystack::c_api::ResultType::TRUE {
                return Err("get_datetime_time failed".into());
            }
            let t = match &res {
                Value::Time(t) => **t,
                _ => return Err("time getter did not give a Time".into()),
            };
            let ndt = NaiveDateTime::new(d, t);
            Ok((ndt.and_utc().timestamp(), ndt.nanosecond()))
        };
        let (us, un) = get(true)?;
        let (ls, ln) = get(false)?;
        let p = haystack_value_get_datetime_timezone(v.as_ref());
        if p.is_null() {
            return Err("timezone getter returned null".into());
        }
        let tzname = CStr::from_ptr(p).to_string_lossy().to_string();
        drop(CString::from_raw(p as *mut std::os::raw::c_char));
        Ok((dt, us, un, ls, ln, tzname))
    }
}

/// split `<date>T<time><Z|+hh:mm>[ name]` into (local secs, nanos, offset text, name)
fn split_zinc(text: &str) -> Option<(i64, u32, String, Option<String>)> {
    let (stamp, name) = match text.split_once(' ') {
        Some((a, b)) => (a, Some(b.to_string())),
        None => (text, None),
    };
    let tpos = stamp.find('T')?;
    let opos = if stamp.ends_with('Z') { stamp.len() - 1 } else { tpos + stamp[tpos..].rfind(|c| c == '+' || c == '-')? };
    let ndt = NaiveDateTime::parse_from_str(&stamp[..opos], "%Y-%m-%dT%H:%M:%S%.f").ok()?;
    Some((ndt.and_utc().timestamp(), ndt.nanosecond(), stamp[opos..].to_string(), name))
}

fn ho(s: &Option<String>) -> String {
    match s {
        None => "-".into(),
        Some(s) => h(s),
    }
}

/// one timestamp through the Zinc and the Hayson writer and reader: the correspondence requests (`corr`) and
/// the round-trip oracles (`demand_zinc`, `demand_json`: decode(encode(dt)) is the same instant, nanoseconds,
/// local offset and city name)
#[allow(clippy::too_many_arguments)]
fn codec_probe(tz: &Tz, dt: &DateTime, secs: i64, corr: bool, do_json: bool, demand_zinc: bool, demand_json: bool, out: &mut CaseOut) {
    let tzid = tz.name();
    let ns = dt.timestamp_subsec_nanos();
    let want = tuple(dt);
    let rfc = dt.to_rfc3339_opts(SecondsFormat::AutoSi, true);
    // the instants a reader can reach: the one chrono reads from the text (the written offset has minute
    // precision) and the timestamp's own
    let mut bases = vec![secs];
    if let Ok(c) = chrono::DateTime::parse_from_rfc3339(&rfc) {
        if c.timestamp() != secs {
            bases.push(c.timestamp());
        }
    }
    // ---- Zinc ------------------------------------------------------------------------
    match Value::from(*dt).to_zinc_string() {
        Err(e) => out.fail("zinc_rt", format!("to_zinc_string failed for {rfc} {tzid}: {e}")),
        Ok(text) => {
            // the same value into a writer that takes a few bytes per call (a socket, a pipe): the same text
            {
                use libhaystack::encoding::zinc::encode::ToZinc;
                struct Trickle(Vec<u8>, usize);
                impl std::io::Write for Trickle {
                    fn write(&mut self, buf: &[u8]) -> std::io::Result<usize> {
                        let n = buf.len().min(self.1);
                        self.0.extend_from_slice(&buf[..n]);
                        Ok(n)
                    }
                    fn flush(&mut self) -> std::io::Result<()> {
                        Ok(())
                    }
                }
                let k = 1 + (secs.unsigned_abs() as usize % 7) * 3;
                let mut w = Trickle(Vec::new(), k);
                match Value::from(*dt).to_zinc(&mut w) {
                    Ok(()) if w.0 == text.as_bytes() => {}
                    Ok(()) => out.fail("zinc_rt", format!("into a writer that takes {k} bytes per call the timestamp is written as {:?}, into a Vec as {text:?}", String::from_utf8_lossy(&w.0))),
                    Err(e) => out.fail("zinc_rt", format!("to_zinc into a writer that takes {k} bytes per call fails: {e}")),
                }
            }
            let back = zinc_from_str(&text);
            if corr {
                out.req(format!("C06 zenc {} {}", h(tz.name()), h(&rfc)), format!("ok {}", h(&text)));
                match split_zinc(&text) {
                    Some((local, n2, offtxt, name)) => {
                        let names: Vec<&str> = name.iter().map(|s| s.as_str()).collect();
                        let mut at = bases.clone();
                        at.push(local); // an offset text the reader does not take for an offset: the fields as UTC
                        out.req(
                            format!("C06 zdec {local} {n2} {} {} {}", h(&offtxt), ho(&name), db_for(&names, &at)),
                            match &back {
                                Ok(Value::DateTime(b)) => dt_reply(b),
                                _ => "err".into(),
                            },
                        );
                    }
                    None => out.fail("zinc_text", format!("the writer's text {text:?} is not <date>T<time><offset>[ name]")),
                }
            }
            if demand_zinc {
                match &back {
                    Ok(Value::DateTime(b)) if tuple(b) == want => {}
                    Ok(Value::DateTime(b)) => out.fail(
                        "zinc_rt",
                        format!("{text:?} (zone {tzid}) read back as {:?}, written from {:?} (instant, nanos, offset, zone)", tuple(b), want),
                    ),
                    Ok(v) => out.fail("zinc_rt", format!("{text:?} read back as {v:?}")),
                    Err(e) => out.fail("zinc_rt", format!("{text:?} (zone {tzid}) is rejected by the reader: {e}")),
                }
            }
        }
    }
    // ---- Hayson ------------------------------------------------------------------------
    if do_json {
        match serde_json::to_string(&Value::from(*dt)) {
            Err(e) => out.fail("json_rt", format!("serde_json::to_string failed for {rfc} {tzid}: {e}")),
            Ok(json) => {
                let back: Result<Value, _> = serde_json::from_str(&json);
                if corr {
                    let jv: serde_json::Value = serde_json::from_str(&json).unwrap_or(serde_json::Value::Null);
                    let val = jv.get("val").and_then(|v| v.as_str()).unwrap_or("?").to_string();
                    let tzm = jv.get("tz").and_then(|v| v.as_str()).map(|s| s.to_string());
                    out.req(format!("C06 jenc {} {}", h(tz.name()), h(&rfc)), format!("ok {} {}", h(&val), ho(&tzm)));
                    // the fields of `val` as chrono reads them: local time, nanoseconds, the written offset
                    if let Ok(c) = chrono::DateTime::parse_from_rfc3339(&val) {
                        let written = c.offset().local_minus_utc() as i64;
                        let names: Vec<&str> = tzm.iter().map(|s| s.as_str()).collect();
                        let mut all = names.clone();
                        let etc: Vec<String> = etc_name(written).into_iter().collect();
                        all.extend(etc.iter().map(|s| s.as_str()));
                        out.req(
                            format!(
                                "C06 jdec {} {} {written} {} {}",
                                c.timestamp() + written,
                                c.timestamp_subsec_nanos(),
                                ho(&tzm),
                                db_for(&all, &[c.timestamp()])
                            ),
                            match &back {
                                Ok(Value::DateTime(b)) => dt_reply(b),
                                _ => "err".into(),
                            },
                        );
                    }
                }
                if demand_json {
                    // the same document with its members in the other orders a JSON object may arrive in: through the
                    // serde_json tree (keys sorted: `_kind`, `tz`, `val`) and as text with `tz` first / `_kind` last
                    let mut others: Vec<(&str, Result<Value, String>)> = Vec::new();
                    if let Ok(tree) = serde_json::to_value(&Value::from(*dt)) {
                        others.push(("from_value(to_value)", serde_json::from_value::<Value>(tree.clone()).map_err(|e| e.to_string())));
                        if let Some(obj) = tree.as_object() {
                            let member = |k: &str| obj.get(k).map(|v| format!("{}:{}", serde_json::to_string(k).unwrap_or_default(), v));
                            for order in [["_kind", "tz", "val"], ["tz", "val", "_kind"], ["val", "_kind", "tz"]] {
                                let ms: Vec<String> = order.iter().filter_map(|k| member(k)).collect();
                                let text = format!("{{{}}}", ms.join(","));
                                others.push(("reordered text", serde_json::from_str::<Value>(&text).map_err(|e| e.to_string())));
                            }
                        }
                    }
                    for (how, r) in others {
                        match r {
                            Ok(Value::DateTime(b)) if tuple(&b) == want => {}
                            Ok(Value::DateTime(b)) => out.fail("json_rt", format!("{json} (zone {tzid}) through {how} read back as {:?}, written from {:?}", tuple(&b), want)),
                            Ok(v) => out.fail("json_rt", format!("{json} through {how} read back as {v:?}")),
                            Err(e) => out.fail("json_rt", format!("{json} (zone {tzid}) through {how} is rejected: {e}")),
                        }
                    }
                    match &back {
                        Ok(Value::DateTime(b)) if tuple(b) == want => {}
                        Ok(Value::DateTime(b)) => out.fail(
                            "json_rt",
                            format!("{json} (zone {tzid}) read back as {:?}, written from {:?} (instant, nanos, offset, zone)", tuple(b), want),
                        ),
                        Ok(v) => out.fail("json_rt", format!("{json} read back as {v:?}")),
                        Err(e) => out.fail("json_rt", format!("{json} (zone {tzid}) is rejected by the reader: {e}")),
                    }
                }
            }
        }
    }
}

/// a timestamp of ANY year, in particular where the zone's own offset has seconds
fn exec_lmt(rest: &str, out: &mut CaseOut) {
    let mut rd = Rd::new(rest);
    let parsed = (|| Some((rd.hs()?, rd.num::<i64>()?, rd.num::<u32>()?)))();
    let (tzid, secs, ns) = match parsed {
        Some(x) => x,
        None => return out.fail("harness", "unparsable C06 lmt input".into()),
    };
    let tz: Tz = match tzid.parse() {
        Ok(z) => z,
        Err(_) => return out.fail("harness", format!("{tzid} is not a zone id")),
    };
    let dt0 = match tz.timestamp_opt(secs, ns).single() {
        Some(d) => d,
        None => return out.fail("harness", format!("{secs}.{ns:09} is not an instant chrono represents")),
    };
    let dt = DateTime::from(dt0);
    let want = tuple(&dt);
    let o = want.2 as i64;
    let unamb = unambiguous().contains(tz.name());
    let short = gen::short_name(&tz);
    out.nontrivial = true;
    out.stat(if o % 60 != 0 { "lmt:offset_with_seconds" } else { "lmt:whole_minutes" });
    out.req(format!("C06 offtext {o}"), format!("ok {}", h(&FixedOffset::east_opt(o as i32).unwrap().to_string())));
    req_rfcoff(o as i32, out);
    // ---- the hypotheses of C06_rt_subminute, read off the writer's text by chrono --------------------------
    let rfc = dt.to_rfc3339_opts(SecondsFormat::AutoSi, true);
    let read = chrono::DateTime::parse_from_rfc3339(&rfc).ok();
    // the rounded offset is one a text can carry, and the zone has the same offset at the instant the text seems to denote
    let stable = match &read {
        Some(c) => off_at(&tz, c.timestamp()) == o,
        None => false,
    };
    // Hayson: the written offset passes DateTime::parse_from_rfc3339 (a whole-hour offset needs its Etc/GMT zone)
    let hayson_ok = match &read {
        Some(c) => {
            let w = c.offset().local_minus_utc() as i64;
            w % 3600 != 0 || (-43200..=50400).contains(&w)
        }
        None => false,
    };
    out.stat(if stable { "lmt:offset_stable" } else { "lmt:offset_changes_within_the_rounding(no round trip demanded)" });
    let demand = unamb && stable;
    codec_probe(&tz, &dt, secs, true, true, demand, demand && hayson_ok, out);
    // ---- parse_from_rfc3339_with_timezone on the writer's text -------------------------------------------------
    for name in [short.as_str(), tz.name()] {
        let r = DateTime::parse_from_rfc3339_with_timezone(&rfc, name);
        req_fromtext(&rfc, name, &r, out);
        if demand {
            match &r {
                Ok(b) if tuple(b) == want => {}
                Ok(b) => out.fail(
                    "text_rt",
                    format!("parse_from_rfc3339_with_timezone({rfc:?}, {name:?}) = {:?}, written from {:?} (instant, nanos, offset, zone)", tuple(b), want),
                ),
                Err(e) => out.fail("text_rt", format!("parse_from_rfc3339_with_timezone({rfc:?}, {name:?}) is rejected: {e}")),
            }
        }
    }
    // ---- the same wall-clock time with other offsets: truncated, a minute off either way, zero, the sign flipped ----
    let r0 = round_min(o);
    let mut others = vec![(o / 60 * 60, secs + o), (r0 + 60, secs + o), (r0 - 60, secs + o), (0, secs + o), (-r0, secs + o)];
    others.retain(|(w, _)| *w != r0);
    others.sort();
    others.dedup();
    // … and the rounded offset on another wall-clock time: the instant itself (near the end of the period the
    // zone's offset at the corrected instant is another one: the text is then taken at its word)
    others.push((r0, secs + r0));
    for (w, wall) in others {
        let fo = match FixedOffset::east_opt(w as i32) {
            Some(f) => f,
            None => continue,
        };
        // local time `wall` at the offset w
        let text = match fo.timestamp_opt(wall - w, ns).single() {
            Some(d) => d.to_rfc3339_opts(SecondsFormat::AutoSi, true),
            None => continue,
        };
        let r = DateTime::parse_from_rfc3339_with_timezone(&text, &short);
        req_fromtext(&text, &short, &r, out);
        let ztext = format!("{text} {short}");
        let back = zinc_from_str(&ztext);
        if let Some((local, n2, offtxt, name)) = split_zinc(&ztext) {
            let names: Vec<&str> = name.iter().map(|s| s.as_str()).collect();
            out.req(
                format!("C06 zdec {local} {n2} {} {} {}", h(&offtxt), ho(&name), db_for(&names, &[wall - w, local])),
                match &back {
                    Ok(Value::DateTime(b)) => dt_reply(b),
                    _ => "err".into(),
                },
            );
        }
        let json = format!(r#"{{"_kind":"dateTime","val":"{text}","tz":"{short}"}}"#);
        let jback: Result<Value, _> = serde_json::from_str(&json);
        let etc: Vec<String> = etc_name(w).into_iter().collect();
        let mut all = vec![short.as_str()];
        all.extend(etc.iter().map(|s| s.as_str()));
        out.req(
            format!("C06 jdec {wall} {ns} {w} {} {}", h(&short), db_for(&all, &[wall - w])),
            match &jback {
                Ok(Value::DateTime(b)) => dt_reply(b),
                _ => "err".into(),
            },
        );
    }
}

/// chrono's RFC 3339 offset text over the whole range of FixedOffset
fn exec_offsweep(out: &mut CaseOut) {
    out.nontrivial = true;
    let mut offs: Vec<i32> = (-200..=200).collect();
    offs.extend((-86399..=86399).step_by(97));
    for m in [1172, 22286, -17762, -2670, -1521, 3599, 3600, 3601, 86339, 86340, 86369, 86370, 86399] {
        offs.extend([m, -m, m + 1, -(m + 1), m - 1, -(m - 1)].into_iter().filter(|o: &i32| o.abs() < 86400));
    }
    for off in offs {
        req_rfcoff(off, out);
        out.req(format!("C06 offtext {off}"), format!("ok {}", h(&FixedOffset::east_opt(off).unwrap().to_string())));
    }
}

fn exec_zone(rest: &str, out: &mut CaseOut) {
    let mut rd = Rd::new(rest);
    let parsed = (|| Some((rd.hs()?, rd.num::<i64>()?)))();
    let (tzid, t) = match parsed {
        Some(x) => x,
        None => return out.fail("harness", "unparsable C06 zone input".into()),
    };
    let tz: Tz = match tzid.parse() {
        Ok(z) => z,
        Err(_) => return out.fail("harness", format!("{tzid} is not a zone id")),
    };
    let unamb = unambiguous().contains(tz.name());
    out.nontrivial = true;
    out.stat(if unamb { "zone:unambiguous" } else { "zone:shared_city_name" });
    let short = gen::short_name(&tz);
    let (o1, o2) = (off_at(&tz, t - 1), off_at(&tz, t));
    let d = (o1 - o2).abs();
    let mut probes = vec![t - 1, t, t - 3600, t + 1, t + 3600];
    if d > 0 {
        out.stat(if o2 > o1 { "transition:forward(skipped hour)" } else { "transition:back(repeated hour)" });
        probes.extend([t - d - 1, t - d, t - d / 2, t + d / 2, t + d - 1, t + d]);
    } else {
        out.stat("transition:none");
    }
    let mut seen = HashSet::new();
    probes.retain(|s| (Y1980..=Y2060).contains(s) && seen.insert(*s));
    for (pi, secs) in probes.iter().copied().enumerate() {
        let corr = pi < 2; // correspondence requests on t-1 and t
        for (qi, ns) in PRECISIONS.iter().copied().enumerate() {
            let ns = if qi == 1 { ODD_FRACTIONS[(pi + (secs as usize % 7)) % ODD_FRACTIONS.len()] } else { ns };
            let dt0 = match tz.timestamp_opt(secs, ns).single() {
                Some(d) => d,
                None => continue,
            };
            let dt = DateTime::from(dt0);
            let want = tuple(&dt);
            if qi == 0 && (want.2 % 60 != 0 || want.2 < -43200 || want.2 > 50400) {
                out.fail("db_offset_range", format!("chrono-tz gives {tzid} the offset {} s at {secs}: not whole minutes within -12 h..+14 h", want.2));
            }
            // ---- Zinc, and Hayson (one precision per probe; all of them on the correspondence probes) ----
            codec_probe(&tz, &dt, secs, corr, corr || qi == pi % 4, unamb, unamb, out);
            // ---- C API -----------------------------------------------------------------------------
            if corr || qi == (pi + 1) % 4 {
                for name in [short.as_str(), tz.name()] {
                    let r = capi_roundtrip(secs, ns, name);
                    if corr {
                        out.req(
                            format!("C06 capi {secs} {ns} {} {}", h(name), db_for(&[name], &[secs])),
                            match &r {
                                Ok((b, _, _, ls, _, _)) => format!("{} {ls}", dt_reply(b)),
                                Err(_) => "err".into(),
                            },
                        );
                    }
                    if unamb {
                        match &r {
                            Ok((b, us, un, ls, ln, tzname)) => {
                                let ok = tuple(b) == want
                                    && (*us, *un) == (secs, ns)
                                    && (*ls, *ln) == (secs + want.2 as i64, ns)
                                    && *tzname == short;
                                if !ok {
                                    out.fail(
                                        "capi",
                                        format!(
                                            "make_tz_datetime({secs}.{ns:09} UTC, {name:?}) gave {:?}; getters: utc {us}.{un:09}, local {ls}.{ln:09}, zone {tzname:?}; expected {:?}",
                                            tuple(b),
                                            want
                                        ),
                                    );
                                }
                            }
                            Err(e) => out.fail("capi", format!("make_tz_datetime({secs}.{ns:09} UTC, {name:?}): {e}")),
                        }
                    }
                }
            }
        }
    }
    // ---- texts carrying the offset of the other side of the transition ---------------------------------
    if d > 0 && t - 10 >= Y1980 && t + 10 <= Y2060 {
        for (x, stale) in [(t + 10, o1), (t - 10, o2)] {
            let fo = match FixedOffset::east_opt(stale as i32) {
                Some(f) => f,
                None => continue,
            };
            let rfc = fo.timestamp_opt(x, 0).single().unwrap().to_rfc3339_opts(SecondsFormat::AutoSi, true);
            let text = format!("{rfc} {short}");
            let back = zinc_from_str(&text);
            if let Some((local, n2, offtxt, name)) = split_zinc(&text) {
                let names: Vec<&str> = name.iter().map(|s| s.as_str()).collect();
                out.req(
                    format!("C06 zdec {local} {n2} {} {} {}", h(&offtxt), ho(&name), db_for(&names, &[x])),
                    match &back {
                        Ok(Value::DateTime(b)) => dt_reply(b),
                        _ => "err".into(),
                    },
                );
            }
            let json = format!(r#"{{"_kind":"dateTime","val":"{rfc}","tz":"{short}"}}"#);
            let jback: Result<Value, _> = serde_json::from_str(&json);
            let etc: Vec<String> = etc_name(stale).into_iter().collect();
            let mut all = vec![short.as_str()];
            all.extend(etc.iter().map(|s| s.as_str()));
            out.req(
                format!("C06 jdec {} 0 {stale} {} {}", x + stale, h(&short), db_for(&all, &[x])),
                match &jback {
                    Ok(Value::DateTime(b)) => dt_reply(b),
                    _ => "err".into(),
                },
            );
            if unamb {
                for (what, txt, b) in [("Zinc", &text, back.ok()), ("Hayson", &json, jback.ok())] {
                    match b {
                        Some(Value::DateTime(b)) => {
                            if b.timestamp() != x || b.timezone_short_name() != short {
                                out.fail(
                                    "stale_offset",
                                    format!("{what} {txt:?} denotes the instant {x} in {short}; read as {:?}", tuple(&b)),
                                );
                            }
                        }
                        Some(v) => out.fail("stale_offset", format!("{what} {txt:?} read as {v:?}")),
                        None => out.stat("stale_offset:rejected"),
                    }
                }
            }
        }
    }
}

// ---- generators ---------------------------------------------------------------------------------

/// offset transitions of a zone in [from, to): first instant of the new offset
pub fn transitions(tz: &Tz, from: i64, to: i64) -> Vec<i64> {
    let step = 6 * 3600;
    let mut out = Vec::new();
    let mut s = from;
    let mut o = off_at(tz, s);
    while s < to {
        let e = (s + step).min(to);
        let oe = off_at(tz, e);
        if oe != o {
            // binary search the change in (s, e]
            let (mut lo, mut hi) = (s, e);
            while hi - lo > 1 {
                let mid = lo + (hi - lo) / 2;
                if off_at(tz, mid) == o {
                    lo = mid;
                } else {
                    hi = mid;
                }
            }
            out.push(hi);
            o = off_at(tz, hi);
            // a second change inside the same step is found by continuing from hi
            s = hi;
            continue;
        }
        s = e;
    }
    out
}

const TROUBLE: &[&str] = &[
    "Australia/Sydney",
    "Asia/Kolkata",
    "Asia/Kathmandu",
    "Pacific/Kiritimati",
    "America/St_Johns",
    "Pacific/Chatham",
    "Antarctica/Casey",
    "Arctic/Longyearbyen",
    "Etc/GMT+12",
    "Etc/GMT-14",
    "Europe/London",
    "America/New_York",
    "Australia/Lord_Howe",
    "Antarctica/Troll",
    "America/Argentina/Buenos_Aires",
    "America/Indiana/Knox",
    "UTC",
    "Etc/UTC",
    "Brazil/West",
    "Australia/West",
    "US/Pacific",
    // every shape of name the text readers have to scan: '-' inside a city, '_', digits, three segments;
    // zones more than 12 h east of Greenwich
    "America/Port-au-Prince",
    "America/Blanc-Sablon",
    "Africa/Porto-Novo",
    "Asia/Ust-Nera",
    "America/North_Dakota/New_Salem",
    "America/Argentina/ComodRivadavia",
    "Etc/GMT+1",
    "Etc/GMT-10",
    "Pacific/Apia",
    "Pacific/Tongatapu",
    "Pacific/Auckland",
    "Pacific/Fakaofo",
];

/// zones whose offset had seconds at some time (local mean time), for the cases around their transitions
const LMT_ZONES: &[&str] = &[
    "Europe/Amsterdam",
    "Africa/Monrovia",
    "Europe/Dublin",
    "Asia/Kolkata",
    "Europe/Paris",
    "Asia/Krasnoyarsk",
    "America/New_York",
    "America/Caracas",
    "Pacific/Honolulu",
    "Asia/Manila",
    "Africa/Abidjan",
    "Europe/London",
];

pub fn generate(ctx: &mut Ctx) {
    ctx.case("etc", "etc");
    ctx.case("names", "names");
    ctx.case("offsweep", "offsweep");
    // ---- 0. offsets with seconds: OUTSIDE the stated quantifier (1980-2060); the model must agree with the code
    //         and the round trip holds where the hypotheses of C06_rt_subminute do ----------------------------------
    for dt in gen::lmt_datetimes() {
        ctx.case("lmt", &format!("lmt {} {} {}", h(dt.timezone().name()), dt.timestamp(), dt.timestamp_subsec_nanos()));
    }
    let per_zone = ctx.n(4, 400) as usize;
    for (zi, n) in LMT_ZONES.iter().enumerate() {
        if ctx.quick() && zi >= 6 {
            break;
        }
        let z: Tz = match n.parse() {
            Ok(z) => z,
            Err(_) => continue,
        };
        let id = h(z.name());
        // transitions into or out of a period whose offset has seconds, 1800 .. 1980
        let ts: Vec<i64> = transitions(&z, -5_364_662_400, Y1980)
            .into_iter()
            .filter(|t| off_at(&z, *t - 1) % 60 != 0 || off_at(&z, *t) % 60 != 0)
            .collect();
        let k = ts.len();
        // the first ones (out of local mean time) and the last ones (into standard time)
        for (i, t) in ts.into_iter().enumerate() {
            if i >= per_zone / 2 && i + per_zone / 2 < k {
                continue;
            }
            for d in [-61i64, -31, -30, -29, -1, 0, 1, 28, 29, 30, 31, 61] {
                ctx.case("lmt_edge", &format!("lmt {id} {} {}", t + d, if d % 2 == 0 { 0 } else { 500_000_000 }));
            }
        }
    }
    // ---- 1. RFC 3339 offsets -12:00 … +14:00 in 15 minute steps (and the rest of chrono's range, sampled) ----
    let fixed_instants: [(i64, u32); 8] = [
        (Y1980, 0),
        (951_868_799, 0),           // 2000-02-29T23:59:59Z
        (1_615_705_199, 999_000_000), // 2021-03-14T06:59:59.999Z
        (2_147_483_647, 0),
        (Y2060 - 1, 999_999_999),
        (1_700_000_000, 123_456_000),
        (1_234_567_890, 120_000_000),
        (1_600_000_000, 1),
    ];
    let names = ["Sydney", "Australia/Sydney", "Kolkata", "New_York", "Casey", "Longyearbyen", "GMT+12", "Etc/GMT-14", "UTC", "Nowhere", "sydney", "", "West", "Pacific"];
    let n_inst = ctx.n(3, 8) as usize;
    let n_rand = ctx.n(1, 40);
    let mut offs: Vec<i32> = (-48..=56).map(|q| q * 900).collect(); // -12:00 ..= +14:00
    for q in [-95, -94, -60, -57, -53, -52, -51, -50, -49, 57, 58, 59, 60, 61, 64, 72, 94, 95] {
        offs.push(q * 900); // beyond: must be Err or exact as well
    }
    offs.push(60);
    offs.push(-60);
    offs.push(19 * 60 + 3600 * 5);
    for off in offs {
        let mut instants: Vec<(i64, u32)> = fixed_instants.iter().take(n_inst).copied().collect();
        for _ in 0..n_rand {
            instants.push((ctx.rng.range(Y1980, Y2060 - 1), gen::subsec(&mut ctx.rng)));
        }
        for (i, (secs, ns)) in instants.into_iter().enumerate() {
            for style in 0..3u32 {
                if style > 0 && i % 3 != 0 && off != 0 {
                    continue;
                }
                let name = if ctx.rng.chance(2, 3) { Some(ctx.rng.pick(&names).to_string()) } else { None };
                let nm = match &name {
                    None => "-".to_string(),
                    Some(s) => h(s),
                };
                ctx.case("rfc", &format!("rfc {secs} {ns} {off} {style} {nm}"));
            }
        }
    }
    // ---- 2. zones x transitions --------------------------------------------------------------------------
    let all = gen::all_zones();
    let mut zones: Vec<Tz> = Vec::new();
    for n in TROUBLE {
        if let Ok(z) = n.parse::<Tz>() {
            zones.push(z);
        }
    }
    if ctx.quick() {
        let un = gen::unambiguous_zones();
        for _ in 0..40 {
            let z = *ctx.rng.pick(&un);
            if !zones.contains(&z) {
                zones.push(z);
            }
        }
    } else {
        for z in all {
            if !zones.contains(&z) {
                zones.push(z);
            }
        }
    }
    for z in zones {
        let id = h(z.name());
        let ts = transitions(&z, Y1980, Y2060);
        ctx.count("transitions");
        for t in &ts {
            ctx.case("transition", &format!("zone {id} {t}"));
        }
        // instants that are not transitions: the ends of the range and random ones
        ctx.case("instant", &format!("zone {id} {}", Y1980 + 3600));
        ctx.case("instant", &format!("zone {id} {}", Y2060 - 3600));
        for _ in 0..ctx.n(2, 6) {
            let t = ctx.rng.range(Y1980 + 7200, Y2060 - 7200);
            ctx.case("instant", &format!("zone {id} {t}"));
        }
    }
}

// ---------------------------------------------------------------------------------------------
// table by execution (`hsverif dump c06`): the second source of the region prefix list of `find_timezone`.
// gen/zones.py reads the list from the source text; when the text no longer has the shape it parses, the list is
// measured here: a region is a prefix iff a city that exists under that region only is resolved through it, the
// order is the one the resolution of every ambiguous name dictates (ties: alphabetical), and the resulting list is
// accepted only if "first prefix p with p/name a zone" reproduces the real function on EVERY zone id and every
// suffix of a zone id.
// ---------------------------------------------------------------------------------------------
fn resolve_zone_name(name: &str) -> Option<String> {
    use chrono::TimeZone;
    let epoch = chrono::FixedOffset::east_opt(0).unwrap().timestamp_opt(0, 0).single().unwrap();
    std::panic::catch_unwind(|| libhaystack::timezone::make_date_time_with_tz(&epoch, name).ok().map(|d| d.timezone().name().to_string()))
        .ok()
        .flatten()
}

pub fn dump_tables() {
    use std::collections::{BTreeMap, BTreeSet};
    let ids: Vec<String> = gen::all_zones().iter().map(|z| z.name().to_string()).collect();
    let idset: BTreeSet<&str> = ids.iter().map(|s| s.as_str()).collect();
    // every text that follows a '/' of a zone id, with the ids it is a suffix of
    let mut names: BTreeSet<String> = ids.iter().cloned().collect();
    for id in &ids {
        for (i, c) in id.char_indices() {
            if c == '/' {
                names.insert(id[i + 1..].to_string());
            }
        }
    }
    let real: BTreeMap<String, Option<String>> = names.iter().map(|n| (n.clone(), resolve_zone_name(n))).collect();
    // candidate prefixes: every `p` such that `p/name` is a zone id for some name that is not a zone id itself and resolves to it
    let mut cands: BTreeSet<String> = BTreeSet::new();
    for (n, r) in &real {
        if idset.contains(n.as_str()) {
            continue;
        }
        if let Some(z) = r {
            if z.ends_with(&format!("/{n}")) {
                cands.insert(z[..z.len() - n.len() - 1].to_string());
            }
        }
    }
    // order constraints from the ambiguous names: the winner's prefix comes before every other candidate prefix that has the name
    let mut before: BTreeSet<(String, String)> = BTreeSet::new();
    for (n, r) in &real {
        if idset.contains(n.as_str()) {
            continue;
        }
        if let Some(z) = r {
            if !z.ends_with(&format!("/{n}")) {
                continue;
            }
            let w = z[..z.len() - n.len() - 1].to_string();
            for p in &cands {
                if *p != w && idset.contains(format!("{p}/{n}").as_str()) {
                    before.insert((w.clone(), p.clone()));
                }
            }
        }
    }
    // topological order, alphabetical among the free ones
    let mut order: Vec<String> = Vec::new();
    let mut left: BTreeSet<String> = cands.clone();
    let mut cyclic = false;
    while !left.is_empty() {
        let next = left.iter().find(|p| !before.iter().any(|(a, b)| b == *p && left.contains(a))).cloned();
        match next {
            Some(p) => {
                left.remove(&p);
                order.push(p);
            }
            None => {
                cyclic = true;
                break;
            }
        }
    }
    // the list must reproduce the real function on every name
    let mut mismatches: Vec<String> = Vec::new();
    for (n, r) in &real {
        let model = if idset.contains(n.as_str()) {
            Some(n.clone())
        } else {
            order.iter().map(|p| format!("{p}/{n}")).find(|c| idset.contains(c.as_str()))
        };
        if &model != r {
            mismatches.push(n.clone());
        }
    }
    let q = |s: &String| serde_json::to_string(s).unwrap();
    println!(
        "{{\"prefixes\":[{}],\n\"names_checked\":{},\n\"cyclic\":{},\n\"mismatches\":[{}]}}",
        order.iter().map(q).collect::<Vec<_>>().join(","),
        real.len(),
        cyclic,
        mismatches.iter().take(20).map(q).collect::<Vec<_>>().join(",")
    );
}
