//! C01 — Zinc encode -> decode returns the original value.
//!
//! input: VX of one value.  label `wf…` = well-formed in the sense of the property (round trip
//! must be exact), `any…` = arbitrary constructible value (model fidelity only).
//! Correspondence: `C01 enc V` -> `ok H(text)`; `C01 dec H(text)` -> `ok V'` | `err`.
//! Oracle: `from_str(to_zinc_string(v))` equals `v` in every component (`same::diff`).

use crate::ctx::{CaseOut, Ctx};
use crate::gen::{self, Cfg};
use crate::same;
use crate::vx;
use libhaystack::encoding::zinc::decode::from_str;
use libhaystack::encoding::zinc::encode::to_zinc_string;
use libhaystack::val::*;

pub fn dec_reply(text: &str) -> (String, Option<Value>) {
    match from_str(text) {
        Ok(v) => (format!("ok {}", vx::show(&v)), Some(v)),
        Err(_) => ("err".to_string(), None),
    }
}

pub fn kind_name(v: &Value) -> &'static str {
    match v {
        Value::Null => "null",
        Value::Remove => "remove",
        Value::Marker => "marker",
        Value::Bool(_) => "bool",
        Value::Na => "na",
        Value::Number(_) => "number",
        Value::Str(_) => "str",
        Value::Uri(_) => "uri",
        Value::Ref(_) => "ref",
        Value::Symbol(_) => "symbol",
        Value::Date(_) => "date",
        Value::Time(_) => "time",
        Value::DateTime(_) => "dateTime",
        Value::Coord(_) => "coord",
        Value::XStr(_) => "xstr",
        Value::List(_) => "list",
        Value::Dict(_) => "dict",
        Value::Grid(_) => "grid",
    }
}

pub fn exec(label: &str, input: &str, out: &mut CaseOut) {
    let v = match vx::parse(input) {
        Some(v) => v,
        None => {
            out.fail("harness", "unparsable VX input".into());
            return;
        }
    };
    out.nontrivial = true;
    out.stat(&format!("kind:{}", kind_name(&v)));
    out.stat(&format!("depth:{}", same::depth(&v).min(8)));
    let text = match to_zinc_string(&v) {
        Ok(t) => t,
        Err(e) => {
            if label.starts_with("wf") {
                out.fail("enc_err", format!("to_zinc_string failed on a well-formed value: {e}"));
            }
            out.req(format!("C01 enc {input}"), "err".into());
            return;
        }
    };
    // the model's XStr capitalisation is ASCII-only: compare bytes only when that is what happens
    let ascii_types = input_ascii_xstr(&v);
    if ascii_types {
        out.req(format!("C01 enc {input}"), format!("ok {}", vx::h(&text)));
    }
    let (reply, back) = dec_reply(&text);
    out.req(format!("C01 dec {}", vx::h(&text)), reply);
    if label.starts_with("wf") {
        match back {
            None => out.fail("rt_decode_err", format!("decoder rejects the encoder's output {text:?}")),
            Some(b) => {
                if let Some(d) = same::diff(&v, &b, "v") {
                    out.fail("rt_mismatch", format!("{d}   (text {text:?})"));
                }
            }
        }
    }
}

fn input_ascii_xstr(v: &Value) -> bool {
    fn d(d: &Dict) -> bool {
        d.values().all(input_ascii_xstr)
    }
    match v {
        Value::XStr(x) => x.r#type.chars().next().map_or(true, |c| c.is_ascii()),
        Value::List(l) => l.iter().all(input_ascii_xstr),
        Value::Dict(dd) => d(dd),
        Value::Grid(g) => {
            g.meta.as_ref().map_or(true, d)
                && g.columns.iter().all(|c| c.meta.as_ref().map_or(true, d))
                && g.rows.iter().all(d)
        }
        _ => true,
    }
}

/// fixed shapes the property's quantifier text names explicitly
/// texts far longer than any buffer a scanner might use (4 KiB, 8 KiB, 64 KiB), made of tokens that need look-ahead
/// (numbers of several digits, dates, timestamps with `Z`, refs with display names), at every alignment
pub fn long_values() -> Vec<Value> {
    use chrono::TimeZone;
    let mut v = Vec::new();
    for pad in 0..6usize {
        let mut items: Vec<Value> = vec![Value::make_str(&"a".repeat(4080 + pad))];
        for i in 0..1400i64 {
            items.push(match i % 5 {
                0 => Value::make_number(123456.0 + i as f64),
                1 => Value::Date(Date::from(chrono::NaiveDate::from_ymd_opt(2021, 1 + (i % 12) as u32, 1 + (i % 28) as u32).unwrap())),
                2 => Value::DateTime(DateTime::from(chrono_tz::UTC.timestamp_opt(1_600_000_000 + i, 0).single().unwrap())),
                3 => Value::Ref(Ref { value: format!("p:{i}"), dis: Some(format!("Site {i}")) }),
                _ => Value::make_number(-0.5 - i as f64),
            });
        }
        v.push(Value::List(items));
    }
    v
}

pub fn named_cases() -> Vec<Value> {
    let mut v: Vec<Value> = Vec::new();
    let d = |kvs: &[(&str, Value)]| -> Dict {
        let mut d = Dict::new();
        for (k, v) in kvs {
            d.insert(k.to_string(), v.clone());
        }
        d
    };
    let col = |n: &str, m: Option<Dict>| Column { name: n.to_string(), meta: m };
    // grids: with/without meta, column meta first/middle/last, Null and missing cells, zero rows
    v.push(Value::Grid(Grid { meta: Some(d(&[("dis", "x".into())])), columns: vec![col("a", None)], rows: vec![d(&[("a", 1.into())])], ver: "3.0".into() }));
    v.push(Value::Grid(Grid { meta: None, columns: vec![col("a", Some(d(&[("dis", "x".into())]))), col("b", None)], rows: vec![d(&[("a", 1.into())])], ver: "3.0".into() }));
    v.push(Value::Grid(Grid { meta: None, columns: vec![col("a", None), col("b", Some(d(&[("dis", "x".into()), ("m", Value::Marker)])))], rows: vec![d(&[("b", Value::Null)])], ver: "3.0".into() }));
    v.push(Value::Grid(Grid { meta: Some(d(&[("m", Value::Marker), ("n", 2.into())])), columns: vec![col("a", None), col("b", Some(d(&[("u", Value::make_uri("x y"))]))), col("c", None)], rows: vec![], ver: "3.0".into() }));
    v.push(Value::Grid(Grid { meta: None, columns: vec![col("a", None)], rows: vec![d(&[("a", Value::Null)]), d(&[("a", 1.into())])], ver: "3.0".into() }));
    v.push(Value::Grid(Grid::make_empty()));
    v.push(Value::Ref(Ref { value: "a".into(), dis: Some("x\"y\\z".into()) }));
    v.push(Value::XStr(XStr { r#type: "Bin".into(), value: "a\"b\\c$d\n".into() }));
    v.push(Value::make_uri("a\\b`c d é😀"));
    v.push(Value::make_str("\u{8}\u{c}\u{b}\u{f}\u{0}$\"\\😀"));
    v
}

/// numbers at the edges of the double format: the longest decimal spellings there are (324 fraction digits, 309
/// integer digits), each sign, with and without a unit, alone and in a grid cell
pub fn extreme_numbers() -> Vec<Value> {
    let kw = libhaystack::units::get_unit("kW");
    let mut out = Vec::new();
    let mags = [
        5e-324,
        f64::MIN_POSITIVE,
        f64::from_bits(f64::MIN_POSITIVE.to_bits() - 1),
        f64::from_bits(0x000f_ffff_ffff_fffe),
        1.234_567_890_123_456_7e-310,
        f64::MAX,
        f64::from_bits(f64::MAX.to_bits() - 1),
        1e308,
        9_007_199_254_740_993.0,
        1e23,
        1e22,
        123_456_789_012_345_680_000.0,
        0.1 + 0.2,
        f64::EPSILON,
    ];
    for m in mags {
        for x in [m, -m] {
            for unit in [None, kw] {
                let n = Value::Number(Number { value: x, unit });
                out.push(n.clone());
                let mut row = Dict::new();
                row.insert("a".into(), n.clone());
                row.insert("b".into(), Value::List(vec![n]));
                out.push(Value::Grid(Grid::make_from_dicts(vec![row])));
            }
        }
    }
    out
}

pub fn generate(ctx: &mut Ctx) {
    for v in extreme_numbers() {
        ctx.case("wf:extreme", &vx::show(&v));
    }
    for v in named_cases() {
        ctx.case("wf:named", &vx::show(&v));
    }
    for v in long_values() {
        ctx.case("wf:long", &vx::show(&v));
    }
    // every unit once (finite magnitude)
    for (i, u) in gen::all_units_cached().iter().enumerate() {
        let x = gen::F64_EDGES[i % gen::F64_EDGES.len()];
        ctx.case("wf:unit", &vx::show(&Value::Number(Number { value: x, unit: Some(u) })));
    }
    // every unambiguous zone once
    {
        use chrono::TimeZone;
        let zones = gen::zones_cached(true).clone();
        let step = if ctx.quick() { 7 } else { 1 };
        for (i, z) in zones.iter().enumerate() {
            if i % step != 0 {
                continue;
            }
            let secs = 315_532_800 + (i as i64) * 4_000_003;
            let dt = z.timestamp_opt(secs, (i as u32 % 3) * 500_000_000 / 2).single().unwrap();
            ctx.case("wf:zone", &vx::show(&Value::DateTime(DateTime::from(dt))));
        }
    }
    // the seconds around daylight-saving transitions, incl. the repeated local hour
    for dt in gen::dst_edge_datetimes().into_iter().chain(gen::leap_datetimes()) {
        ctx.case("wf:dst", &vx::show(&Value::DateTime(dt)));
    }
    // zone offsets with seconds (local mean time): the written offset has minute precision
    for dt in gen::lmt_datetimes() {
        ctx.case("wf:lmt", &vx::show(&Value::DateTime(dt)));
    }
    let total = ctx.n(4000, 200_000);
    for i in 0..total {
        let mut rng = ctx.rng.fork();
        let depth = if i % 10 == 0 { 6 } else { 3 };
        let v = gen::value(&mut rng, &Cfg::wf(depth));
        ctx.case("wf:rand", &vx::show(&v));
    }
    // arbitrary (not well-formed) values: the model must still agree with the code
    let total = ctx.n(1000, 30_000);
    for _ in 0..total {
        let mut rng = ctx.rng.fork();
        let v = gen::value(&mut rng, &Cfg::any(3));
        ctx.case("any:rand", &vx::show(&v));
    }
    // known finding DEPTH64: the reader's nesting bound
    {
        let mut v = Value::make_int(1);
        for _ in 0..64 {
            v = Value::List(vec![v]);
        }
        ctx.case("wf:deep64", &vx::show(&v));
        let mut v = Value::make_int(1);
        for _ in 0..63 {
            v = Value::List(vec![v]);
        }
        ctx.case("wf:deep63", &vx::show(&v));
    }
    // known finding Z4: single-column grid, row without the cell
    let g = Grid { meta: None, columns: vec![Column { name: "a".into(), meta: None }], rows: vec![Dict::new(), { let mut d = Dict::new(); d.insert("a".into(), 1.into()); d }], ver: "3.0".into() };
    ctx.case("wf:z4", &vx::show(&Value::Grid(g)));
}
