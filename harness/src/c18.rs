//! C18 — the C API is memory-safe under its ownership protocol and tolerates null.
//!
//! Cases (label: input):
//!   * `hist: <history>`      a C17 call history (same engine, `crate::c17`) executed under the protocol:
//!       every handle, string and filter that was handed out is destroyed exactly once by its destroy
//!       function.  Oracles: (1) the counting allocator — after the clean-up the number of live heap
//!       blocks of this thread is back at the baseline (no leak; a double free would drive it below);
//!       (2) all C17 oracles.  Correspondence `C18 own …`: the objects the harness still holds at the
//!       end of the history = the live set of the Lean ownership model.
//!   * `null: <history>`      the tour + one call whose i-th pointer argument is null (other arguments
//!       valid), for EVERY (function, pointer parameter) of the call table except the two exempt destroy
//!       functions.  The call must return (an abort kills the process; `check` reports it), must answer
//!       with its sentinel and leave a retrievable error message.  Correspondence `C18 hist …`.
//!   * `nulltable: -`         the enumerated pairs against the translated inventory (`C18 nulltable`).
//!   * `asan: <seed> <n>`     (thorough) n random histories executed by a copy of this harness built with
//!       AddressSanitizer + LeakSanitizer (nightly, -Zsanitizer=address; fallback: valgrind memcheck on
//!       the release binary); any report is an oracle failure, the history is in the detail.
//!   * `asanbatch: <seed> <n>` what the sanitized child process executes.

use crate::c17::{self, Call, A, CS, FUNCS};
use crate::ctx::{CaseOut, Ctx};
use crate::rng::Rng;
use std::alloc::{GlobalAlloc, Layout, System};
use std::cell::Cell;
use std::process::Command;
use std::sync::OnceLock;

// ------------------------------------------------------------------------------------------------
// counting allocator: live heap blocks per thread
// ------------------------------------------------------------------------------------------------
pub struct Counting;

thread_local! {
    static LIVE: Cell<i64> = const { Cell::new(0) };
}

/// While set (the C-API properties switch it on), memory is POISONED when it is released and a `realloc` always moves
/// the block: code that reads a block after giving it back (a borrowed entry cloned after its container's storage has
/// been reallocated, say) then reads 0xDD bytes instead of the stale but intact data a plain allocator would leave
/// there, and fails visibly (wrong value, invalid enum tag, absurd length) instead of passing by accident.
pub static POISON: std::sync::atomic::AtomicBool = std::sync::atomic::AtomicBool::new(false);

unsafe impl GlobalAlloc for Counting {
    unsafe fn alloc(&self, layout: Layout) -> *mut u8 {
        let p = System.alloc(layout);
        if !p.is_null() {
            let _ = LIVE.try_with(|c| c.set(c.get() + 1));
        }
        p
    }
    unsafe fn dealloc(&self, ptr: *mut u8, layout: Layout) {
        let _ = LIVE.try_with(|c| c.set(c.get() - 1));
        if POISON.load(std::sync::atomic::Ordering::Relaxed) {
            std::ptr::write_bytes(ptr, 0xDD, layout.size());
        }
        System.dealloc(ptr, layout)
    }
    unsafe fn alloc_zeroed(&self, layout: Layout) -> *mut u8 {
        let p = System.alloc_zeroed(layout);
        if !p.is_null() {
            let _ = LIVE.try_with(|c| c.set(c.get() + 1));
        }
        p
    }
    unsafe fn realloc(&self, ptr: *mut u8, layout: Layout, new_size: usize) -> *mut u8 {
        if !POISON.load(std::sync::atomic::Ordering::Relaxed) {
            return System.realloc(ptr, layout, new_size);
        }
        // always move: new block, copy, poison and release the old one
        let new_layout = Layout::from_size_align_unchecked(new_size, layout.align());
        let q = System.alloc(new_layout);
        if !q.is_null() {
            std::ptr::copy_nonoverlapping(ptr, q, layout.size().min(new_size));
            std::ptr::write_bytes(ptr, 0xDD, layout.size());
            System.dealloc(ptr, layout);
        }
        q
    }
}

#[global_allocator]
static GLOBAL: Counting = Counting;

fn live_blocks() -> i64 {
    LIVE.with(|c| c.get())
}

/// Runs the calls on the real C API only, then destroys everything that is still alive exactly once.
/// Returns live blocks after minus before (0 = nothing leaked, nothing freed twice).
fn leak_delta(calls: &[Call]) -> i64 {
    let base = live_blocks();
    {
        let mut c = c17::CSide::default();
        for call in calls {
            let reply = c.step(call);
            drop(reply);
        }
        // the pending error message is an owned string too
        unsafe {
            let p = libhaystack::c_api::err::last_error_message();
            if !p.is_null() {
                libhaystack::c_api::str::haystack_string_destroy(p as *mut std::os::raw::c_char);
            }
        }
        c.destroy_all();
        drop(c);
    }
    live_blocks() - base
}

fn ids(v: &[usize]) -> String {
    v.iter().map(|k| k.to_string()).collect::<Vec<_>>().join(",")
}

fn exec_hist(input: &str, out: &mut CaseOut, with_own: bool) -> Option<c17::HistOut> {
    let calls = match c17::parse_history(input) {
        Some(c) => c,
        None => {
            out.fail("harness", "unparsable C18 history".into());
            return None;
        }
    };
    // first run: all C17 oracles, warms every lazy static of the library and of the harness
    let h = c17::run_history(&calls);
    out.nontrivial = h.n_calls >= 2;
    for (k, d) in &h.fails {
        out.fail(k, d.clone());
    }
    // second and third run under the counting allocator
    let _ = leak_delta(&calls);
    let delta = leak_delta(&calls);
    if delta > 0 {
        out.fail(
            "leak",
            format!("{delta} heap block(s) still allocated after every handle, string and filter was destroyed once"),
        );
    } else if delta < 0 {
        out.fail("double_free", format!("{} more block(s) freed than allocated during the history", -delta));
    }
    out.stat(if delta == 0 { "alloc_balanced" } else { "alloc_unbalanced" });
    if with_own {
        out.req(
            format!("C18 own {}", h.req),
            format!("ok v:{} s:{} f:{}", ids(&h.live.0), ids(&h.live.1), ids(&h.live.2)),
        );
    }
    Some(h)
}

// ------------------------------------------------------------------------------------------------
// null arguments
// ------------------------------------------------------------------------------------------------
const EXEMPT: &[&str] = &["haystack_value_destroy", "haystack_string_destroy"];

/// (function index, ordinal of the pointer parameter, position in the argument list)
fn null_pairs() -> Vec<(usize, usize, usize)> {
    let mut v = Vec::new();
    for (f, (name, tys)) in FUNCS.iter().enumerate() {
        if EXEMPT.contains(name) {
            continue;
        }
        let mut ord = 0;
        for (pos, t) in tys.iter().enumerate() {
            if c17::is_ptr(*t) {
                v.push((f, ord, pos));
                ord += 1;
            }
        }
    }
    v
}

fn null_of(a: &A) -> A {
    match a {
        A::V(_) => A::V(None),
        A::F(_) => A::F(None),
        A::SP(_) => A::SP(None),
        A::C(_) => A::C(CS::Null),
        A::O(_) => A::O(false),
        other => other.clone(),
    }
}

/// the tour (valid calls of every function) followed by the function's first tour call with one null
fn null_history(f: usize, pos: usize) -> Option<Vec<Call>> {
    let mut calls = c17::tour();
    // objects the tour destroys at its end are not used by the appended call: take the first call
    let template = calls.iter().find(|c| c.f == f)?.clone();
    let mut call = template;
    call.args[pos] = null_of(&call.args[pos]);
    calls.push(call);
    Some(calls)
}

fn exec_null(input: &str, out: &mut CaseOut) {
    let h = match exec_hist(input, out, false) {
        Some(h) => h,
        None => return,
    };
    out.req(format!("C18 hist {}", h.req), h.reply.clone());
    // the last call is the one with the null argument
    if !h.last_ref_failed {
        out.fail("null_not_error", format!("the reference does not treat the call as failing: answer `{}`", h.last_reply));
    }
    if !h.reply.ends_with("e1") {
        out.fail(
            "null_no_message",
            format!("no error message is retrievable after the call with the null argument (answer `{}`)", h.last_reply),
        );
    }
}

// ------------------------------------------------------------------------------------------------
// sanitizer runs (thorough)
// ------------------------------------------------------------------------------------------------
#[derive(Clone, Debug)]
enum Sanitizer {
    Asan(String),
    Valgrind(String),
    None(String),
}

static SANITIZER: OnceLock<Sanitizer> = OnceLock::new();

fn verif_root() -> String {
    std::env::var("VERIF_ROOT").unwrap_or_else(|_| "/verif".to_string())
}

/// marks the time this process spends waiting for a child (the watchdog's idle rule must not take it for a deadlock)
struct ChildWait;
impl ChildWait {
    fn begin() -> ChildWait {
        crate::ctx::WAITING_FOR_CHILD.store(true, std::sync::atomic::Ordering::Relaxed);
        ChildWait
    }
}
impl Drop for ChildWait {
    fn drop(&mut self) {
        crate::ctx::WAITING_FOR_CHILD.store(false, std::sync::atomic::Ordering::Relaxed);
    }
}

fn sanitizer() -> &'static Sanitizer {
    SANITIZER.get_or_init(|| {
        let _w = ChildWait::begin();
        let root = verif_root();
        let target = format!("{root}/.cache/asan-target");
        let bin = format!("{target}/x86_64-unknown-linux-gnu/release/hsverif");
        let r = Command::new("cargo")
            .args([
                "+nightly",
                "build",
                "--release",
                "--offline",
                "-Zbuild-std",
                "--target",
                "x86_64-unknown-linux-gnu",
            ])
            .current_dir(format!("{root}/harness"))
            .env("RUSTFLAGS", "-Zsanitizer=address --cfg libhaystack_verif -Awarnings")
            .env("CARGO_TARGET_DIR", &target)
            .env("CARGO_NET_OFFLINE", "true")
            .env_remove("RUST_BACKTRACE")
            .output();
        let why = match r {
            Ok(o) if o.status.success() && std::path::Path::new(&bin).exists() => return Sanitizer::Asan(bin),
            Ok(o) => String::from_utf8_lossy(&o.stderr).chars().rev().take(400).collect::<String>().chars().rev().collect(),
            Err(e) => e.to_string(),
        };
        // fallback: valgrind memcheck on this very binary
        let me = std::env::current_exe().map(|p| p.to_string_lossy().to_string()).unwrap_or_default();
        match Command::new("valgrind").arg("--version").output() {
            Ok(o) if o.status.success() && !me.is_empty() => Sanitizer::Valgrind(me),
            _ => Sanitizer::None(why),
        }
    })
}

/// runs one case in the sanitized child; Some(report) when the sanitizer (or the child) complained
fn sanitized(label: &str, input: &str, tag: &str) -> Option<String> {
    let dir = format!("{}/.cache/run/C18-asan-{}-{tag}", verif_root(), std::process::id());
    let _ = std::fs::create_dir_all(&dir);
    let cur = format!("{dir}/current");
    let _ = std::fs::remove_file(&cur);
    let mut cmd = match sanitizer() {
        Sanitizer::Asan(bin) => {
            let mut c = Command::new(bin);
            c.env("ASAN_OPTIONS", "detect_leaks=1:exitcode=23:abort_on_error=0:allocator_may_return_null=1");
            c.env("LSAN_OPTIONS", "exitcode=23");
            c
        }
        Sanitizer::Valgrind(bin) => {
            let mut c = Command::new("valgrind");
            c.args(["-q", "--error-exitcode=23", "--leak-check=full", "--errors-for-leak-kinds=definite,indirect", bin]);
            c
        }
        Sanitizer::None(_) => return None,
    };
    cmd.args(["replay", "C18", label, input, &dir])
        .env("C18_CURRENT", &cur)
        .env("VERIF_CASE_TIMEOUT_MS", "600000")
        .env_remove("RUST_BACKTRACE");
    let o = {
        let _w = ChildWait::begin();
        match cmd.output() {
            Ok(o) => o,
            Err(e) => return Some(format!("cannot start the sanitized harness: {e}")),
        }
    };
    let err = String::from_utf8_lossy(&o.stderr).to_string();
    let child_fails = std::fs::read_to_string(format!("{dir}/fails.jsonl")).unwrap_or_default();
    let current = std::fs::read_to_string(&cur).unwrap_or_default();
    let _ = std::fs::remove_dir_all(&dir);
    let complained = !o.status.success()
        || err.contains("AddressSanitizer")
        || err.contains("LeakSanitizer")
        || err.contains("ERROR SUMMARY")
        || !child_fails.trim().is_empty();
    if !complained {
        return None;
    }
    let report: String = err.lines().filter(|l| !l.trim().is_empty()).take(14).collect::<Vec<_>>().join(" / ");
    Some(format!(
        "exit status {:?}; history in progress: `{}`; oracle failures in the child: {}; report: {}",
        o.status.code(),
        current.trim(),
        child_fails.lines().next().unwrap_or("-"),
        report.chars().take(1500).collect::<String>()
    ))
}

fn batch_histories(seed: u64, n: u64) -> Vec<String> {
    let mut rng = Rng::new(seed ^ 0xC18A5A);
    (0..n)
        .map(|_| {
            let mut r = rng.fork();
            let len = 10 + r.below(41) as usize;
            c17::show_history(&c17::random_history(&mut r, len))
        })
        .collect()
}

fn parse_batch(input: &str) -> Option<(u64, u64)> {
    let mut it = input.split_whitespace();
    Some((it.next()?.parse().ok()?, it.next()?.parse().ok()?))
}

/// Borrowed entry pointers used while their container is alive and unmodified - as arguments of a call that then
/// modifies that very container: `get_list_entry_at(l, i)` then `push_list_entry(l, entry)` / `insert_dict_entry(d, k,
/// entry)` for every length 1..n (so that every capacity boundary of the storage is crossed), and the same through a
/// dict.  What the container holds afterwards is read back through the C getters and compared with what was put in.
fn exec_borrowed(n: usize, out: &mut CaseOut) {
    use libhaystack::c_api::dict::*;
    use libhaystack::c_api::list::*;
    use libhaystack::c_api::str::*;
    use libhaystack::c_api::value::*;
    use libhaystack::c_api::ResultType;
    use libhaystack::val::Value;
    use std::ffi::{CStr, CString};
    out.nontrivial = true;
    out.stat("borrowed");
    unsafe {
        let text_of = |p: *const Value| -> Option<String> {
            let c = haystack_value_get_str_value(p);
            if c.is_null() {
                return None;
            }
            let t = CStr::from_ptr(c).to_string_lossy().to_string();
            haystack_string_destroy(c as *mut std::os::raw::c_char);
            Some(t)
        };
        // ---- list: duplicate the FIRST entry at every length
        let list = Box::into_raw(haystack_value_make_list());
        let first = CString::new("entry number zero, long enough to live on the heap").unwrap();
        let e0 = Box::into_raw(haystack_value_make_str(first.as_ptr()).unwrap());
        if haystack_value_push_list_entry(list, e0) != ResultType::TRUE {
            out.fail("harness", "push failed".into());
        }
        haystack_value_destroy(e0);
        for round in 1..n {
            let mut p: *const Value = std::ptr::null();
            if haystack_value_get_list_entry_at(list, 0, &mut p) != ResultType::TRUE || p.is_null() {
                out.fail("borrowed_entry", format!("round {round}: get_list_entry_at(list, 0) failed"));
                break;
            }
            if haystack_value_push_list_entry(list, p) != ResultType::TRUE {
                out.fail("borrowed_entry", format!("round {round}: push_list_entry(list, borrowed entry 0) failed"));
                break;
            }
            let len = haystack_value_get_list_len(list);
            let mut q: *const Value = std::ptr::null();
            let got = if haystack_value_get_list_entry_at(list, len - 1, &mut q) == ResultType::TRUE { text_of(q) } else { None };
            if len != round + 1 || got.as_deref() != Some(first.to_str().unwrap()) {
                out.fail(
                    "borrowed_entry",
                    format!("after pushing a copy of entry 0 (borrowed with get_list_entry_at) onto a list of {round} entries the last entry reads {got:?}, length {len}"),
                );
                break;
            }
        }
        haystack_value_destroy(list);
        // ---- dict: re-insert the entry of key `k0` under fresh keys
        let dict = Box::into_raw(haystack_value_make_dict());
        let k0 = CString::new("k0").unwrap();
        let v0 = Box::into_raw(haystack_value_make_str(first.as_ptr()).unwrap());
        haystack_value_insert_dict_entry(dict, k0.as_ptr(), v0);
        haystack_value_destroy(v0);
        for round in 1..n {
            let mut p: *const Value = std::ptr::null();
            if haystack_value_get_dict_entry(dict, k0.as_ptr(), &mut p) != ResultType::TRUE || p.is_null() {
                out.fail("borrowed_entry", format!("round {round}: get_dict_entry(dict, k0) failed"));
                break;
            }
            let k = CString::new(format!("k{round}")).unwrap();
            if haystack_value_insert_dict_entry(dict, k.as_ptr(), p) != ResultType::TRUE {
                out.fail("borrowed_entry", format!("round {round}: insert_dict_entry(dict, k{round}, borrowed entry) failed"));
                break;
            }
            let mut q: *const Value = std::ptr::null();
            let got = if haystack_value_get_dict_entry(dict, k.as_ptr(), &mut q) == ResultType::TRUE { text_of(q) } else { None };
            if got.as_deref() != Some(first.to_str().unwrap()) {
                out.fail("borrowed_entry", format!("after inserting a copy of entry k0 under k{round} it reads {got:?}"));
                break;
            }
        }
        haystack_value_destroy(dict);
    }
}

/// Failing calls whose error message echoes LONG caller text with multi-byte characters at every alignment (unknown
/// unit, unknown zone, invalid filter, invalid Zinc, invalid JSON): the failure must be the sentinel, and the message
/// must be retrievable - not an abort inside the C boundary.
fn exec_longerr(out: &mut CaseOut) {
    use libhaystack::c_api::err::last_error_message;
    use libhaystack::c_api::str::haystack_string_destroy;
    use std::ffi::CString;
    out.nontrivial = true;
    out.stat("longerr");
    let fills = ["é", "€", "😀", "aé", "ab€"];
    for pad in 0..6usize {
        for fill in fills {
            for total in [200usize, 250, 254, 255, 256, 257, 260, 300, 510, 512, 514, 1020, 1024, 1030, 4096, 70000] {
                let mut t = "x".repeat(pad);
                while t.len() < total {
                    t.push_str(fill);
                }
                let c = CString::new(t.clone()).unwrap();
                unsafe {
                    let mut check = |name: &str, failed: bool| {
                        let m = last_error_message();
                        if failed && m.is_null() {
                            out.fail("null_no_message", format!("{name} with {total} bytes of `{fill}` text failed without a retrievable message"));
                        }
                        if !m.is_null() {
                            haystack_string_destroy(m as *mut std::os::raw::c_char);
                        }
                    };
                    let f = libhaystack::c_api::value::haystack_value_make_number_with_unit(1.0, c.as_ptr()).map(drop).is_none();
                    check("make_number_with_unit", f);
                    let f = libhaystack::c_api::filter::haystack_filter_parse(c.as_ptr()).map(drop).is_none();
                    check("filter_parse", f);
                    let f = libhaystack::c_api::zinc::haystack_value_from_zinc_string(c.as_ptr()).map(drop).is_none();
                    check("from_zinc_string", f);
                    let f = libhaystack::c_api::json::haystack_value_from_json_string(c.as_ptr()).map(drop).is_none();
                    check("from_json_string", f);
                }
            }
        }
    }
}

/// the bracket-less and bracketed nesting shapes of C03 and the filter shapes of C09, `depth` levels deep, through the
/// three text entry points of the C API: each call must come back (a value or null + message) - a stack overflow
/// inside the C boundary aborts the process, which the supervisor attributes to this case
const ZINC_DEEP: &[(&str, &str)] = &[
    ("[", "]"),
    ("{a:", "}"),
    ("<<\nver:\"3.0\"\na\n", "\n>>"),
    ("ver:\"3.0\" a:", ""),
    ("ver:\"3.0\"\nc m:", ""),
    ("ver:\"3.0\"\na\n", ""),
    ("ver:\"3.0\"\na,b\n1,", ""),
    ("ver:\"3.0\" m\na\n", ""),
];
fn exec_deeptext(input: &str, out: &mut CaseOut) {
    use libhaystack::c_api::err::last_error_message;
    use libhaystack::c_api::str::haystack_string_destroy;
    use std::ffi::CString;
    out.nontrivial = true;
    let mut it = input.split(' ');
    let kind = it.next().unwrap_or("z");
    let depth: usize = it.next().and_then(|s| s.parse().ok()).unwrap_or(1000);
    let idx: usize = it.next().and_then(|s| s.parse().ok()).unwrap_or(0);
    let text = match kind {
        "z" => {
            let (open, close) = ZINC_DEEP[idx % ZINC_DEEP.len()];
            let mut s = open.repeat(depth);
            s.push_str(if open.starts_with("ver") { "ver:\"3.0\"\nb\n1\n" } else { "1" });
            s.push_str(&close.repeat(depth));
            s
        }
        "j" => {
            let (open, close) = [("[", "]"), ("{\"a\":", "}"), ("{\"_kind\":\"dict\",\"a\":[", "]}")][idx % 3];
            format!("{}1{}", open.repeat(depth), close.repeat(depth))
        }
        _ => crate::c09::deep_text(depth, crate::c09::SHAPES[idx % crate::c09::SHAPES.len()]),
    };
    out.stat(&format!("deeptext:{kind}"));
    let c = match CString::new(text) {
        Ok(c) => c,
        Err(_) => return,
    };
    unsafe {
        let r = match kind {
            "z" => libhaystack::c_api::zinc::haystack_value_from_zinc_string(c.as_ptr()).map(drop).is_none(),
            "j" => libhaystack::c_api::json::haystack_value_from_json_string(c.as_ptr()).map(drop).is_none(),
            _ => libhaystack::c_api::filter::haystack_filter_parse(c.as_ptr()).map(drop).is_none(),
        };
        let m = last_error_message();
        if r && m.is_null() {
            out.fail("null_no_message", format!("the {kind} text entry point failed on a {depth}-deep text without a retrievable message"));
        }
        if !m.is_null() {
            haystack_string_destroy(m as *mut std::os::raw::c_char);
        }
    }
}

/// several hundred DISTINCT texts through each text entry point on one thread (valid filters - some padded with
/// blanks and line breaks -, valid Zinc and Hayson documents, unit names, zone names): whatever an entry point
/// keeps per thread between calls has been filled, evicted and refilled when the last ones arrive
fn exec_manytexts(out: &mut CaseOut) {
    use libhaystack::c_api::err::last_error_message;
    use libhaystack::c_api::str::haystack_string_destroy;
    use std::ffi::CString;
    out.nontrivial = true;
    out.stat("manytexts");
    let drain = || unsafe {
        let m = last_error_message();
        if !m.is_null() {
            haystack_string_destroy(m as *mut std::os::raw::c_char);
        }
    };
    for n in 0..400usize {
        let pad = ["", " ", "\n", "  \t", " \r\n"][n % 5];
        let texts = [
            format!("point and curVal > {n}{pad}"),
            format!("{pad}site or equip and navName == \"n{n}\""),
            format!("ref{n}->siteRef == @s{n}"),
        ];
        for t in &texts {
            let c = CString::new(t.as_str()).unwrap();
            let ok = unsafe { libhaystack::c_api::filter::haystack_filter_parse(c.as_ptr()).map(drop).is_some() };
            if !ok {
                out.fail("c_vs_rust", format!("haystack_filter_parse rejects the valid filter {t:?} (parse number {n} of this thread)"));
            }
            drain();
        }
        let z = CString::new(format!("{{a:{n} b:\"t{n}\" c:[{n},@r{n}]}}")).unwrap();
        if unsafe { libhaystack::c_api::zinc::haystack_value_from_zinc_string(z.as_ptr()).map(drop).is_none() } {
            out.fail("c_vs_rust", format!("haystack_value_from_zinc_string rejects a valid dict (document number {n} of this thread)"));
        }
        drain();
        let j = CString::new(format!("{{\"a\":{n},\"b\":[\"t{n}\",{{\"_kind\":\"ref\",\"val\":\"r{n}\"}}]}}")).unwrap();
        if unsafe { libhaystack::c_api::json::haystack_value_from_json_string(j.as_ptr()).map(drop).is_none() } {
            out.fail("c_vs_rust", format!("haystack_value_from_json_string rejects a valid document (number {n} of this thread)"));
        }
        drain();
    }
}

pub fn exec(label: &str, input: &str, out: &mut CaseOut) {
    POISON.store(true, std::sync::atomic::Ordering::Relaxed);
    match label {
        "manytexts" => exec_manytexts(out),
        "deeptext" => exec_deeptext(input, out),
        "borrowed" => exec_borrowed(input.parse().unwrap_or(70), out),
        "longerr" => exec_longerr(out),
        "hist" | "tour" => {
            exec_hist(input, out, true);
        }
        "null" => exec_null(input, out),
        "nulltable" => {
            let pairs: Vec<String> = null_pairs().iter().map(|(f, ord, _)| format!("{}:{ord}", FUNCS[*f].0)).collect();
            out.req(format!("C18 nulltable {}", pairs.join(" ")), format!("ok {}", pairs.len()));
            out.nontrivial = true;
        }
        "asanbatch" => {
            // inside the sanitized child
            let (seed, n) = match parse_batch(input) {
                Some(x) => x,
                None => return out.fail("harness", "bad asanbatch input".into()),
            };
            let cur = std::env::var("C18_CURRENT").ok();
            for hist in batch_histories(seed, n) {
                if let Some(p) = &cur {
                    let _ = std::fs::write(p, &hist);
                }
                exec_hist(&hist, out, false);
            }
            if let Some(p) = &cur {
                let _ = std::fs::write(p, "(all histories of the batch ran; report at exit)");
            }
        }
        "asan" => {
            let (seed, n) = match parse_batch(input) {
                Some(x) => x,
                None => return out.fail("harness", "bad asan input".into()),
            };
            match sanitizer() {
                Sanitizer::None(why) => {
                    out.stat("sanitizer:unavailable");
                    let _ = why;
                    return;
                }
                Sanitizer::Asan(_) => out.stat("sanitizer:asan"),
                Sanitizer::Valgrind(_) => out.stat("sanitizer:valgrind"),
            }
            out.nontrivial = true;
            if let Some(report) = sanitized("asanbatch", input, "b") {
                // find the history: run the batch one by one
                for hist in batch_histories(seed, n) {
                    if let Some(r1) = sanitized("hist", &hist, "s") {
                        out.fail("asan", format!("history `{hist}`: {r1}"));
                        return;
                    }
                }
                out.fail("asan", format!("batch {input}: {report}"));
            }
            for _ in 0..n {
                out.stat("sanitized_history");
            }
        }
        _ => out.fail("harness", format!("unknown C18 label {label}")),
    }
}

pub fn generate(ctx: &mut Ctx) {
    ctx.case("nulltable", "-");
    ctx.case("borrowed", "70");
    ctx.case("longerr", "-");
    ctx.case("manytexts", "-");
    for depth in [200usize, 5000, 100_000] {
        for i in 0..ZINC_DEEP.len() {
            ctx.case("deeptext", &format!("z {depth} {i}"));
        }
        for i in 0..3 {
            ctx.case("deeptext", &format!("j {depth} {i}"));
        }
        for i in 0..crate::c09::SHAPES.len() {
            if depth != 5000 {
                ctx.case("deeptext", &format!("f {depth} {i}"));
            }
        }
    }
    ctx.case("tour", &c17::show_history(&c17::tour()));
    // every (function, pointer parameter) with null
    for (f, ord, pos) in null_pairs() {
        match null_history(f, pos) {
            Some(calls) => ctx.case("null", &c17::show_history(&calls)),
            None => ctx.case("null", &format!("missing-template {} {ord}", FUNCS[f].0)),
        }
    }
    // histories under the counting allocator
    let n = ctx.n(2000, 20_000);
    for _ in 0..n {
        let mut rng = ctx.rng.fork();
        let len = 10 + rng.below(41) as usize;
        let calls = c17::random_history(&mut rng, len);
        ctx.case("hist", &c17::show_history(&calls));
    }
    // the same kind of histories under AddressSanitizer + LeakSanitizer
    if !ctx.quick() {
        let _ = sanitizer(); // built outside of any case (no watchdog)
        let batches = 60;
        for _ in 0..batches {
            let seed = ctx.rng.next() % 1_000_000_007;
            ctx.case("asan", &format!("{seed} 50"));
        }
    }
}
