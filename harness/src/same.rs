//! "Equal in every component" — the round-trip oracle of C01/C02/C11.  Rust's `==` on `Value` is
//! NOT used: it ignores a Ref's display name and a timestamp's zone.

use chrono::Offset;
use libhaystack::val::*;

fn num_same(a: f64, b: f64) -> bool {
    (a.is_nan() && b.is_nan()) || a == b
}

fn dict_diff(a: &Dict, b: &Dict, path: &str) -> Option<String> {
    for (k, va) in a.iter() {
        match b.get(k) {
            None => return Some(format!("{path}: tag {k:?} lost")),
            Some(vb) => {
                if let Some(d) = diff(va, vb, &format!("{path}.{k}")) {
                    return Some(d);
                }
            }
        }
    }
    for k in b.keys() {
        if !a.contains_key(k) {
            return Some(format!("{path}: tag {k:?} appeared"));
        }
    }
    None
}

fn odict_diff(a: &Option<Dict>, b: &Option<Dict>, path: &str) -> Option<String> {
    // an absent meta and an empty meta are the same thing
    let e = Dict::new();
    dict_diff(a.as_ref().unwrap_or(&e), b.as_ref().unwrap_or(&e), path)
}

/// first difference between the original `a` and the value that came back `b`
pub fn diff(a: &Value, b: &Value, path: &str) -> Option<String> {
    match (a, b) {
        (Value::Null, Value::Null)
        | (Value::Marker, Value::Marker)
        | (Value::Remove, Value::Remove)
        | (Value::Na, Value::Na) => None,
        (Value::Bool(x), Value::Bool(y)) if x.value == y.value => None,
        (Value::Number(x), Value::Number(y)) => {
            if !num_same(x.value, y.value) {
                Some(format!("{path}: number {} became {}", x.value, y.value))
            } else if x.unit.map(|u| u.name()) != y.unit.map(|u| u.name()) {
                Some(format!("{path}: unit {:?} became {:?}", x.unit.map(|u| u.symbol()), y.unit.map(|u| u.symbol())))
            } else {
                None
            }
        }
        (Value::Str(x), Value::Str(y)) if x.value == y.value => None,
        (Value::Uri(x), Value::Uri(y)) if x.value == y.value => None,
        (Value::Symbol(x), Value::Symbol(y)) if x.value == y.value => None,
        (Value::Ref(x), Value::Ref(y)) => {
            if x.value != y.value {
                Some(format!("{path}: ref id {:?} became {:?}", x.value, y.value))
            } else if x.dis != y.dis {
                Some(format!("{path}: ref dis {:?} became {:?}", x.dis, y.dis))
            } else {
                None
            }
        }
        (Value::Date(x), Value::Date(y)) if x == y => None,
        (Value::Time(x), Value::Time(y)) if x == y => None,
        (Value::DateTime(x), Value::DateTime(y)) => {
            if x.timestamp() != y.timestamp() || x.timestamp_subsec_nanos() != y.timestamp_subsec_nanos() {
                Some(format!("{path}: instant {} became {}", x.to_rfc3339(), y.to_rfc3339()))
            } else if x.offset().fix().local_minus_utc() != y.offset().fix().local_minus_utc() {
                Some(format!("{path}: offset of {} became {}", x.to_rfc3339(), y.to_rfc3339()))
            } else if x.timezone_short_name() != y.timezone_short_name() {
                Some(format!("{path}: zone {} became {}", x.timezone_short_name(), y.timezone_short_name()))
            } else {
                None
            }
        }
        (Value::Coord(x), Value::Coord(y)) => {
            if num_same(x.lat, y.lat) && num_same(x.long, y.long) {
                None
            } else {
                Some(format!("{path}: coord ({},{}) became ({},{})", x.lat, x.long, y.lat, y.long))
            }
        }
        (Value::XStr(x), Value::XStr(y)) if x.r#type == y.r#type && x.value == y.value => None,
        (Value::List(x), Value::List(y)) => {
            if x.len() != y.len() {
                return Some(format!("{path}: list of {} elements became {}", x.len(), y.len()));
            }
            for (i, (ea, eb)) in x.iter().zip(y.iter()).enumerate() {
                if let Some(d) = diff(ea, eb, &format!("{path}[{i}]")) {
                    return Some(d);
                }
            }
            None
        }
        (Value::Dict(x), Value::Dict(y)) => dict_diff(x, y, path),
        (Value::Grid(x), Value::Grid(y)) => {
            if let Some(d) = odict_diff(&x.meta, &y.meta, &format!("{path}.meta")) {
                return Some(d);
            }
            if x.columns.len() != y.columns.len() {
                return Some(format!("{path}: {} columns became {}", x.columns.len(), y.columns.len()));
            }
            for (i, (ca, cb)) in x.columns.iter().zip(y.columns.iter()).enumerate() {
                if ca.name != cb.name {
                    return Some(format!("{path}: column {i} {:?} became {:?}", ca.name, cb.name));
                }
                if let Some(d) = odict_diff(&ca.meta, &cb.meta, &format!("{path}.col[{}].meta", ca.name)) {
                    return Some(d);
                }
            }
            if x.rows.len() != y.rows.len() {
                return Some(format!("{path}: {} rows became {}", x.rows.len(), y.rows.len()));
            }
            for (i, (ra, rb)) in x.rows.iter().zip(y.rows.iter()).enumerate() {
                if let Some(d) = dict_diff(ra, rb, &format!("{path}.row[{i}]")) {
                    if x.columns.len() == 1 && ra.is_empty() && rb.len() == 1 && rb.values().all(|v| v.is_null()) {
                        return Some(format!("Z4:single-column-missing-cell {d}"));
                    }
                    return Some(d);
                }
            }
            None
        }
        _ => Some(format!("{path}: {a:?} became {b:?}")),
    }
}

/// nesting depth of a value (scalars = 0)
pub fn depth(v: &Value) -> usize {
    fn dd(d: &Dict) -> usize {
        d.values().map(depth).max().unwrap_or(0)
    }
    match v {
        Value::List(l) => 1 + l.iter().map(depth).max().unwrap_or(0),
        Value::Dict(d) => 1 + dd(d),
        Value::Grid(g) => {
            1 + g
                .rows
                .iter()
                .map(dd)
                .chain(g.columns.iter().map(|c| c.meta.as_ref().map_or(0, dd)))
                .chain(g.meta.iter().map(dd))
                .max()
                .unwrap_or(0)
        }
        _ => 0,
    }
}
