//! JSON text <-> "J" tokens (document order preserved; numbers annotated with what serde_json and
//! Rust std make of them).  An own small JSON reader/writer, so that member order is under the
//! harness's control (serde_json::Value sorts keys).
//!
//! request form: jn | jb0 | jb1 | ji LEX BITS H(display) | jf H(lex) BITS H(display) | js H | ja k J*k | jo k (H(key) J)*k
//! reply form:   ji INT | jf BITS (no lexemes)

use crate::vx::{h, unh};

#[derive(Clone, Debug, PartialEq)]
pub enum J {
    Null,
    Bool(bool),
    /// number lexeme as written
    Num(String),
    Str(String),
    Arr(Vec<J>),
    Obj(Vec<(String, J)>),
}

/// how serde_json classifies a number token: Some(int) when it is delivered through visit_i64/visit_u64
pub fn int_of(lex: &str) -> Option<i128> {
    if lex.contains('.') || lex.contains('e') || lex.contains('E') {
        return None;
    }
    let v: i128 = lex.parse().ok()?;
    if v == 0 && lex.starts_with('-') {
        // serde_json reads "-0" as the float -0.0
        return None;
    }
    if lex.starts_with('-') {
        if v >= i64::MIN as i128 {
            Some(v)
        } else {
            None
        }
    } else if v <= u64::MAX as i128 {
        Some(v)
    } else {
        None
    }
}

pub fn f64_of(lex: &str) -> f64 {
    match int_of(lex) {
        Some(i) => {
            if i < 0 {
                (i as i64) as f64
            } else {
                (i as u64) as f64
            }
        }
        // serde_json (float_roundtrip) and std agree on the nearest double; -0 integer lexeme is a float for serde_json
        None => lex.parse::<f64>().unwrap_or(f64::NAN),
    }
}

struct Rd<'a> {
    b: &'a [u8],
    i: usize,
}
impl<'a> Rd<'a> {
    fn ws(&mut self) {
        while self.i < self.b.len() && matches!(self.b[self.i], b' ' | b'\t' | b'\n' | b'\r') {
            self.i += 1;
        }
    }
    fn val(&mut self, depth: usize) -> Option<J> {
        if depth > 200 {
            return None;
        }
        self.ws();
        let c = *self.b.get(self.i)?;
        match c {
            b'n' => self.lit("null", J::Null),
            b't' => self.lit("true", J::Bool(true)),
            b'f' => self.lit("false", J::Bool(false)),
            b'"' => Some(J::Str(self.string()?)),
            b'[' => {
                self.i += 1;
                let mut v = Vec::new();
                self.ws();
                if self.b.get(self.i) == Some(&b']') {
                    self.i += 1;
                    return Some(J::Arr(v));
                }
                loop {
                    v.push(self.val(depth + 1)?);
                    self.ws();
                    match self.b.get(self.i)? {
                        b',' => self.i += 1,
                        b']' => {
                            self.i += 1;
                            return Some(J::Arr(v));
                        }
                        _ => return None,
                    }
                }
            }
            b'{' => {
                self.i += 1;
                let mut v = Vec::new();
                self.ws();
                if self.b.get(self.i) == Some(&b'}') {
                    self.i += 1;
                    return Some(J::Obj(v));
                }
                loop {
                    self.ws();
                    let k = self.string()?;
                    self.ws();
                    if self.b.get(self.i)? != &b':' {
                        return None;
                    }
                    self.i += 1;
                    let x = self.val(depth + 1)?;
                    v.push((k, x));
                    self.ws();
                    match self.b.get(self.i)? {
                        b',' => self.i += 1,
                        b'}' => {
                            self.i += 1;
                            return Some(J::Obj(v));
                        }
                        _ => return None,
                    }
                }
            }
            b'-' | b'0'..=b'9' => {
                let st = self.i;
                while self.i < self.b.len() && matches!(self.b[self.i], b'-' | b'+' | b'.' | b'e' | b'E' | b'0'..=b'9') {
                    self.i += 1;
                }
                Some(J::Num(String::from_utf8_lossy(&self.b[st..self.i]).to_string()))
            }
            _ => None,
        }
    }
    fn lit(&mut self, s: &str, j: J) -> Option<J> {
        if self.b[self.i..].starts_with(s.as_bytes()) {
            self.i += s.len();
            Some(j)
        } else {
            None
        }
    }
    fn string(&mut self) -> Option<String> {
        if self.b.get(self.i)? != &b'"' {
            return None;
        }
        self.i += 1;
        let mut out: Vec<u16> = Vec::new();
        let mut bytes: Vec<u8> = Vec::new();
        let flush = |out: &mut Vec<u16>, bytes: &mut Vec<u8>| {
            if !out.is_empty() {
                bytes.extend_from_slice(String::from_utf16_lossy(out).as_bytes());
                out.clear();
            }
        };
        loop {
            let c = *self.b.get(self.i)?;
            self.i += 1;
            match c {
                b'"' => {
                    flush(&mut out, &mut bytes);
                    return String::from_utf8(bytes).ok();
                }
                b'\\' => {
                    let e = *self.b.get(self.i)?;
                    self.i += 1;
                    let simple = match e {
                        b'"' => Some(b'"'),
                        b'\\' => Some(b'\\'),
                        b'/' => Some(b'/'),
                        b'b' => Some(8),
                        b'f' => Some(12),
                        b'n' => Some(b'\n'),
                        b'r' => Some(b'\r'),
                        b't' => Some(b'\t'),
                        _ => None,
                    };
                    if let Some(s) = simple {
                        flush(&mut out, &mut bytes);
                        bytes.push(s);
                    } else if e == b'u' {
                        let hx = std::str::from_utf8(self.b.get(self.i..self.i + 4)?).ok()?;
                        out.push(u16::from_str_radix(hx, 16).ok()?);
                        self.i += 4;
                    } else {
                        return None;
                    }
                }
                _ => {
                    flush(&mut out, &mut bytes);
                    bytes.push(c);
                }
            }
        }
    }
}

pub fn parse(text: &str) -> Option<J> {
    let mut r = Rd { b: text.as_bytes(), i: 0 };
    let v = r.val(0)?;
    r.ws();
    if r.i == r.b.len() {
        Some(v)
    } else {
        None
    }
}

pub fn esc(s: &str) -> String {
    let mut o = String::from("\"");
    for c in s.chars() {
        match c {
            '"' => o.push_str("\\\""),
            '\\' => o.push_str("\\\\"),
            '\n' => o.push_str("\\n"),
            '\r' => o.push_str("\\r"),
            '\t' => o.push_str("\\t"),
            c if (c as u32) < 0x20 => o.push_str(&format!("\\u{:04x}", c as u32)),
            c => o.push(c),
        }
    }
    o.push('"');
    o
}

pub fn to_text(j: &J) -> String {
    match j {
        J::Null => "null".into(),
        J::Bool(b) => b.to_string(),
        J::Num(l) => l.clone(),
        J::Str(s) => esc(s),
        J::Arr(v) => format!("[{}]", v.iter().map(to_text).collect::<Vec<_>>().join(",")),
        J::Obj(m) => format!("{{{}}}", m.iter().map(|(k, v)| format!("{}:{}", esc(k), to_text(v))).collect::<Vec<_>>().join(",")),
    }
}

/// reply form
pub fn reply_tokens(j: &J, out: &mut Vec<String>) {
    match j {
        J::Null => out.push("jn".into()),
        J::Bool(b) => out.push(if *b { "jb1".into() } else { "jb0".into() }),
        J::Num(l) => match int_of(l) {
            Some(i) => {
                out.push("ji".into());
                out.push(i.to_string());
            }
            None => {
                out.push("jf".into());
                out.push(format!("{:016x}", f64_of(l).to_bits()));
            }
        },
        J::Str(s) => {
            out.push("js".into());
            out.push(h(s));
        }
        J::Arr(v) => {
            out.push("ja".into());
            out.push(v.len().to_string());
            for x in v {
                reply_tokens(x, out);
            }
        }
        J::Obj(m) => {
            out.push("jo".into());
            out.push(m.len().to_string());
            for (k, x) in m {
                out.push(h(k));
                reply_tokens(x, out);
            }
        }
    }
}

/// request form
pub fn request_tokens(j: &J, out: &mut Vec<String>) {
    match j {
        J::Num(l) => {
            let x = f64_of(l);
            match int_of(l) {
                Some(i) => {
                    out.push("ji".into());
                    out.push(i.to_string());
                }
                None => {
                    out.push("jf".into());
                    out.push(h(l));
                }
            }
            out.push(format!("{:016x}", x.to_bits()));
            out.push(h(&format!("{x}")));
        }
        J::Arr(v) => {
            out.push("ja".into());
            out.push(v.len().to_string());
            for x in v {
                request_tokens(x, out);
            }
        }
        J::Obj(m) => {
            out.push("jo".into());
            out.push(m.len().to_string());
            for (k, x) in m {
                out.push(h(k));
                request_tokens(x, out);
            }
        }
        other => reply_tokens(other, out),
    }
}

pub fn show_reply(j: &J) -> String {
    let mut o = Vec::new();
    reply_tokens(j, &mut o);
    o.join(" ")
}
pub fn show_request(j: &J) -> String {
    let mut o = Vec::new();
    request_tokens(j, &mut o);
    o.join(" ")
}

#[allow(dead_code)]
pub fn unused(_: &str) -> Option<String> {
    unh("=")
}
