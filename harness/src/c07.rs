//! C07 — filter evaluation follows the Haystack filter semantics.
//!
//! A case is `MODE F n REC*n RES`:
//!   MODE  `d`: `Filtered::filter` on every record (Dict resolver, DEFAULT_NS), `Filtered::filter` and
//!              `ListFiltered::filter_all` on the grid of the records;
//!         `r`: `Eval::eval` with an `EvalContext` around the caller-supplied resolver `Recs` (follows
//!              Refs through the record list RES) and the namespace of tests/defs/defs.zinc;
//!   F     the filter as a tree in prefix tokens (own exchange syntax, parsed by both sides):
//!           OR ::= or k AND*k   AND ::= and k TERM*k   P ::= k H*k
//!           TERM ::= par OR | has P | miss P | isa H | weq P H | rel H HO HO | cmp OP P V
//!   REC   a record as VX dict `{ k (H V)*k`;  RES ::= same | k REC*k  (the resolver's records).
//! The real `Filter` is obtained by printing the tree as filter text and `Filter::try_from`; the parsed
//! tree must be the printed one (oracle `parse_tree`: 'and' binds tighter than 'or', parentheses group).
//! Correspondence: `C07 feval <case> <namespace answers>` → `ok e=<bits> s=<bits|?>[ f=.. a=..]`
//!   e = what the code answers per record (model: `evalImpl`), s = what the property demands per record
//!   (`?` where it leaves the answer open: an ordering comparison between Numbers of different units);
//!   on the implementation side `s` comes from the independent oracle below, on the model side from
//!   the Lean `evalSpec`, so the two specifications check each other as well.
//! Oracles on the real code: `eval_spec` (e vs s), `grid_all`, `grid_first`, `parse_tree`.

use crate::ctx::{CaseOut, Ctx};
use crate::gen::{self, Cfg};
use crate::rng::Rng;
use crate::vx;
use libhaystack::defs::namespace::{Namespace, DEFAULT_NS};
use libhaystack::filter::eval::{Eval, EvalContext};
use libhaystack::filter::nodes as fnode;
use libhaystack::filter::path::Path;
use libhaystack::filter::{Filter, Filtered, ListFiltered, PathResolver};
use libhaystack::val::*;
use std::cmp::Ordering;
use std::sync::OnceLock;

// ------------------------------------------------------------------------------------------------
// the harness' own filter tree
// ------------------------------------------------------------------------------------------------
#[derive(Clone, Copy, PartialEq, Eq, Debug)]
enum Op {
    Eq,
    Ne,
    Lt,
    Le,
    Gt,
    Ge,
}
const OPS: [Op; 6] = [Op::Eq, Op::Ne, Op::Lt, Op::Le, Op::Gt, Op::Ge];
impl Op {
    fn tok(self) -> &'static str {
        match self {
            Op::Eq => "eq",
            Op::Ne => "ne",
            Op::Lt => "lt",
            Op::Le => "le",
            Op::Gt => "gt",
            Op::Ge => "ge",
        }
    }
    fn text(self) -> &'static str {
        match self {
            Op::Eq => "==",
            Op::Ne => "!=",
            Op::Lt => "<",
            Op::Le => "<=",
            Op::Gt => ">",
            Op::Ge => ">=",
        }
    }
    fn is_order(self) -> bool {
        !matches!(self, Op::Eq | Op::Ne)
    }
}

type POr = Vec<PAnd>;
type PAnd = Vec<T>;
#[derive(Clone, Debug)]
enum T {
    Par(POr),
    Has(Vec<String>),
    Miss(Vec<String>),
    IsA(String),
    Weq(Vec<String>, String),
    Rel(String, Option<String>, Option<String>),
    Cmp(Op, Vec<String>, Value),
}

fn w_path(p: &[String], out: &mut Vec<String>) {
    out.push(p.len().to_string());
    for s in p {
        out.push(vx::h(s));
    }
}
fn w_or(o: &POr, out: &mut Vec<String>) {
    out.push("or".into());
    out.push(o.len().to_string());
    for a in o {
        out.push("and".into());
        out.push(a.len().to_string());
        for t in a {
            w_term(t, out);
        }
    }
}
fn w_term(t: &T, out: &mut Vec<String>) {
    match t {
        T::Par(o) => {
            out.push("par".into());
            w_or(o, out);
        }
        T::Has(p) => {
            out.push("has".into());
            w_path(p, out);
        }
        T::Miss(p) => {
            out.push("miss".into());
            w_path(p, out);
        }
        T::IsA(s) => {
            out.push("isa".into());
            out.push(vx::h(s));
        }
        T::Weq(p, r) => {
            out.push("weq".into());
            w_path(p, out);
            out.push(vx::h(r));
        }
        T::Rel(r, t, f) => {
            out.push("rel".into());
            out.push(vx::h(r));
            out.push(vx::ho(t));
            out.push(vx::ho(f));
        }
        T::Cmp(op, p, v) => {
            out.push("cmp".into());
            out.push(op.tok().into());
            w_path(p, out);
            vx::w_val(v, out);
        }
    }
}
fn show_or(o: &POr) -> String {
    let mut v = Vec::new();
    w_or(o, &mut v);
    v.join(" ")
}

fn r_path(rd: &mut vx::Rd) -> Option<Vec<String>> {
    let k: usize = rd.num()?;
    let mut p = Vec::new();
    for _ in 0..k {
        p.push(rd.hs()?);
    }
    Some(p)
}
fn r_or(rd: &mut vx::Rd) -> Option<POr> {
    if rd.tok()? != "or" {
        return None;
    }
    let k: usize = rd.num()?;
    let mut o = Vec::new();
    for _ in 0..k {
        if rd.tok()? != "and" {
            return None;
        }
        let m: usize = rd.num()?;
        let mut a = Vec::new();
        for _ in 0..m {
            a.push(r_term(rd)?);
        }
        o.push(a);
    }
    Some(o)
}
fn r_term(rd: &mut vx::Rd) -> Option<T> {
    Some(match rd.tok()? {
        "par" => T::Par(r_or(rd)?),
        "has" => T::Has(r_path(rd)?),
        "miss" => T::Miss(r_path(rd)?),
        "isa" => T::IsA(rd.hs()?),
        "weq" => {
            let p = r_path(rd)?;
            T::Weq(p, rd.hs()?)
        }
        "rel" => {
            let r = rd.hs()?;
            let t = rd.hos()?;
            let f = rd.hos()?;
            T::Rel(r, t, f)
        }
        "cmp" => {
            let op = match rd.tok()? {
                "eq" => Op::Eq,
                "ne" => Op::Ne,
                "lt" => Op::Lt,
                "le" => Op::Le,
                "gt" => Op::Gt,
                "ge" => Op::Ge,
                _ => return None,
            };
            let p = r_path(rd)?;
            T::Cmp(op, p, rd.val()?)
        }
        _ => return None,
    })
}

// ---- filter text (own printer; literals restricted to what it can spell) ------------------------
fn lit_text(v: &Value) -> Option<String> {
    Some(match v {
        Value::Bool(b) => (if b.value { "true" } else { "false" }).to_string(),
        Value::Number(n) => {
            if !n.value.is_finite() {
                return None;
            }
            let mut s = format!("{}", n.value);
            if let Some(u) = n.unit {
                s.push_str(u.symbol());
            }
            s
        }
        Value::Str(s) => {
            if !s.value.chars().all(|c| c.is_ascii_alphanumeric() || c == ' ' || c == '_' || c == '-') {
                return None;
            }
            format!("\"{}\"", s.value)
        }
        Value::Uri(s) => {
            if !s.value.chars().all(|c| c.is_ascii_alphanumeric() || c == '/' || c == '.' || c == ':') {
                return None;
            }
            format!("`{}`", s.value)
        }
        Value::Ref(r) => {
            if r.dis.is_some() || r.value.is_empty() || !r.value.chars().all(|c| c.is_ascii_alphanumeric() || c == '_') {
                return None;
            }
            format!("@{}", r.value)
        }
        Value::Symbol(s) => {
            if s.value.is_empty() || !s.value.chars().all(|c| c.is_ascii_alphanumeric()) || !s.value.starts_with(|c: char| c.is_ascii_lowercase()) {
                return None;
            }
            format!("^{}", s.value)
        }
        Value::Date(d) => format!("{:?}", **d),
        Value::Time(t) => format!("{:?}", **t),
        Value::DateTime(dt) => {
            let name = dt.timezone_short_name();
            format!("{} {}", dt.to_rfc3339_opts(chrono::SecondsFormat::AutoSi, true), name)
        }
        _ => return None,
    })
}
fn path_text(p: &[String]) -> String {
    p.join("->")
}
fn or_text(o: &POr) -> Option<String> {
    let mut ands = Vec::new();
    for a in o {
        let mut ts = Vec::new();
        for t in a {
            ts.push(term_text(t)?);
        }
        ands.push(ts.join(" and "));
    }
    Some(ands.join(" or "))
}
fn term_text(t: &T) -> Option<String> {
    Some(match t {
        T::Par(o) => format!("({})", or_text(o)?),
        T::Has(p) => path_text(p),
        T::Miss(p) => format!("not {}", path_text(p)),
        T::IsA(s) => format!("^{s}"),
        T::Weq(p, r) => format!("{} *== @{}", path_text(p), r),
        T::Rel(r, t, f) => {
            let mut s = format!("{r}?");
            if let Some(t) = t {
                s.push_str(&format!(" ^{t}"));
            }
            if let Some(f) = f {
                s.push_str(&format!(" @{f}"));
            }
            s
        }
        T::Cmp(op, p, v) => format!("{} {} {}", path_text(p), op.text(), lit_text(v)?),
    })
}

/// P1 (a multi-segment path swallows a following `and`/`or`, property C08): a bare multi-segment
/// `tag` / `not tag` term is kept only where the next token is `)` or the end of the text, i.e. as the
/// last term of the last And of its Or; elsewhere it is wrapped in parentheses.
fn avoid_p1(o: &mut POr) {
    let n_and = o.len();
    for (i, a) in o.iter_mut().enumerate() {
        let n_t = a.len();
        for (j, t) in a.iter_mut().enumerate() {
            let tail = i + 1 == n_and && j + 1 == n_t;
            match t {
                T::Par(inner) => avoid_p1(inner),
                T::Has(p) | T::Miss(p) if p.len() > 1 && !tail => {
                    let inner = t.clone();
                    *t = T::Par(vec![vec![inner]]);
                }
                _ => {}
            }
        }
    }
}

// ---- the parsed `Filter` back into the harness tree ---------------------------------------------
fn path_of(p: &Path) -> Vec<String> {
    p.iter().map(|id| id.to_string()).collect()
}
fn from_or(o: &fnode::Or) -> POr {
    o.ands.iter().map(|a| a.terms.iter().map(from_term).collect()).collect()
}
fn from_term(t: &fnode::Term) -> T {
    match t {
        fnode::Term::Parens(p) => T::Par(from_or(&p.or)),
        fnode::Term::Has(h) => T::Has(path_of(&h.path)),
        fnode::Term::Missing(m) => T::Miss(path_of(&m.path)),
        fnode::Term::IsA(i) => T::IsA(i.symbol.value.clone()),
        fnode::Term::WildcardEq(w) => T::Weq(path_of(&w.id), w.ref_value.value.clone()),
        fnode::Term::Relation(r) => T::Rel(
            r.rel.value.clone(),
            r.rel_term.as_ref().map(|s| s.value.clone()),
            r.ref_value.as_ref().map(|s| s.value.clone()),
        ),
        fnode::Term::Cmp(c) => T::Cmp(
            match c.op {
                fnode::CmpOp::Eq => Op::Eq,
                fnode::CmpOp::NotEq => Op::Ne,
                fnode::CmpOp::LessThan => Op::Lt,
                fnode::CmpOp::LessThanEq => Op::Le,
                fnode::CmpOp::GreatThan => Op::Gt,
                fnode::CmpOp::GreatThanEq => Op::Ge,
            },
            path_of(&c.path),
            c.value.clone(),
        ),
    }
}

// ------------------------------------------------------------------------------------------------
// the caller-supplied resolver (model: `Hs.recsResolver`)
// ------------------------------------------------------------------------------------------------
struct Recs {
    recs: Vec<Dict>,
}
impl PathResolver for Recs {
    fn resolve_for(&self, root: &Dict, path: &Path) -> Value {
        if path.is_empty() || root.is_empty() {
            return Value::Null;
        }
        let mut cur = Value::Dict(root.clone());
        for seg in path.iter() {
            let key = seg.to_string();
            cur = match &cur {
                Value::Dict(d) => d.get(&key).cloned().unwrap_or(Value::Null),
                Value::Ref(r) => match self.resolve_ref(r) {
                    Some(d) => d.get(&key).cloned().unwrap_or(Value::Null),
                    None => Value::Null,
                },
                _ => Value::Null,
            };
            if cur.is_null() {
                break;
            }
        }
        cur
    }
    fn resolve(&self, _path: &Path) -> Value {
        Value::Null
    }
    fn resolve_ref(&self, reference: &Ref) -> Option<Dict> {
        self.recs.iter().find(|r| r.get_ref("id") == Some(reference)).cloned()
    }
}

fn defs_ns() -> &'static Namespace<'static> {
    static NS: OnceLock<&'static Namespace<'static>> = OnceLock::new();
    NS.get_or_init(|| {
        let ns = std::fs::read_to_string("/repo/tests/defs/defs.zinc")
            .ok()
            .and_then(|s| libhaystack::encoding::zinc::decode::from_str(&s).ok())
            .and_then(|v| Grid::try_from(&v).ok())
            .map(Namespace::make)
            .unwrap_or_default();
        Box::leak(Box::new(ns))
    })
}

// ------------------------------------------------------------------------------------------------
// independent oracle: the property text, on the harness tree
// ------------------------------------------------------------------------------------------------
fn deref<'a>(recs: &'a [Dict], id: &str) -> Option<&'a Dict> {
    recs.iter().find(|r| matches!(r.get("id"), Some(Value::Ref(x)) if x.value == id))
}
/// 'a->b' looks b up in the dict (or resolver-supplied record) that a resolves to; `None`: the path
/// does not resolve to a value
fn lookup(recs: &[Dict], rec: &Dict, path: &[String]) -> Option<Value> {
    let (first, rest) = path.split_first()?;
    let v = rec.get(first)?;
    if rest.is_empty() {
        return if matches!(v, Value::Null) { None } else { Some(v.clone()) };
    }
    match v {
        Value::Dict(d) => lookup(recs, d, rest),
        Value::Ref(r) => lookup(recs, deref(recs, &r.value)?, rest),
        _ => None,
    }
}
fn unit_sym(n: &Number) -> Option<&str> {
    n.unit.map(|u| u.symbol())
}
/// order of two values of the same kind (literal kinds of the filter language); `None`: different
/// kinds, or unordered
fn ord_same(v: &Value, lit: &Value) -> Option<Ordering> {
    match (v, lit) {
        (Value::Bool(a), Value::Bool(b)) => Some(a.value.cmp(&b.value)),
        (Value::Number(a), Value::Number(b)) => {
            if unit_sym(a) == unit_sym(b) {
                a.value.partial_cmp(&b.value)
            } else {
                None // left open by the property; such pairs are masked by `mixed`
            }
        }
        (Value::Str(a), Value::Str(b)) => Some(a.value.as_str().cmp(b.value.as_str())),
        (Value::Uri(a), Value::Uri(b)) => Some(a.value.as_str().cmp(b.value.as_str())),
        (Value::Symbol(a), Value::Symbol(b)) => Some(a.value.as_str().cmp(b.value.as_str())),
        (Value::Ref(a), Value::Ref(b)) => Some(a.value.as_str().cmp(b.value.as_str())),
        (Value::Date(a), Value::Date(b)) => Some((**a).cmp(&**b)),
        (Value::Time(a), Value::Time(b)) => Some((**a).cmp(&**b)),
        (Value::DateTime(a), Value::DateTime(b)) => Some(
            (a.timestamp(), a.timestamp_subsec_nanos()).cmp(&(b.timestamp(), b.timestamp_subsec_nanos())),
        ),
        _ => None,
    }
}
fn equal(v: &Value, lit: &Value) -> bool {
    match (v, lit) {
        (Value::Bool(a), Value::Bool(b)) => a.value == b.value,
        (Value::Number(a), Value::Number(b)) => a.value == b.value && unit_sym(a) == unit_sym(b),
        (Value::Str(a), Value::Str(b)) => a.value == b.value,
        (Value::Uri(a), Value::Uri(b)) => a.value == b.value,
        (Value::Symbol(a), Value::Symbol(b)) => a.value == b.value,
        (Value::Ref(a), Value::Ref(b)) => a.value == b.value,
        (Value::Date(_), Value::Date(_)) | (Value::Time(_), Value::Time(_)) | (Value::DateTime(_), Value::DateTime(_)) => {
            ord_same(v, lit) == Some(Ordering::Equal)
        }
        _ => std::mem::discriminant(v) == std::mem::discriminant(lit) && v == lit,
    }
}
/// the value stands in the stated relation to the literal
fn stands(op: Op, v: &Value, lit: &Value) -> bool {
    match op {
        Op::Eq => equal(v, lit),
        Op::Ne => !equal(v, lit),
        Op::Lt => ord_same(v, lit) == Some(Ordering::Less),
        Op::Le => matches!(ord_same(v, lit), Some(Ordering::Less | Ordering::Equal)),
        Op::Gt => ord_same(v, lit) == Some(Ordering::Greater),
        Op::Ge => matches!(ord_same(v, lit), Some(Ordering::Greater | Ordering::Equal)),
    }
}
/// … or, when it is a list, some element does (Null is no value)
fn holds(op: Op, v: &Value, lit: &Value) -> bool {
    match v {
        Value::Null => false,
        Value::List(l) => l.iter().any(|e| holds(op, e, lit)),
        _ => stands(op, v, lit),
    }
}
/// would deciding `v op lit` have to order two Numbers with different units
fn mixed_in(v: &Value, lit: &Number) -> bool {
    match v {
        Value::Number(a) => unit_sym(a) != unit_sym(lit),
        Value::List(l) => l.iter().any(|e| mixed_in(e, lit)),
        _ => false,
    }
}
struct Env<'a> {
    recs: &'a [Dict],
    idx: usize,
    fits: &'a [(String, Vec<bool>)],
    rels: &'a [((String, Option<String>, Option<String>), Vec<bool>)],
}
fn spec_mixed(env: &Env, rec: &Dict, o: &POr) -> bool {
    o.iter().any(|a| {
        a.iter().any(|t| match t {
            T::Par(i) => spec_mixed(env, rec, i),
            T::Cmp(op, p, Value::Number(n)) if op.is_order() => lookup(env.recs, rec, p).map_or(false, |v| mixed_in(&v, n)),
            _ => false,
        })
    })
}
fn spec_or(env: &Env, rec: &Dict, o: &POr) -> bool {
    o.iter().any(|a| a.iter().all(|t| spec_term(env, rec, t)))
}
fn spec_term(env: &Env, rec: &Dict, t: &T) -> bool {
    match t {
        T::Par(o) => spec_or(env, rec, o),
        T::Has(p) => lookup(env.recs, rec, p).is_some(),
        T::Miss(p) => lookup(env.recs, rec, p).is_none(),
        T::IsA(s) => env.fits.iter().find(|e| &e.0 == s).map_or(false, |e| e.1[env.idx]),
        T::Rel(r, tm, f) => env.rels.iter().find(|e| &e.0 .0 == r && &e.0 .1 == tm && &e.0 .2 == f).map_or(false, |e| e.1[env.idx]),
        T::Weq(p, target) => {
            // the Ref chain starting at the path's value reaches the target
            let mut cur: Dict = rec.clone();
            for _ in 0..env.recs.len() + 2 {
                match lookup(env.recs, &cur, p) {
                    Some(Value::Ref(r)) => {
                        if &r.value == target {
                            return true;
                        }
                        match deref(env.recs, &r.value) {
                            Some(d) => cur = d.clone(),
                            None => return false,
                        }
                    }
                    _ => return false,
                }
            }
            false
        }
        T::Cmp(op, p, lit) => match lookup(env.recs, rec, p) {
            None => false,
            Some(v) => holds(*op, &v, lit),
        },
    }
}

fn collect_ns(o: &POr, isa: &mut Vec<String>, rel: &mut Vec<(String, Option<String>, Option<String>)>) {
    for a in o {
        for t in a {
            match t {
                T::Par(i) => collect_ns(i, isa, rel),
                T::IsA(s) => {
                    if !isa.contains(s) {
                        isa.push(s.clone())
                    }
                }
                T::Rel(r, tm, f) => {
                    let k = (r.clone(), tm.clone(), f.clone());
                    if !rel.contains(&k) {
                        rel.push(k)
                    }
                }
                _ => {}
            }
        }
    }
}
fn term_stats(o: &POr, out: &mut CaseOut, depth: usize) {
    for a in o {
        for t in a {
            match t {
                T::Par(i) => {
                    out.stat("term:parens");
                    term_stats(i, out, depth + 1)
                }
                T::Has(p) => out.stat(&format!("term:has/{}", p.len())),
                T::Miss(p) => out.stat(&format!("term:missing/{}", p.len())),
                T::IsA(_) => out.stat("term:isA"),
                T::Weq(..) => out.stat("term:wildcardEq"),
                T::Rel(..) => out.stat("term:relation"),
                T::Cmp(op, p, _) => {
                    out.stat(&format!("term:cmp/{}", op.tok()));
                    out.stat(&format!("path_len:{}", p.len()));
                }
            }
        }
    }
    if depth == 0 {
        out.stat(&format!("ands:{}", o.len().min(5)));
    }
}
/// per record: which kinds of term hold / do not hold (distribution in the evidence)
fn truth_stats(env: &Env, rec: &Dict, o: &POr, out: &mut CaseOut) {
    for a in o {
        for t in a {
            let kind = match t {
                T::Par(i) => {
                    truth_stats(env, rec, i, out);
                    continue;
                }
                T::Has(_) => "has",
                T::Miss(_) => "missing",
                T::IsA(_) => "isA",
                T::Weq(..) => "wildcardEq",
                T::Rel(..) => "relation",
                T::Cmp(op, p, lit) => {
                    // the class of the resolved value relative to the literal
                    let class = match lookup(env.recs, rec, p) {
                        None => "unresolved",
                        Some(Value::List(_)) => "list",
                        Some(v) if std::mem::discriminant(&v) == std::mem::discriminant(lit) => "same_kind",
                        Some(_) => "other_kind",
                    };
                    out.stat(&format!("cmp_value:{}/{}", if op.is_order() { "order" } else { "equality" }, class));
                    "cmp"
                }
            };
            out.stat(&format!("truth:{kind}={}", spec_term(env, rec, t)));
        }
    }
}
fn count_terms(o: &POr) -> usize {
    o.iter().map(|a| a.iter().map(|t| if let T::Par(i) = t { count_terms(i) } else { 1 }).sum::<usize>()).sum()
}

fn bits(b: &[bool]) -> String {
    b.iter().map(|x| if *x { '1' } else { '0' }).collect()
}

/// Filters that differ only INSIDE a literal (runs of blanks, tabs, case, a trailing blank), parsed from text one after
/// the other in one process and evaluated: each selects by ITS literal (whatever is kept between two parses - a cache
/// keyed by normalised text - must not hand the second one the first one's tree)
fn exec_lookalike(out: &mut CaseOut) {
    out.nontrivial = true;
    out.stat("lookalike");
    let lits = ["AHU 1", "AHU  1", "AHU\t1", "AHU 1 ", " AHU 1", "ahu 1", "AHU   1", "AHU1"];
    let recs: Vec<Dict> = lits
        .iter()
        .map(|l| {
            let mut d = Dict::new();
            d.insert("dis".into(), Value::make_str(l));
            d.insert("u".into(), Value::make_uri(&l.replace('\t', " ")));
            d
        })
        .collect();
    for round in 0..2 {
        for (i, l) in lits.iter().enumerate() {
            let esc = l.replace('\t', "\\t");
            for (text, tag) in [(format!("dis == \"{esc}\""), "dis"), (format!("dis   ==   \"{esc}\""), "dis"), (format!("u == `{}`", l.replace('\t', " ")), "u")] {
                let filter = match Filter::try_from(text.as_str()) {
                    Ok(f) => f,
                    Err(e) => return out.fail("harness", format!("filter {text}: {e}")),
                };
                for (j, r) in recs.iter().enumerate() {
                    let want = if tag == "dis" { i == j } else { lits[j].replace('\t', " ") == l.replace('\t', " ") };
                    let got = r.filter(&filter);
                    if got != want {
                        out.fail("eval_spec", format!("round {round}: `{text}` on {{{tag}: {:?}}} is {got}, the literal {} the tag's value", lits[j], if want { "equals" } else { "differs from" }));
                    }
                }
            }
        }
    }
}

/// a term inside 1 .. 64 pairs of parentheses (every depth the parser accepts) evaluates like the bare term, on records
/// and on grids
fn exec_deepgroups(out: &mut CaseOut) {
    out.nontrivial = true;
    out.stat("deepgroups");
    let mut yes = Dict::new();
    yes.insert("site".into(), Value::Marker);
    yes.insert("n".into(), Value::make_int(5));
    let mut no = Dict::new();
    no.insert("equip".into(), Value::Marker);
    let grid = Grid::make_from_dicts(vec![no.clone(), yes.clone(), no.clone(), yes.clone()]);
    for depth in 1usize..=70 {
        for inner in ["site", "not site", "n == 5 and site", "site or equip"] {
            let text = format!("{}{inner}{}", "(".repeat(depth), ")".repeat(depth));
            let (deep, bare) = match (Filter::try_from(text.as_str()), Filter::try_from(inner)) {
                (Ok(d), Ok(b)) => (d, b),
                (Err(_), _) => continue, // deeper than the parser accepts
                (_, Err(e)) => return out.fail("harness", format!("filter {inner}: {e}")),
            };
            for r in [&yes, &no] {
                if r.filter(&deep) != r.filter(&bare) {
                    out.fail("eval_spec", format!("`{inner}` inside {depth} pairs of parentheses is {} on {r:?}, the bare term is {}", r.filter(&deep), r.filter(&bare)));
                }
            }
            if grid.filter_all(&deep).len() != grid.filter_all(&bare).len() {
                out.fail("grid_all", format!("`{inner}` inside {depth} pairs of parentheses selects {} rows, the bare term {}", grid.filter_all(&deep).len(), grid.filter_all(&bare).len()));
            }
        }
    }
}

pub fn exec(_label: &str, input: &str, out: &mut CaseOut) {
    if input == "lookalike" {
        return exec_lookalike(out);
    }
    if input == "deepgroups" {
        return exec_deepgroups(out);
    }
    if let Some(n) = input.strip_prefix("biggrid ") {
        return exec_biggrid(n.parse().unwrap_or(1027), out);
    }
    let mut rd = vx::Rd::new(input);
    let parsed = (|| {
        let mode = rd.tok()?.to_string();
        let f = r_or(&mut rd)?;
        let n: usize = rd.num()?;
        let mut recs = Vec::new();
        for _ in 0..n {
            recs.push(rd.dict()?);
        }
        let res = if rd.peek()? == "same" {
            rd.tok();
            None
        } else {
            let k: usize = rd.num()?;
            let mut v = Vec::new();
            for _ in 0..k {
                v.push(rd.dict()?);
            }
            Some(v)
        };
        Some((mode, f, recs, res))
    })();
    let (mode, tree, mut recs, res) = match parsed {
        Some(x) if x.0 == "d" || x.0 == "r" => x,
        _ => {
            out.fail("harness", "unparsable C07 input".into());
            return;
        }
    };
    let is_dict = mode == "d";
    if is_dict {
        // grid rows are identified by their text: keep the first of equal records
        let mut seen = std::collections::HashSet::new();
        recs.retain(|r| seen.insert(vx::show(&Value::Dict(r.clone()))));
    }
    // ---- the real Filter, through the parser --------------------------------------------------
    let text = match or_text(&tree) {
        Some(t) => t,
        None => {
            out.fail("harness", "filter not spellable".into());
            return;
        }
    };
    let filter = match Filter::try_from(text.as_str()) {
        Ok(f) => f,
        Err(_) => {
            out.fail("parse_tree", format!("`{text}` does not parse"));
            return;
        }
    };
    let back = from_or(&filter.or);
    if show_or(&back) != show_or(&tree) {
        out.fail("parse_tree", format!("`{text}` parses to another tree: `{filter}`"));
        return;
    }
    out.nontrivial = !recs.is_empty();
    out.stat(if is_dict { "mode:dict+grid" } else { "mode:resolver" });
    term_stats(&tree, out, 0);
    out.stat(&format!("terms:{}", count_terms(&tree).min(8)));

    // ---- run the implementation ------------------------------------------------------------------
    let res_recs: Vec<Dict> = if is_dict { Vec::new() } else { res.clone().unwrap_or_else(|| recs.clone()) };
    let resolver = Recs { recs: res_recs.clone() };
    let ns: &Namespace = if is_dict { &DEFAULT_NS } else { defs_ns() };
    let mut isa = Vec::new();
    let mut rel = Vec::new();
    collect_ns(&tree, &mut isa, &mut rel);
    // the namespace's own answers (C13 covers them); both the model and the oracle take them as given
    let fits_t: Vec<(String, Vec<bool>)> = isa
        .iter()
        .map(|s| (s.clone(), recs.iter().map(|r| ns.reflect(r).fits(&Symbol::from(s.as_str()))).collect()))
        .collect();
    let rel_t: Vec<((String, Option<String>, Option<String>), Vec<bool>)> = rel
        .iter()
        .map(|k| {
            let ans = recs
                .iter()
                .map(|r| {
                    let resolve = |id: &Ref| if is_dict { None } else { resolver.resolve_ref(id) };
                    ns.has_relationship(
                        r,
                        &Symbol::from(k.0.as_str()),
                        &k.1.as_ref().map(|s| Symbol::from(s.as_str())),
                        &k.2.as_ref().map(|s| Ref::from(s.as_str())),
                        &resolve,
                    )
                })
                .collect();
            (k.clone(), ans)
        })
        .collect();

    let e: Vec<bool> = recs
        .iter()
        .map(|r| {
            if is_dict {
                r.filter(&filter)
            } else {
                let cx = EvalContext::make(r, ns, &resolver);
                filter.eval(&cx)
            }
        })
        .collect();

    // ---- the oracle --------------------------------------------------------------------------------
    let mut s = String::new();
    let mut any_open = false;
    for (i, r) in recs.iter().enumerate() {
        let env = Env { recs: &res_recs, idx: i, fits: &fits_t, rels: &rel_t };
        if spec_mixed(&env, r, &tree) {
            s.push('?');
            any_open = true;
            out.stat("pair:left_open(mixed units)");
            continue;
        }
        let want = spec_or(&env, r, &tree);
        truth_stats(&env, r, &tree, out);
        s.push(if want { '1' } else { '0' });
        out.stat(if want { "pair:holds" } else { "pair:does_not_hold" });
        if want != e[i] {
            out.fail(
                "eval_spec",
                format!(
                    "`{text}` on record #{i} {}: the code answers {}, the property demands {}",
                    libhaystack::encoding::zinc::encode::to_zinc_string(&Value::Dict(r.clone())).unwrap_or_default(),
                    e[i],
                    want
                ),
            );
        }
    }
    let mut reply = format!("ok e={} s={}", bits(&e), s);

    if is_dict {
        let grid = Grid::make_from_dicts(recs.clone());
        let index_of = |d: &Dict| grid.rows.iter().position(|r| std::ptr::eq(r, d));
        let first = grid.filter(&filter).map(|d| index_of(d));
        let all: Vec<Option<usize>> = grid.filter_all(&filter).into_iter().map(|d| index_of(d)).collect();
        let show_idx = |i: &Option<usize>| i.map_or("?".to_string(), |i| i.to_string());
        reply.push_str(&format!(
            " f={} a={}",
            match &first {
                None => "-".to_string(),
                Some(i) => show_idx(i),
            },
            if all.is_empty() { "-".to_string() } else { all.iter().map(show_idx).collect::<Vec<_>>().join(",") }
        ));
        if grid.rows.len() != recs.len() || grid.rows.iter().zip(recs.iter()).any(|(a, b)| vx::show(&Value::Dict(a.clone())) != vx::show(&Value::Dict(b.clone()))) {
            out.fail("harness", "Grid::make_from_dicts changed the rows".into());
        }
        if !any_open {
            let want_all: Vec<Option<usize>> = s.chars().enumerate().filter(|(_, c)| *c == '1').map(|(i, _)| Some(i)).collect();
            if all != want_all {
                out.fail("grid_all", format!("`{text}`: filter_all returned rows {all:?}, the rows for which the filter holds are {want_all:?}"));
            }
            let want_first = want_all.first().cloned();
            if first != want_first {
                out.fail("grid_first", format!("`{text}`: Grid::filter returned row {first:?}, the first matching row is {want_first:?}"));
            }
        }
    }

    // ---- correspondence request -----------------------------------------------------------------
    let mut rq: Vec<String> = vec!["C07".into(), "feval".into(), mode.clone()];
    w_or(&tree, &mut rq);
    rq.push(recs.len().to_string());
    for r in &recs {
        vx::w_dict(r, &mut rq);
    }
    match &res {
        None => rq.push("same".into()),
        Some(v) => {
            rq.push(v.len().to_string());
            for r in v {
                vx::w_dict(r, &mut rq);
            }
        }
    }
    rq.push(fits_t.len().to_string());
    for (sname, b) in &fits_t {
        rq.push(vx::h(sname));
        rq.push(if b.is_empty() { "-".into() } else { bits(b) });
    }
    rq.push(rel_t.len().to_string());
    for (k, b) in &rel_t {
        rq.push(vx::h(&k.0));
        rq.push(vx::ho(&k.1));
        rq.push(vx::ho(&k.2));
        rq.push(if b.is_empty() { "-".into() } else { bits(b) });
    }
    out.req(rq.join(" "), reply);
}

// ------------------------------------------------------------------------------------------------
// generation
// ------------------------------------------------------------------------------------------------
fn num(v: f64, unit: Option<&str>) -> Value {
    Value::Number(Number { value: v, unit: unit.and_then(libhaystack::units::get_unit) })
}
fn date(y: i32, m: u32, d: u32) -> Value {
    Value::Date(Date::from(chrono::NaiveDate::from_ymd_opt(y, m, d).unwrap()))
}
fn time(h: u32, m: u32, s: u32) -> Value {
    Value::Time(Time::from(chrono::NaiveTime::from_hms_opt(h, m, s).unwrap()))
}
fn datetime(secs: i64, tz: chrono_tz::Tz) -> Value {
    use chrono::TimeZone;
    Value::DateTime(DateTime::from(tz.timestamp_opt(secs, 0).single().unwrap()))
}
fn rf(id: &str) -> Value {
    Value::Ref(Ref { value: id.into(), dis: None })
}
fn list(v: Vec<Value>) -> Value {
    Value::List(v)
}
fn dict_of(kvs: Vec<(&str, Value)>) -> Dict {
    let mut d = Dict::new();
    for (k, v) in kvs {
        d.insert(k.to_string(), v);
    }
    d
}
fn p(segs: &[&str]) -> Vec<String> {
    segs.iter().map(|s| s.to_string()).collect()
}

/// the 12 literals of the small universe
fn uni_literals() -> Vec<Value> {
    vec![
        num(5.0, None),
        num(3.0, None),
        num(5.0, Some("m")),
        num(-1.5, None),
        Value::make_str("x"),
        Value::make_str("5"),
        Value::make_true(),
        rf("p"),
        date(2021, 1, 1),
        time(12, 30, 0),
        Value::make_symbol("x"),
        Value::make_uri("u"),
    ]
}
/// the shapes a tag takes in the small universe; `None` = tag missing
fn uni_shapes() -> Vec<Option<Value>> {
    vec![
        None,
        Some(Value::Null),
        Some(num(5.0, None)),
        Some(num(3.0, None)),
        Some(num(7.0, None)),
        Some(num(5.0, Some("m"))),
        Some(num(3.0, Some("s"))),
        Some(num(-1.5, None)),
        Some(num(f64::NAN, None)),
        Some(Value::make_str("x")),
        Some(Value::make_str("5")),
        Some(Value::make_str("y")),
        Some(Value::make_true()),
        Some(Value::make_false()),
        Some(Value::Marker),
        Some(Value::Na),
        Some(Value::Remove),
        Some(rf("p")),
        Some(Value::Ref(Ref { value: "p".into(), dis: Some("P".into()) })),
        Some(rf("q")),
        Some(date(2021, 1, 1)),
        Some(date(2020, 12, 31)),
        Some(time(12, 30, 0)),
        Some(time(23, 59, 59)),
        Some(datetime(1_600_000_000, chrono_tz::UTC)),
        Some(Value::make_symbol("x")),
        Some(Value::make_uri("u")),
        Some(Value::Coord(Coord { lat: 1.0, long: 2.0 })),
        Some(Value::XStr(XStr { r#type: "T".into(), value: "x".into() })),
        Some(list(vec![num(3.0, None), num(7.0, None)])),
        Some(list(vec![Value::make_str("x"), num(5.0, Some("m"))])),
        Some(list(vec![])),
        Some(list(vec![Value::Null, num(5.0, None)])),
        Some(list(vec![Value::Null])),
        Some(list(vec![list(vec![num(5.0, None)]), Value::make_str("x")])),
        Some(Value::Dict(dict_of(vec![("a", num(5.0, None))]))),
    ]
}
/// the 6 paths of the small universe (tag names a b d r)
fn uni_paths() -> Vec<Vec<String>> {
    vec![p(&["a"]), p(&["b"]), p(&["d", "a"]), p(&["d", "d", "a"]), p(&["r", "a"]), p(&["r", "r", "d", "a"])]
}
/// records of the small universe: every shape as `a`; `b`, `d->a`, `d->d->a` run through the shapes
/// with other strides; `r` points to the next record (last two: a dangling Ref and a two-cycle)
fn uni_records() -> Vec<Dict> {
    let shapes = uni_shapes();
    let n = shapes.len();
    let id = |i: usize| match i {
        0 => "p".to_string(),
        1 => "q".to_string(),
        i => format!("r{i}"),
    };
    let mut recs = Vec::new();
    for i in 0..n {
        let mut d = Dict::new();
        d.insert("id".into(), rf(&id(i)));
        if let Some(v) = &shapes[i] {
            d.insert("a".into(), v.clone());
        }
        if let Some(v) = &shapes[(i * 7 + 3) % n] {
            d.insert("b".into(), v.clone());
        }
        let mut inner2 = Dict::new();
        if let Some(v) = &shapes[(i + 17) % n] {
            inner2.insert("a".into(), v.clone());
        }
        let mut inner = Dict::new();
        if let Some(v) = &shapes[(i + 11) % n] {
            inner.insert("a".into(), v.clone());
        }
        if i % 5 != 4 {
            inner.insert("d".into(), Value::Dict(inner2));
        }
        if i % 6 != 5 {
            d.insert("d".into(), Value::Dict(inner));
        }
        let r = if i == n - 1 {
            rf("nowhere")
        } else if i == 1 {
            rf("p") // p -> q -> p
        } else {
            rf(&id(i + 1))
        };
        if i % 9 != 8 {
            d.insert("r".into(), r);
        }
        recs.push(d);
    }
    recs
}

fn case_input(mode: &str, f: &POr, recs: &[Dict], res: Option<&[Dict]>) -> String {
    let mut v: Vec<String> = vec![mode.to_string()];
    w_or(f, &mut v);
    v.push(recs.len().to_string());
    for r in recs {
        vx::w_dict(r, &mut v);
    }
    match res {
        None => v.push("same".into()),
        Some(rs) => {
            v.push(rs.len().to_string());
            for r in rs {
                vx::w_dict(r, &mut v);
            }
        }
    }
    v.join(" ")
}

/// every single-term filter of the small universe
fn uni_terms() -> Vec<T> {
    let mut ts = Vec::new();
    for path in uni_paths() {
        ts.push(T::Has(path.clone()));
        ts.push(T::Miss(path.clone()));
        for op in OPS {
            for lit in uni_literals() {
                ts.push(T::Cmp(op, path.clone(), lit));
            }
        }
    }
    for path in [p(&["r"]), p(&["a"]), p(&["d", "a"]), p(&["r", "r"])] {
        for target in ["p", "q", "r5", "nowhere", "zz"] {
            ts.push(T::Weq(path.clone(), target.to_string()));
        }
    }
    ts
}

/// all Or/And/Parens shapes with `n` leaves (leaf = index into the leaf sequence); parentheses around
/// at least two leaves, or around a single leaf when the whole filter has at most two
fn shapes(n: usize) -> Vec<POrShape> {
    // `single`: may the Or consist of one And with one term (false directly inside parentheses)
    fn ors(lo: usize, hi: usize, total: usize, single: bool) -> Vec<POrShape> {
        let mut res = Vec::new();
        for first_end in lo + 1..=hi {
            for a in ands(lo, first_end, total, single || first_end < hi) {
                if first_end == hi {
                    res.push(vec![a.clone()]);
                } else {
                    for rest in ors(first_end, hi, total, true) {
                        let mut o = vec![a.clone()];
                        o.extend(rest);
                        res.push(o);
                    }
                }
            }
        }
        res
    }
    fn ands(lo: usize, hi: usize, total: usize, single: bool) -> Vec<Vec<TermShape>> {
        let mut res = Vec::new();
        for first_end in lo + 1..=hi {
            if first_end == hi && !single {
                continue;
            }
            for t in terms(lo, first_end, total) {
                if first_end == hi {
                    res.push(vec![t.clone()]);
                } else {
                    for rest in ands(first_end, hi, total, true) {
                        let mut a = vec![t.clone()];
                        a.extend(rest);
                        res.push(a);
                    }
                }
            }
        }
        res
    }
    fn terms(lo: usize, hi: usize, total: usize) -> Vec<TermShape> {
        let mut res = Vec::new();
        if hi - lo == 1 {
            res.push(TermShape::Leaf(lo));
            if total <= 2 {
                res.push(TermShape::Par(vec![vec![TermShape::Leaf(lo)]]));
            }
        } else {
            for o in ors(lo, hi, total, false) {
                res.push(TermShape::Par(o));
            }
        }
        res
    }
    ors(0, n, n, true)
}
#[derive(Clone, Debug)]
enum TermShape {
    Leaf(usize),
    Par(POrShape),
}
type POrShape = Vec<Vec<TermShape>>;
fn fill(s: &POrShape, leaves: &[T]) -> POr {
    s.iter()
        .map(|a| {
            a.iter()
                .map(|t| match t {
                    TermShape::Leaf(i) => leaves[*i].clone(),
                    TermShape::Par(o) => T::Par(fill(o, leaves)),
                })
                .collect()
        })
        .collect()
}

/// the leaf alphabet of the exhaustive multi-term enumeration
fn enum_alphabet(k: usize) -> Vec<T> {
    let all = vec![
        T::Has(p(&["a"])),
        T::Cmp(Op::Lt, p(&["a"]), num(5.0, None)),
        T::Miss(p(&["b"])),
        T::Cmp(Op::Ne, p(&["b"]), Value::make_str("x")),
        T::Cmp(Op::Eq, p(&["d", "a"]), num(5.0, None)),
        T::Cmp(Op::Ge, p(&["a"]), num(5.0, None)),
        T::Cmp(Op::Eq, p(&["a"]), Value::make_str("x")),
        T::Has(p(&["d", "a"])),
        T::Cmp(Op::Gt, p(&["b"]), num(3.0, None)),
        T::Miss(p(&["a"])),
    ];
    all.into_iter().take(k).collect()
}
/// records of the multi-term enumeration: a, b, d->a take missing / Null / same kind / other kind / list
fn enum_records() -> Vec<Dict> {
    vec![
        dict_of(vec![]),
        dict_of(vec![("a", num(3.0, None)), ("b", Value::make_str("x"))]),
        dict_of(vec![("a", num(5.0, None)), ("d", Value::Dict(dict_of(vec![("a", num(5.0, None))])))]),
        dict_of(vec![("a", num(7.0, None)), ("b", num(4.0, None)), ("d", Value::Dict(dict_of(vec![("a", Value::make_str("x"))])))]),
        dict_of(vec![("a", Value::make_str("x")), ("b", Value::make_str("y"))]),
        dict_of(vec![("a", Value::Null), ("b", Value::Null), ("d", Value::Dict(dict_of(vec![])))]),
        dict_of(vec![("a", list(vec![num(3.0, None), num(7.0, None)])), ("b", list(vec![Value::make_str("x"), num(9.0, None)]))]),
        dict_of(vec![("b", num(1.0, None)), ("d", Value::Dict(dict_of(vec![("a", list(vec![num(5.0, None)]))])))]),
        dict_of(vec![("a", Value::Marker), ("b", Value::Marker), ("d", Value::Marker)]),
    ]
}

// ---- random filters and records -----------------------------------------------------------------
const TAGS: [&str; 8] = ["a", "b", "c", "d", "r", "l", "siteRef", "equipRef"];
fn rnd_path(rng: &mut Rng) -> Vec<String> {
    let len = match rng.below(10) {
        0..=4 => 1,
        5..=7 => 2,
        8 => 3,
        _ => 4,
    };
    let mut v = Vec::new();
    for i in 0..len {
        let inner = ["d", "r", "a", "siteRef", "equipRef"];
        if i + 1 < len {
            v.push(rng.pick(&inner).to_string());
        } else {
            v.push(rng.pick(&TAGS).to_string());
        }
    }
    v
}
fn rnd_literal(rng: &mut Rng) -> Value {
    let units = [None, None, Some("m"), Some("s"), Some("kW")];
    match rng.below(12) {
        0..=3 => num((rng.range(-20, 40) as f64) / if rng.chance(1, 3) { 4.0 } else { 1.0 }, *rng.pick(&units)),
        4 | 5 => Value::make_str(*rng.pick(&["x", "y", "5", "", "a b", "X", "xx"])),
        6 => Value::make_bool(rng.chance(1, 2)),
        7 => rf(*rng.pick(&["p", "q", "s1", "e1", "zz"])),
        8 => date(2020 + rng.below(3) as i32, 1 + rng.below(12) as u32, 1 + rng.below(28) as u32),
        9 => time(rng.below(24) as u32, rng.below(60) as u32, rng.below(60) as u32),
        10 => {
            if rng.chance(1, 2) {
                datetime(1_600_000_000 + rng.range(-3, 3) * 3600, *rng.pick(&[chrono_tz::UTC, chrono_tz::America::New_York]))
            } else {
                Value::make_symbol(*rng.pick(&["x", "site", "equip"]))
            }
        }
        _ => Value::make_uri(*rng.pick(&["u", "http://x/y", ""])),
    }
}
fn rnd_term(rng: &mut Rng, depth: u32, with_ns: bool) -> T {
    match rng.below(20) {
        0 | 1 if depth > 0 => T::Par(rnd_or(rng, depth - 1, with_ns)),
        2 | 3 => T::Has(rnd_path(rng)),
        4 | 5 => T::Miss(rnd_path(rng)),
        6 if with_ns => T::IsA(rng.pick(&["site", "equip", "geoPlace", "ahu", "point", "entity", "nope"]).to_string()),
        7 => T::Weq(rnd_path(rng), rng.pick(&["p", "q", "s1", "e1", "zz"]).to_string()),
        8 if with_ns => T::Rel(
            rng.pick(&["containedBy", "inputs", "siteRef", "nope"]).to_string(),
            if rng.chance(1, 4) { Some(rng.pick(&["site", "equip", "air"]).to_string()) } else { None },
            if rng.chance(2, 3) { Some(rng.pick(&["s1", "e1", "p", "q"]).to_string()) } else { None },
        ),
        _ => T::Cmp(*rng.pick(&OPS), rnd_path(rng), rnd_literal(rng)),
    }
}
fn rnd_or(rng: &mut Rng, depth: u32, with_ns: bool) -> POr {
    let n_and = 1 + [0, 0, 0, 1, 1, 2][rng.below(6) as usize];
    (0..n_and)
        .map(|_| {
            let n_t = 1 + [0, 0, 1, 1, 2, 3][rng.below(6) as usize];
            (0..n_t).map(|_| rnd_term(rng, depth, with_ns)).collect()
        })
        .collect()
}
fn rnd_value(rng: &mut Rng, depth: u32) -> Value {
    match rng.below(16) {
        0 => Value::Null,
        1..=5 => rnd_literal(rng),
        6 => Value::Marker,
        7 if depth > 0 => list((0..rng.below(4)).map(|_| rnd_value(rng, depth - 1)).collect()),
        8 if depth > 0 => Value::Dict(rnd_dict(rng, depth - 1, false)),
        9 => gen::value(rng, &Cfg::any(1)),
        10 => gen::scalar(rng, &Cfg::any(1)),
        11 => num(f64::NAN, None),
        _ => rnd_literal(rng),
    }
}
fn rnd_dict(rng: &mut Rng, depth: u32, top: bool) -> Dict {
    let mut d = Dict::new();
    for t in TAGS {
        if rng.chance(1, 2) {
            let v = match t {
                "d" if depth > 0 && rng.chance(3, 4) => Value::Dict(rnd_dict(rng, depth - 1, false)),
                "r" | "siteRef" | "equipRef" if rng.chance(3, 4) => rf(*rng.pick(&["p", "q", "s1", "e1", "zz"])),
                "l" if rng.chance(3, 4) => list((0..rng.below(4)).map(|_| rnd_value(rng, 1)).collect()),
                _ => rnd_value(rng, depth),
            };
            d.insert(t.to_string(), v);
        }
    }
    if top {
        if rng.chance(9, 10) {
            d.insert("id".into(), rf(*rng.pick(&["p", "q", "s1", "e1", "p"])));
        }
        match rng.below(6) {
            0 => {
                d.insert("site".into(), Value::Marker);
            }
            1 => {
                d.insert("equip".into(), Value::Marker);
            }
            2 => {
                d.insert("ahu".into(), Value::Marker);
                d.insert("equip".into(), Value::Marker);
            }
            3 => {
                d.insert("point".into(), Value::Marker);
            }
            _ => {}
        }
    }
    d
}

/// Grids of a thousand rows and more, sizes around powers of two and not divisible by small numbers, the matching rows
/// at the very beginning, at the very end and nowhere: `filter_all` = the rows for which `Dict::filter` holds, in
/// order; `filter` = the first of them.  (Oracle only; whatever a grid filter does differently for LARGE grids -
/// chunks, threads, an index - shows here.)
fn exec_biggrid(n: usize, out: &mut CaseOut) {
    out.nontrivial = true;
    out.stat("biggrid");
    let rows: Vec<Dict> = (0..n)
        .map(|i| {
            let mut d = Dict::new();
            d.insert("idx".into(), Value::make_int(i as i64));
            if i % 7 == 3 || i + 3 >= n {
                d.insert("hot".into(), Value::Marker);
            }
            // ids are NOT unique in a grid (history rows, versions of one record): several rows share `@a`, `@b`
            d.insert("id".into(), Value::make_ref(match i % 11 { 0 | 5 => "a", 3 => "b", _ => "c" }));
            if i % 2 == 0 {
                d.insert("point".into(), Value::Marker);
            }
            d
        })
        .collect();
    let grid = Grid::make_from_dicts(rows);
    for text in [
        format!("idx == {}", n - 1),
        format!("idx >= {}", n.saturating_sub(3)),
        "hot".to_string(),
        "idx == 0".to_string(),
        "not hot and idx > 5".to_string(),
        "nope".to_string(),
        "id == @a".to_string(),
        "point and id == @a".to_string(),
        "id == @b and idx > 4".to_string(),
        "id == @a or id == @b".to_string(),
        "id == @zz".to_string(),
        // matches in several quarters / halves of the grid, the first of them late in its part (whatever divides a large
        // grid among workers must still hand out the FIRST match)
        format!("idx >= {}", (n / 4).saturating_sub(1)),
        format!("idx == {} or idx == {}", (n / 2).saturating_sub(1), n / 2),
        format!("idx == {} or idx >= {}", (n / 4).saturating_sub(1), n / 2),
        format!("idx == {} or idx == {} or idx == {}", n / 3, 2 * n / 3, n.saturating_sub(1)),
    ] {
        let filter = match Filter::try_from(text.as_str()) {
            Ok(f) => f,
            Err(e) => return out.fail("harness", format!("filter {text}: {e}")),
        };
        let want: Vec<usize> = grid.rows.iter().enumerate().filter(|(_, r)| r.filter(&filter)).map(|(i, _)| i).collect();
        let index_of = |d: &Dict| grid.rows.iter().position(|r| std::ptr::eq(r, d));
        let all: Vec<Option<usize>> = grid.filter_all(&filter).into_iter().map(|d| index_of(d)).collect();
        let mut first = grid.filter(&filter).map(|d| index_of(d));
        // the single-match search several times over (a race between workers shows in some runs only)
        for _ in 0..6 {
            let again = grid.filter(&filter).map(|d| index_of(d));
            if again != first {
                first = again;
                break;
            }
        }
        if first != want.first().map(|i| Some(*i)) && want.first().is_some() {
            // reported below
        }
        if all != want.iter().map(|i| Some(*i)).collect::<Vec<_>>() {
            out.fail("grid_all", format!("`{text}` on a grid of {n} rows: filter_all returned {} rows (last {:?}), {} rows match (last {:?})", all.len(), all.last(), want.len(), want.last()));
        }
        if first != want.first().map(|i| Some(*i)) {
            out.fail("grid_first", format!("`{text}` on a grid of {n} rows: filter returned row {first:?}, the first matching row is {:?}", want.first()));
        }
    }
}

pub fn generate(ctx: &mut Ctx) {
    ctx.case("lookalike", "lookalike");
    ctx.case("deepgroups", "deepgroups");
    for n in [3usize, 40, 1000, 1023, 1024, 1025, 1027, 2047, 4096, 4099, 8192, 10007] {
        ctx.case("biggrid", &format!("biggrid {n}"));
    }
    // 1. every single-term filter of the small universe, on every record of it, both ways
    let recs = uni_records();
    for t in uni_terms() {
        let mut f = vec![vec![t]];
        avoid_p1(&mut f);
        ctx.case("uni1:d", &case_input("d", &f, &recs, None));
        ctx.case("uni1:r", &case_input("r", &f, &recs, None));
    }
    // 2. ALL filters up to N leaves over the leaf alphabet: every and/or/parenthesis shape x every
    //    assignment of leaves, on the enumeration records
    //    (leaves: quick 5 for N<=3; thorough 10 for N<=3 and 6 for N=4: 176 shapes x 6^4 filters)
    let max_n = if ctx.quick() { 3 } else { 4 };
    let erecs = enum_records();
    for n in 1..=max_n {
        let k: usize = if ctx.quick() { 5 } else if n <= 3 { 10 } else { 6 };
        let alpha = enum_alphabet(k);
        let shs = shapes(n);
        ctx.count(&format!("shapes_with_{n}_leaves:{}", shs.len()));
        let total = k.pow(n as u32);
        for sh in &shs {
            for code in 0..total {
                let mut c = code;
                let leaves: Vec<T> = (0..n)
                    .map(|_| {
                        let t = alpha[c % k].clone();
                        c /= k;
                        t
                    })
                    .collect();
                let mut f = fill(sh, &leaves);
                avoid_p1(&mut f);
                ctx.case(&format!("enum{n}:d"), &case_input("d", &f, &erecs, None));
            }
        }
    }
    // 2b. the same enumeration on record sets in which a tag of the alphabet occurs in NO record (the grid built from
    //     them has no such column): a filter may still hold through another alternative or a `not`
    let pick = |idx: &[usize]| -> Vec<Dict> { idx.iter().map(|i| erecs[*i].clone()).collect() };
    let lacking: Vec<(&str, Vec<Dict>)> = vec![
        ("nob", pick(&[0, 2])),            // no record has `b`
        ("noa", vec![erecs[0].clone(), dict_of(vec![("b", num(4.0, None))]), dict_of(vec![("b", Value::make_str("x"))])]),
        ("nod", pick(&[0, 1, 4, 6])),      // no record has `d`
    ];
    for (name, lrecs) in &lacking {
        for n in 1..=3usize {
            let k: usize = if ctx.quick() { 5 } else { 10 };
            let alpha = enum_alphabet(k);
            let total = k.pow(n as u32);
            for sh in &shapes(n) {
                for code in 0..total {
                    let mut c = code;
                    let leaves: Vec<T> = (0..n)
                        .map(|_| {
                            let t = alpha[c % k].clone();
                            c /= k;
                            t
                        })
                        .collect();
                    let mut f = fill(sh, &leaves);
                    avoid_p1(&mut f);
                    ctx.case(&format!("enum{n}:{name}"), &case_input("d", &f, lrecs, None));
                }
            }
        }
    }
    // 3. random filters on random record sets
    let total = ctx.n(3000, 100_000);
    for i in 0..total {
        let mut rng = ctx.rng.fork();
        let with_resolver = i % 2 == 1;
        let mut f = rnd_or(&mut rng, 2, with_resolver);
        avoid_p1(&mut f);
        let n = 1 + rng.below(6) as usize;
        let recs: Vec<Dict> = (0..n).map(|_| rnd_dict(&mut rng, 2, true)).collect();
        if with_resolver {
            if rng.chance(1, 4) {
                let extra: Vec<Dict> = (0..1 + rng.below(4)).map(|_| rnd_dict(&mut rng, 2, true)).collect();
                ctx.case("rand:r", &case_input("r", &f, &recs, Some(&extra)));
            } else {
                ctx.case("rand:r", &case_input("r", &f, &recs, None));
            }
        } else {
            ctx.case("rand:d", &case_input("d", &f, &recs, None));
        }
    }
}
