// (included by c17.rs)  The reference: the Rust API on plain values, same canonical answers.

/// answer of one call
pub struct Ans {
    pub reply: String,
    /// results of library code the Lean model takes as given (appended to the request)
    pub ext: Vec<String>,
    pub failed: bool,
    /// handle the call writes to (shown after the call)
    pub target: Option<usize>,
}

#[derive(Default)]
pub struct Shadow {
    pub vals: BTreeMap<usize, Value>,
    pub flts: BTreeMap<usize, Filter>,
    pub strs: BTreeSet<usize>,
    pub next: usize,
    pub fnext: usize,
    pub snext: usize,
    pub err: bool,
}

fn local_in_range(dt: &chrono::DateTime<chrono_tz::Tz>) -> bool {
    dt.naive_utc()
        .checked_add_signed(chrono::Duration::seconds(dt.offset().fix().local_minus_utc() as i64))
        .is_some()
}

impl Shadow {
    fn val(&self, p: Option<usize>) -> Option<&Value> {
        self.vals.get(&p?)
    }
    fn alloc(&mut self, v: Value) -> String {
        let k = self.next;
        self.next += 1;
        self.vals.insert(k, v);
        format!("h{k}")
    }
    fn new_str(&mut self, s: &str) -> String {
        let k = self.snext;
        self.snext += 1;
        self.strs.insert(k);
        format!("s{}", vx::h(s))
    }
    pub fn snapshot(&self) -> Vec<(usize, String)> {
        self.vals.iter().map(|(k, v)| (*k, vx::show(v))).collect()
    }

    /// text of a C string argument or the failure
    fn text<'a>(c: &'a CS) -> Option<&'a str> {
        match c {
            CS::Ok(s) => Some(s),
            _ => None,
        }
    }

    fn utc_of(&self, d: Option<usize>, t: Option<usize>) -> Option<chrono::DateTime<Utc>> {
        match (self.val(d), self.val(t)) {
            (Some(Value::Date(date)), Some(Value::Time(time))) => {
                Some(Utc.from_utc_datetime(&NaiveDateTime::new(**date, **time)))
            }
            _ => None,
        }
    }

    pub fn step(&mut self, call: &Call) -> Ans {
        let name = call.name();
        let mut ext: Vec<String> = Vec::new();
        let mut target: Option<usize> = None;
        // `Err(sentinel)` = failing path
        let r: Result<String, &'static str> = (|| -> Result<String, &'static str> {
            let short = name.strip_prefix("haystack_value_").unwrap_or(name);
            // ---- predicates ---------------------------------------------------------------
            if let Some(kind) = short.strip_prefix("is_") {
                let v = self.val(call.v(0)).ok_or("b0")?;
                let b = match kind {
                    "null" => v.is_null(),
                    "marker" => v.is_marker(),
                    "na" => v.is_na(),
                    "remove" => v.is_remove(),
                    "bool" => v.is_bool(),
                    "number" => v.is_number(),
                    "coord" => v.is_coord(),
                    "str" => v.is_str(),
                    "ref" => v.is_ref(),
                    "uri" => v.is_uri(),
                    "symbol" => v.is_symbol(),
                    "xstr" => v.is_xstr(),
                    "time" => v.is_time(),
                    "date" => v.is_date(),
                    "datetime" => v.is_datetime(),
                    "list" => v.is_list(),
                    "dict" => v.is_dict(),
                    "grid" => v.is_grid(),
                    _ => panic!("unknown predicate {name}"),
                };
                return Ok(bool_text(b).into());
            }
            match name {
                // ---- constructors ---------------------------------------------------------
                "haystack_value_init" => Ok(self.alloc(Value::default())),
                "haystack_value_make_marker" => Ok(self.alloc(Value::make_marker())),
                "haystack_value_make_na" => Ok(self.alloc(Value::make_na())),
                "haystack_value_make_remove" => Ok(self.alloc(Value::make_remove())),
                "haystack_value_make_list" => Ok(self.alloc(Value::make_list(List::new()))),
                "haystack_value_make_dict" => Ok(self.alloc(Value::make_dict(Dict::new()))),
                "haystack_value_make_grid" => Ok(self.alloc(Value::make_grid(Grid::make_empty()))),
                "haystack_value_make_bool" => Ok(self.alloc(Value::make_bool(call.b(0)))),
                "haystack_value_make_number" => Ok(self.alloc(Value::make_number(call.x(0)))),
                "haystack_value_make_number_with_unit" => {
                    let unit = Self::text(call.c(1)).and_then(get_unit);
                    ext.push(match unit {
                        Some(u) => vx::h(u.symbol()),
                        None => "-".into(),
                    });
                    let unit = unit.ok_or(NULLP)?;
                    Ok(self.alloc(Value::make_number_unit(call.x(0), unit)))
                }
                "haystack_value_make_coord" => Ok(self.alloc(Value::make_coord_from(call.x(0), call.x(1)))),
                "haystack_value_make_str" => {
                    let s = Self::text(call.c(0)).ok_or(NULLP)?;
                    Ok(self.alloc(Value::make_str(s)))
                }
                "haystack_value_make_ref" => {
                    let s = Self::text(call.c(0)).ok_or(NULLP)?;
                    Ok(self.alloc(Value::make_ref(s)))
                }
                "haystack_value_make_uri" => {
                    let s = Self::text(call.c(0)).ok_or(NULLP)?;
                    Ok(self.alloc(Value::make_uri(s)))
                }
                "haystack_value_make_symbol" => {
                    let s = Self::text(call.c(0)).ok_or(NULLP)?;
                    Ok(self.alloc(Value::make_symbol(s)))
                }
                "haystack_value_make_ref_with_dis" => {
                    let a = Self::text(call.c(0)).ok_or(NULLP)?;
                    let b = Self::text(call.c(1)).ok_or(NULLP)?;
                    Ok(self.alloc(Value::make_ref_with_dis(a, b)))
                }
                "haystack_value_make_xstr" => {
                    let a = Self::text(call.c(0)).ok_or(NULLP)?;
                    let b = Self::text(call.c(1)).ok_or(NULLP)?;
                    Ok(self.alloc(Value::make_xstr_from(a, b)))
                }
                "haystack_value_make_time" => {
                    let t = Time::from_hms(call.n(0) as u32, call.n(1) as u32, call.n(2) as u32).map_err(|_| NULLP)?;
                    Ok(self.alloc(Value::make_time(t)))
                }
                "haystack_value_make_time_millis" => {
                    let t = Time::from_hms_milli(call.n(0) as u32, call.n(1) as u32, call.n(2) as u32, call.n(3) as u32)
                        .map_err(|_| NULLP)?;
                    Ok(self.alloc(Value::make_time(t)))
                }
                "haystack_value_make_date" => {
                    // a year before 0 cannot be read back through the unsigned year getter: rejected (fix in /repo)
                    if call.i(0) < 0 {
                        return Err(NULLP);
                    }
                    let d = Date::from_ymd(call.i(0) as i32, call.n(1) as u32, call.n(2) as u32).map_err(|_| NULLP)?;
                    Ok(self.alloc(Value::make_date(d)))
                }
                "haystack_value_make_utc_datetime" => {
                    let utc = self.utc_of(call.v(0), call.v(1));
                    let v = utc.map(|u| Value::make_datetime(DateTime::from(u)));
                    ext.push(v.as_ref().map_or("N".into(), vx::show));
                    Ok(self.alloc(v.ok_or(NULLP)?))
                }
                "haystack_value_make_tz_datetime" => {
                    let utc = self.utc_of(call.v(0), call.v(1));
                    let v = match (utc, Self::text(call.c(2))) {
                        (Some(utc), Some(tz)) => {
                            match libhaystack::timezone::make_date_time_with_tz(&utc.with_timezone(&Utc.fix()), tz) {
                                Ok(dt) if local_in_range(&dt) => Some(Value::DateTime(DateTime::from(dt))),
                                _ => None,
                            }
                        }
                        _ => None,
                    };
                    ext.push(v.as_ref().map_or("-".into(), vx::show));
                    Ok(self.alloc(v.ok_or(NULLP)?))
                }
                // ---- scalar getters -------------------------------------------------------
                "haystack_value_get_number_value" => match self.val(call.v(0)) {
                    Some(Value::Number(n)) => Ok(f64_text(n.value)),
                    _ => Err("nan"),
                },
                "haystack_value_number_has_unit" => match self.val(call.v(0)) {
                    Some(Value::Number(n)) => Ok(if n.unit.is_some() { "r1" } else { "r0" }.into()),
                    _ => Err(R_ERR),
                },
                "haystack_value_get_number_unit" => match self.val(call.v(0)) {
                    Some(Value::Number(n)) => match n.unit {
                        Some(u) => {
                            let s = u.symbol().to_string();
                            self.owned_str(&s)
                        }
                        None => Ok(NULLP.into()),
                    },
                    _ => Err(NULLP),
                },
                "haystack_value_get_str_len" => match self.val(call.v(0)) {
                    Some(Value::Str(s)) => Ok(format!("n{}", s.value.len())),
                    _ => Err(USIZE_MAX),
                },
                "haystack_value_get_str_value" => match self.val(call.v(0)) {
                    Some(Value::Str(s)) => {
                        let s = s.value.clone();
                        self.owned_str(&s)
                    }
                    _ => Err(NULLP),
                },
                "haystack_value_get_ref_value_len" => match self.val(call.v(0)) {
                    Some(Value::Ref(r)) => Ok(format!("n{}", r.value.len())),
                    _ => Err(USIZE_MAX),
                },
                "haystack_value_get_ref_value" => match self.val(call.v(0)) {
                    Some(Value::Ref(r)) => {
                        let s = r.value.clone();
                        self.owned_str(&s)
                    }
                    _ => Err(NULLP),
                },
                "haystack_value_get_ref_dis" => match self.val(call.v(0)) {
                    Some(Value::Ref(r)) => match r.dis.clone() {
                        Some(s) => self.owned_str(&s),
                        None => Ok(NULLP.into()),
                    },
                    _ => Err(NULLP),
                },
                "haystack_value_get_symbol_value_len" => match self.val(call.v(0)) {
                    Some(Value::Symbol(s)) => Ok(format!("n{}", s.value.len())),
                    _ => Err(USIZE_MAX),
                },
                "haystack_value_get_symbol_value" => match self.val(call.v(0)) {
                    Some(Value::Symbol(s)) => {
                        let s = s.value.clone();
                        self.owned_str(&s)
                    }
                    _ => Err(NULLP),
                },
                "haystack_value_get_uri_value_len" => match self.val(call.v(0)) {
                    Some(Value::Uri(s)) => Ok(format!("n{}", s.value.len())),
                    _ => Err(USIZE_MAX),
                },
                "haystack_value_get_uri_value" => match self.val(call.v(0)) {
                    Some(Value::Uri(s)) => {
                        let s = s.value.clone();
                        self.owned_str(&s)
                    }
                    _ => Err(NULLP),
                },
                "haystack_value_get_xstr_type" => match self.val(call.v(0)) {
                    Some(Value::XStr(x)) => {
                        let s = x.r#type.clone();
                        self.owned_str(&s)
                    }
                    _ => Err(NULLP),
                },
                "haystack_value_get_xstr_value" => match self.val(call.v(0)) {
                    Some(Value::XStr(x)) => {
                        let s = x.value.clone();
                        self.owned_str(&s)
                    }
                    _ => Err(NULLP),
                },
                "haystack_value_get_coord_lat" => match self.val(call.v(0)) {
                    Some(Value::Coord(c)) => Ok(f64_text(c.lat)),
                    _ => Err("nan"),
                },
                "haystack_value_get_coord_long" => match self.val(call.v(0)) {
                    Some(Value::Coord(c)) => Ok(f64_text(c.long)),
                    _ => Err("nan"),
                },
                "haystack_value_get_date_year" => match self.val(call.v(0)) {
                    // a year before 0 has no unsigned value: an error, not a wrapped number (fix in /repo)
                    Some(Value::Date(d)) => u32::try_from(chrono::Datelike::year(&**d)).map(|y| format!("n{y}")).map_err(|_| U32_MAX),
                    _ => Err(U32_MAX),
                },
                "haystack_value_get_date_month" => match self.val(call.v(0)) {
                    Some(Value::Date(d)) => Ok(format!("n{}", chrono::Datelike::month(&**d))),
                    _ => Err(U32_MAX),
                },
                "haystack_value_get_date_day" => match self.val(call.v(0)) {
                    Some(Value::Date(d)) => Ok(format!("n{}", chrono::Datelike::day(&**d))),
                    _ => Err(U32_MAX),
                },
                "haystack_value_get_time_hour" => match self.val(call.v(0)) {
                    Some(Value::Time(t)) => Ok(format!("n{}", chrono::Timelike::hour(&**t))),
                    _ => Err(U32_MAX),
                },
                "haystack_value_get_time_minutes" => match self.val(call.v(0)) {
                    Some(Value::Time(t)) => Ok(format!("n{}", chrono::Timelike::minute(&**t))),
                    _ => Err(U32_MAX),
                },
                "haystack_value_get_time_seconds" => match self.val(call.v(0)) {
                    Some(Value::Time(t)) => Ok(format!("n{}", chrono::Timelike::second(&**t))),
                    _ => Err(U32_MAX),
                },
                "haystack_value_get_time_millis" => match self.val(call.v(0)) {
                    Some(Value::Time(t)) => Ok(format!("n{}", chrono::Timelike::nanosecond(&**t) / 1_000_000)),
                    _ => Err(U32_MAX),
                },
                "haystack_value_get_datetime_timezone" => match self.val(call.v(0)) {
                    Some(Value::DateTime(dt)) => {
                        let s = dt.timezone_short_name();
                        self.owned_str(&s)
                    }
                    _ => Err(NULLP),
                },
                "haystack_value_get_datetime_date" | "haystack_value_get_datetime_time" => {
                    let utc = call.b(1);
                    let is_date = name.ends_with("_date");
                    let v = match self.val(call.v(0)) {
                        Some(Value::DateTime(dt)) => {
                            let naive = if utc { dt.naive_utc() } else { dt.naive_local() };
                            Some(if is_date { Value::from(Date::from(naive.date())) } else { Value::from(Time::from(naive.time())) })
                        }
                        _ => None,
                    };
                    ext.push(v.as_ref().map_or("N".into(), vx::show));
                    target = call.v(2);
                    let v = v.ok_or(R_ERR)?;
                    let slot = self.vals.get_mut(&call.v(2).ok_or(R_ERR)?).ok_or(R_ERR)?;
                    *slot = v;
                    Ok("r1".into())
                }
                // ---- lists: the Vec behind the handle ---------------------------------------
                "haystack_value_get_list_len" => match self.val(call.v(0)) {
                    Some(Value::List(l)) => Ok(format!("n{}", l.len())),
                    _ => Err(USIZE_MAX),
                },
                "haystack_value_push_list_entry" => {
                    target = call.v(0);
                    let e = self.val(call.v(1)).cloned();
                    match self.vals.get_mut(&call.v(0).ok_or(R_ERR)?) {
                        Some(Value::List(l)) => {
                            l.push(e.ok_or(R_ERR)?);
                            Ok("r1".into())
                        }
                        _ => Err(R_ERR),
                    }
                }
                "haystack_value_get_list_entry_at" => match self.val(call.v(0)) {
                    Some(Value::List(l)) => {
                        let e = l.get(call.n(1) as usize).ok_or(R_ERR)?;
                        if !call.b(2) {
                            return Err(R_ERR);
                        }
                        Ok(format!("r1 & {}", vx::show(e)))
                    }
                    _ => Err(R_ERR),
                },
                "haystack_value_set_list_entry_at" => {
                    target = call.v(0);
                    let e = self.val(call.v(2)).cloned();
                    let idx = call.n(1) as usize;
                    match self.vals.get_mut(&call.v(0).ok_or(R_ERR)?) {
                        Some(Value::List(l)) => {
                            let slot = l.get_mut(idx).ok_or(R_ERR)?;
                            *slot = e.ok_or(R_ERR)?;
                            Ok("r1".into())
                        }
                        _ => Err(R_ERR),
                    }
                }
                "haystack_value_remove_list_entry_at" => {
                    target = call.v(0);
                    let idx = call.n(1) as usize;
                    match self.vals.get_mut(&call.v(0).ok_or(R_ERR)?) {
                        Some(Value::List(l)) => {
                            if idx >= l.len() {
                                return Err(R_ERR);
                            }
                            l.remove(idx);
                            Ok("r1".into())
                        }
                        _ => Err(R_ERR),
                    }
                }
                // ---- dicts: the BTreeMap behind the handle ----------------------------------
                "haystack_value_get_dict_len" => match self.val(call.v(0)) {
                    Some(Value::Dict(d)) => Ok(format!("n{}", d.len())),
                    _ => Err(USIZE_MAX),
                },
                "haystack_value_get_dict_keys" => {
                    target = call.v(1);
                    let keys: Value = match self.val(call.v(0)) {
                        Some(Value::Dict(d)) => Value::List(d.keys().map(|k| Value::make_str(k)).collect()),
                        _ => return Err(R_ERR),
                    };
                    let slot = self.vals.get_mut(&call.v(1).ok_or(R_ERR)?).ok_or(R_ERR)?;
                    *slot = keys;
                    Ok("r1".into())
                }
                "haystack_value_insert_dict_entry" => {
                    target = call.v(0);
                    let key = Self::text(call.c(1)).ok_or(R_ERR)?.to_string();
                    let e = self.val(call.v(2)).cloned().ok_or(R_ERR)?;
                    match self.vals.get_mut(&call.v(0).ok_or(R_ERR)?) {
                        Some(Value::Dict(d)) => {
                            d.insert(key, e);
                            Ok("r1".into())
                        }
                        _ => Err(R_ERR),
                    }
                }
                "haystack_value_get_dict_entry" => {
                    let key = Self::text(call.c(1)).ok_or(R_ERR)?;
                    if !call.b(2) {
                        return Err(R_ERR);
                    }
                    match self.val(call.v(0)) {
                        Some(Value::Dict(d)) => Ok(match d.get(key) {
                            Some(e) => format!("r1 & {}", vx::show(e)),
                            None => "r0".into(),
                        }),
                        _ => Err(R_ERR),
                    }
                }
                "haystack_value_remove_dict_entry" => {
                    target = call.v(0);
                    let key = Self::text(call.c(1)).ok_or(R_ERR)?.to_string();
                    match self.vals.get_mut(&call.v(0).ok_or(R_ERR)?) {
                        Some(Value::Dict(d)) => {
                            d.remove(&key);
                            Ok("r1".into())
                        }
                        _ => Err(R_ERR),
                    }
                }
                // ---- grids ------------------------------------------------------------------
                "haystack_value_get_grid_len" => match self.val(call.v(0)) {
                    Some(Value::Grid(g)) => Ok(format!("n{}", g.len())),
                    _ => Err(USIZE_MAX),
                },
                "haystack_value_make_grid_from_rows" | "haystack_value_make_grid_from_rows_with_meta" => {
                    let rows: Vec<Dict> = match self.val(call.v(0)) {
                        Some(Value::List(l)) => l
                            .iter()
                            .filter_map(|v| match v {
                                Value::Dict(d) => Some(d.clone()),
                                _ => None,
                            })
                            .collect(),
                        _ => return Err(NULLP),
                    };
                    if rows.is_empty() {
                        return Err(NULLP);
                    }
                    if name.ends_with("with_meta") {
                        match self.val(call.v(1)) {
                            Some(Value::Dict(meta)) => {
                                let g = Grid::make_from_dicts_with_meta(rows, meta.clone());
                                Ok(self.alloc(Value::make_grid(g)))
                            }
                            _ => Err(NULLP),
                        }
                    } else {
                        Ok(self.alloc(Value::make_grid_from_dicts(rows)))
                    }
                }
                "haystack_value_get_grid_row_at" => {
                    target = call.v(2);
                    let row = match self.val(call.v(0)) {
                        Some(Value::Grid(g)) => g.rows.get(call.n(1) as usize).cloned().ok_or(R_ERR)?,
                        _ => return Err(R_ERR),
                    };
                    let slot = self.vals.get_mut(&call.v(2).ok_or(R_ERR)?).ok_or(R_ERR)?;
                    *slot = Value::Dict(row);
                    Ok("r1".into())
                }
                // ---- codecs: compared directly with the Rust encoders / decoders ------------------
                "haystack_value_to_zinc_string" | "haystack_value_to_json_string" => {
                    let text = self.val(call.v(0)).and_then(|v| {
                        if name.contains("zinc") {
                            to_zinc_string(v).ok()
                        } else {
                            serde_json::to_string(v).ok()
                        }
                    });
                    let text = text.filter(|t| !t.contains('\0'));
                    ext.push(text.as_ref().map_or("-".into(), |t| vx::h(t)));
                    let text = text.ok_or(NULLP)?;
                    self.owned_str(&text)
                }
                "haystack_value_from_zinc_string" | "haystack_value_from_json_string" => {
                    let v = Self::text(call.c(0)).and_then(|t| {
                        if name.contains("zinc") {
                            zinc_from_str(t).ok()
                        } else {
                            serde_json::from_str::<Value>(t).ok()
                        }
                    });
                    ext.push(v.as_ref().map_or("-".into(), vx::show));
                    Ok(self.alloc(v.ok_or(NULLP)?))
                }
                // ---- filters ------------------------------------------------------------------
                "haystack_filter_parse" => {
                    let f = Self::text(call.c(0)).and_then(|t| Filter::try_from(t).ok());
                    ext.push(if f.is_some() { "1".into() } else { "0".into() });
                    let f = f.ok_or(NULLP)?;
                    let k = self.fnext;
                    self.fnext += 1;
                    self.flts.insert(k, f);
                    Ok(format!("f{k}"))
                }
                "haystack_filter_destroy" => {
                    let k = call.v(0).ok_or("v")?;
                    self.flts.remove(&k);
                    Ok("v".into())
                }
                "haystack_filter_match_dict" => {
                    let r = match (call.v(0).and_then(|k| self.flts.get(&k)), self.val(call.v(1))) {
                        (Some(f), Some(Value::Dict(d))) => Some(d.filter(f)),
                        _ => None,
                    };
                    ext.push(if r == Some(true) { "1".into() } else { "0".into() });
                    Ok(if r.ok_or(R_ERR)? { "r1" } else { "r0" }.into())
                }
                "haystack_filter_first_match_in_grid" => {
                    target = call.v(2);
                    let r: Option<Option<Dict>> = match (call.v(0).and_then(|k| self.flts.get(&k)), self.val(call.v(1))) {
                        (Some(f), Some(Value::Grid(g))) => Some(g.filter(f).cloned()),
                        _ => None,
                    };
                    ext.push(match &r {
                        Some(Some(d)) => vx::show(&Value::Dict(d.clone())),
                        _ => "-".into(),
                    });
                    let r = r.ok_or(R_ERR)?;
                    if call.v(2).is_none() {
                        return Err(R_ERR);
                    }
                    match r {
                        Some(d) => {
                            let slot = self.vals.get_mut(&call.v(2).ok_or(R_ERR)?).ok_or(R_ERR)?;
                            *slot = Value::Dict(d);
                            Ok("r1".into())
                        }
                        None => Ok("r0".into()),
                    }
                }
                "haystack_filter_match_all_grid" => {
                    target = call.v(2);
                    let r: Option<Grid> = match (call.v(0).and_then(|k| self.flts.get(&k)), self.val(call.v(1))) {
                        (Some(f), Some(Value::Grid(g))) => {
                            let rows: Vec<Dict> = g.filter_all(f).into_iter().cloned().collect();
                            Some(match &g.meta {
                                Some(meta) => Grid::make_from_dicts_with_meta(rows, meta.clone()),
                                None => Grid::make_from_dicts(rows),
                            })
                        }
                        _ => None,
                    };
                    ext.push(r.as_ref().map_or("N".into(), |g| vx::show(&Value::Grid(g.clone()))));
                    let g = r.ok_or(R_ERR)?;
                    let slot = self.vals.get_mut(&call.v(2).ok_or(R_ERR)?).ok_or(R_ERR)?;
                    let ret = if !g.is_empty() { "r1" } else { "r0" };
                    *slot = Value::Grid(g);
                    Ok(ret.into())
                }
                // ---- ownership, errors ------------------------------------------------------------
                "haystack_value_destroy" => {
                    if let Some(k) = call.v(0) {
                        self.vals.remove(&k);
                    }
                    Ok("v".into())
                }
                "haystack_string_destroy" => {
                    if let Some(k) = call.v(0) {
                        self.strs.remove(&k);
                    }
                    Ok("v".into())
                }
                "last_error_message" => {
                    if self.err {
                        self.err = false;
                        let k = self.snext;
                        self.snext += 1;
                        self.strs.insert(k);
                        Ok("e".into())
                    } else {
                        Ok(NULLP.into())
                    }
                }
                _ => panic!("no reference for {name}"),
            }
        })();
        match r {
            Ok(reply) => Ans { reply, ext, failed: false, target },
            Err(sen) => {
                self.err = true;
                let reply = if sen == "nan" { nan_text() } else { sen.to_string() };
                Ans { reply, ext, failed: true, target }
            }
        }
    }

    /// `CString::new(..)` fails on an interior NUL
    fn owned_str(&mut self, s: &str) -> Result<String, &'static str> {
        if s.contains('\0') {
            // every function that returns a string has the null sentinel
            return Err(NULLP);
        }
        Ok(self.new_str(s))
    }
}
