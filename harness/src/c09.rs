//! C09 — the filter parser is total; evaluation terminates.
//!
//! input: `<mode> …`
//!   p H(bytes)        the bytes through `Filter::try_from` (when UTF-8) and through the C entry point
//!                     `haystack_filter_parse` (a returned filter is destroyed with `haystack_filter_destroy`);
//!                     both must agree; -> `C09 parse H(text)` (outcome and tree vs the model) for UTF-8
//!                     texts of at most 4000 bytes
//!   deep N SHAPE      a text built from N repetitions (N up to 10^5): `(`*N, `(`*N a `)`*N, `not `*N, …;
//!                     implementation always, model when the text is short
//!   ev H(text) RECS   evaluate the parsed filter with every record of RECS as the subject, against a
//!                     resolver over RECS (refs form cycles, chains, self loops); the wildcard loop is
//!                     also compared with the model: -> `C09 weq …`; the relationship loop: -> `C09 rel …`
//!   evns H(text) ROWS RECS   the same evaluation against a namespace built from the defs grid ROWS (C13's row
//!                     format) whose `is` lists form CYCLES (self loop, 2-cycle, tail + diamond into a cycle):
//!                     `^sym` and relationship terms walk the supertypes of the record's defs and must come back
//!                     (fixed in /repo da32af2); a filter that is a single `^sym` must also give the graph's answer
//! A panic is caught by the runner (kind `panic`), a hang by the watchdog (kind `hang`), an abort
//! (stack overflow) by `check` (kind `abort`); each carries this input as the replay.

use crate::c08::{self, from_or, show_f, T};
use crate::ctx::{CaseOut, Ctx};
use crate::rng::Rng;
use crate::vx::{self, Rd};
use libhaystack::c_api::filter::{haystack_filter_destroy, haystack_filter_parse};
use libhaystack::defs::namespace::Namespace;
use libhaystack::filter::eval::{Eval, EvalContext};
use libhaystack::filter::nodes::*;
use libhaystack::filter::path::Path;
use libhaystack::filter::{Filter, PathResolver};
use libhaystack::val::*;
use std::ffi::CString;
use std::sync::OnceLock;

/// the def namespace of the repository's test database (for `^isA` and relationship terms)
pub fn ns() -> &'static Namespace<'static> {
    static CELL: OnceLock<&'static Namespace<'static>> = OnceLock::new();
    CELL.get_or_init(|| {
        let grid = std::fs::read_to_string("/repo/tests/defs/defs.zinc")
            .ok()
            .and_then(|s| libhaystack::encoding::zinc::decode::from_str(&s).ok())
            .and_then(|v| Grid::try_from(&v).ok())
            .unwrap_or_default();
        Box::leak(Box::new(Namespace::make(grid)))
    })
}

/// A resolver over a finite record list: a Ref resolves to the first record with that `id`; a path
/// is walked through nested dicts and through Refs.  A record carrying the marker `blank` is known to
/// the resolver but resolves to a dict without tags (`Some(Dict::new())`).
pub struct Recs {
    pub recs: Vec<Dict>,
}
impl PathResolver for Recs {
    fn resolve_for(&self, root: &Dict, path: &Path) -> Value {
        if path.is_empty() || root.is_empty() {
            return Value::Null;
        }
        let mut cur: Value = Value::Dict(root.clone());
        for seg in path.iter() {
            let name = seg.to_string();
            cur = match &cur {
                Value::Dict(d) => d.get(&name).cloned().unwrap_or(Value::Null),
                Value::Ref(r) => match self.resolve_ref(r) {
                    Some(d) => d.get(&name).cloned().unwrap_or(Value::Null),
                    None => Value::Null,
                },
                _ => Value::Null,
            };
            if cur.is_null() {
                break;
            }
        }
        cur
    }
    fn resolve(&self, _path: &Path) -> Value {
        Value::Null
    }
    fn resolve_ref(&self, reference: &Ref) -> Option<Dict> {
        // one pass, first match: a record answers to its `id`, a record without `id` to its `aka`
        self.recs
            .iter()
            .find(|d| {
                if d.has("id") {
                    d.get_ref("id") == Some(reference)
                } else {
                    d.get_str("aka").map(|s| s.value.as_str()) == Some(reference.value.as_str())
                }
            })
            .map(|d| if is_blank(d) { Dict::new() } else { d.clone() })
    }
}

/// A record store that hands out only the records a guard filter selects - and decides that by EVALUATING the guard
/// (with the plain store as its resolver) inside `resolve_ref`, i.e. while the outer evaluation is in progress on
/// the same thread.  Whatever an evaluator keeps outside its own stack frame is shared with the nested evaluation.
pub struct Scoped<'a> {
    pub inner: &'a Recs,
    pub guard: &'a Filter,
}
impl<'a> PathResolver for Scoped<'a> {
    fn resolve_for(&self, root: &Dict, path: &Path) -> Value {
        if path.is_empty() || root.is_empty() {
            return Value::Null;
        }
        let mut cur: Value = Value::Dict(root.clone());
        for seg in path.iter() {
            let name = seg.to_string();
            cur = match &cur {
                Value::Dict(d) => d.get(&name).cloned().unwrap_or(Value::Null),
                Value::Ref(r) => match self.resolve_ref(r) {
                    Some(d) => d.get(&name).cloned().unwrap_or(Value::Null),
                    None => Value::Null,
                },
                _ => Value::Null,
            };
            if cur.is_null() {
                break;
            }
        }
        cur
    }
    fn resolve(&self, _path: &Path) -> Value {
        Value::Null
    }
    fn resolve_ref(&self, reference: &Ref) -> Option<Dict> {
        let d = self.inner.resolve_ref(reference)?;
        let cx = EvalContext::make(&d, ns(), self.inner);
        if d.is_empty() || self.guard.eval(&cx) {
            Some(d)
        } else {
            None
        }
    }
}

/// the same scoping with the guard's verdicts computed beforehand (no evaluation inside `resolve_ref`)
pub struct Decided<'a> {
    pub inner: &'a Recs,
    pub verdicts: &'a [(Ref, bool)],
}
impl<'a> PathResolver for Decided<'a> {
    fn resolve_for(&self, root: &Dict, path: &Path) -> Value {
        if path.is_empty() || root.is_empty() {
            return Value::Null;
        }
        let mut cur: Value = Value::Dict(root.clone());
        for seg in path.iter() {
            let name = seg.to_string();
            cur = match &cur {
                Value::Dict(d) => d.get(&name).cloned().unwrap_or(Value::Null),
                Value::Ref(r) => match self.resolve_ref(r) {
                    Some(d) => d.get(&name).cloned().unwrap_or(Value::Null),
                    None => Value::Null,
                },
                _ => Value::Null,
            };
            if cur.is_null() {
                break;
            }
        }
        cur
    }
    fn resolve(&self, _path: &Path) -> Value {
        Value::Null
    }
    fn resolve_ref(&self, reference: &Ref) -> Option<Dict> {
        let d = self.inner.resolve_ref(reference)?;
        match self.verdicts.iter().find(|(r, _)| r == reference) {
            Some((_, true)) => Some(d),
            _ => None,
        }
    }
}

pub fn is_blank(d: &Dict) -> bool {
    d.has_marker("blank")
}

/// the name a record is resolved under: its `id`, or for a record without `id` its `aka` (a record that
/// does not identify itself: the resolver knows it under a name the record does not carry as `id`)
fn key_token(d: &Dict) -> String {
    match d.get_ref("id") {
        Some(r) => vx::h(&r.value),
        None if d.has("id") => "-".into(),
        None => d.get_str("aka").map_or("-".into(), |s| vx::h(&s.value)),
    }
}

/// the C entry point; `Some(printed filter)` when it returned one (which is destroyed here)
pub fn c_parse(text: &CString) -> Option<String> {
    unsafe {
        match haystack_filter_parse(text.as_ptr()) {
            Some(b) => {
                let raw = Box::into_raw(b);
                let printed = (*raw).to_string();
                haystack_filter_destroy(raw);
                Some(printed)
            }
            None => {
                // take (and free) the pending error message
                let msg = libhaystack::c_api::err::last_error_message();
                if !msg.is_null() {
                    drop(CString::from_raw(msg as *mut std::os::raw::c_char));
                }
                None
            }
        }
    }
}

fn parse_both(bytes: &[u8], out: &mut CaseOut, with_model: bool) -> Option<Filter> {
    // the C side sees the bytes up to the first NUL
    let c_bytes: Vec<u8> = bytes.iter().copied().take_while(|b| *b != 0).collect();
    let c_text = CString::new(c_bytes.clone()).expect("no interior NUL");
    let c_res = c_parse(&c_text);
    match std::str::from_utf8(bytes) {
        Ok(text) => {
            let (reply, parsed) = c08::parse_reply(text);
            out.stat(if parsed.is_some() { "parse:ok" } else { "parse:err" });
            // what the C entry point was given, through the Rust entry point
            let c_expect = std::str::from_utf8(&c_bytes).ok().and_then(|t| Filter::try_from(t).ok()).map(|f| f.to_string());
            if c_res != c_expect {
                out.fail("c_api_mismatch", format!("haystack_filter_parse gives {c_res:?}, Filter::try_from gives {c_expect:?}"));
            }
            if with_model && bytes.len() <= 4000 {
                out.req(format!("C09 parse {}", vx::hex(bytes)), reply);
            }
            parsed
        }
        Err(_) => {
            out.stat("parse:not-utf8");
            // the valid prefix before a NUL may parse; otherwise the C string is rejected as not UTF-8
            let c_expect = std::str::from_utf8(&c_bytes).ok().and_then(|t| Filter::try_from(t).ok()).map(|f| f.to_string());
            if c_res != c_expect {
                out.fail("c_api_mismatch", format!("haystack_filter_parse gives {c_res:?} on bytes that are not UTF-8; expected {c_expect:?}"));
            }
            None
        }
    }
}

pub fn deep_text(n: usize, shape: &str) -> String {
    let rep = |s: &str| s.repeat(n);
    match shape {
        "open" => rep("("),
        "balanced" => format!("{}a{}", rep("("), rep(")")),
        "spaced" => format!("{}a{}", rep("( "), rep(" )")),
        "close" => format!("a{}", rep(")")),
        "not" => format!("{}a", rep("not ")),
        "and" => format!("{}a", rep("a and ")),
        "or" => format!("{}a", rep("a or ")),
        "andor" => format!("{}a", rep("a and b or ")),
        "path" => format!("{}a", rep("a->")),
        "group_and" => format!("{}a{}", rep("(a and "), rep(")")),
        "group_or" => format!("{}a{}", rep("(b or ("), rep("))")),
        "cmp" => format!("{}a", rep("a == 1 and ")),
        "sym" => format!("{}a", rep("^a ")),
        "minus" => rep("-"),
        "lt" => rep("<"),
        "quote" => format!("a == {}", rep("\"")),
        "rel" => format!("{}a", rep("a? ")),
        "ws" => format!("{}a", rep(" \n")),
        // closed groups beside the open ones: the depth has to come back exactly after each group
        "siblings" => format!("{}a", rep("(a) and ")),
        "siblings_or" => format!("{}(a)", rep("(a or b) or ")),
        "sib_and" => format!("{}a{}", rep("(a) and ("), rep(")")),
        "sib_or" => format!("{}a{}", rep("(a and b) or ("), rep(")")),
        "sib_nested" => format!("{}a{}", rep("((a)) and ("), rep(")")),
        "sib_bad" => format!("{}a{}", rep("(a and) or ("), rep(")")),
        "pairs" => format!("{}a", rep("((a)) and ")),
        // a literal in front of the nesting whose TEXT would mislead anything that judges depth from the characters
        // instead of the tokens: a quote inside a Uri, a backtick inside a Str, parentheses and escaped quotes inside
        // literals, an unbalanced closing parenthesis inside a Str
        "lit_uri_quote" => format!("h == `/q?\"x` and {}", rep("(")),
        "lit_uri_quote_bal" => format!("h == `/q?\"x` and {}a{}", rep("("), rep(")")),
        "lit_uri_paren" => format!("h == `)))(\"` or {}a{}", rep("("), rep(")")),
        "lit_str_tick" => format!("h == \"x`y\" and {}", rep("(")),
        "lit_str_esc" => format!("h == \"\\\"(\\\\\" and {}a{}", rep("("), rep(")")),
        "lit_str_close" => format!("h == \")))))\" and {}a", rep("(")),
        "lit_ref_dis" => format!("h == @r \"(`\\\"\" and {}a{}", rep("("), rep(")")),
        "lit_sym" => format!("^a-b and h == `\"` and {}a", rep("(")),
        _ => rep("a"),
    }
}
pub const SHAPES: &[&str] = &[
    "open", "balanced", "spaced", "close", "not", "and", "or", "andor", "path", "group_and", "group_or", "cmp", "sym", "minus", "lt", "quote", "rel", "ws", "id", "siblings", "siblings_or", "sib_and", "sib_or", "sib_nested", "sib_bad", "pairs",
    "lit_uri_quote", "lit_uri_quote_bal", "lit_uri_paren", "lit_str_tick", "lit_str_esc", "lit_str_close", "lit_ref_dis", "lit_sym",
];

fn walk_terms<'a>(o: &'a Or, f: &mut dyn FnMut(&'a Term)) {
    for a in &o.ands {
        for t in &a.terms {
            f(t);
            if let Term::Parens(p) = t {
                walk_terms(&p.or, f);
            }
        }
    }
}

fn ho_ref(r: Option<&Ref>) -> String {
    match r {
        Some(r) => vx::h(&r.value),
        None => "-".into(),
    }
}

/// request for the model of `Namespace::has_relationship`: everything the loop reads from the
/// namespace is looked up here through the public API and sent along
///   rel ISREL TRANSITIVE HASRECIP HASTERM TARGET|- SUBJECT k RECORD*k
///   RECORD  ::= KEY|- ID|- n ENTRY*n   (KEY = the name the resolver knows the record under, ID = its `id` tag)
///        ENTRY ::= REF|- RELSYM|- FITS RECIPSYM|- RFITS
/// (REF = the tag's value when it is a Ref; RELSYM = the symbol the tag's def gives for the
/// relationship; FITS = does it fit the term; RECIP… likewise for the reciprocal relationship).
fn rel_request(rel: &Relation, subject_idx: usize, recs: &Recs) -> String {
    let ns = ns();
    let rel_sym = Symbol::from(rel.rel.value.as_str());
    let def = ns.get(&rel_sym);
    let is_rel = def.is_some() && ns.inheritance(&rel_sym).iter().any(|d| d.get_symbol("def").map(|s| s.value.as_str()) == Some("relationship"));
    let transitive = def.map_or(false, |d| d.has_marker("transitive"));
    let recip = def.and_then(|d| d.get_symbol("reciprocalOf")).cloned();
    let mut toks: Vec<String> = vec![
        "C09".into(),
        "rel".into(),
        (is_rel as u8).to_string(),
        (transitive as u8).to_string(),
        (recip.is_some() as u8).to_string(),
        (rel.rel_term.is_some() as u8).to_string(),
        ho_ref(rel.ref_value.as_ref()),
        subject_idx.to_string(),
        recs.recs.len().to_string(),
    ];
    let fits = |s: &Symbol| match &rel.rel_term {
        Some(t) => ns.fits(s, t),
        None => true,
    };
    for rec in &recs.recs {
        toks.push(key_token(rec));
        toks.push(ho_ref(rec.get_ref("id")));
        toks.push(rec.len().to_string());
        for (k, v) in rec.iter() {
            let tag_def = ns.get_by_name(k);
            toks.push(match v {
                Value::Ref(r) => vx::h(&r.value),
                _ => "-".into(),
            });
            let rs = tag_def.and_then(|d| d.get(&rel.rel.value)).and_then(|v| match v {
                Value::Symbol(s) => Some(s.clone()),
                _ => None,
            });
            // a def value that is present but not a Symbol blocks the reciprocal lookup without matching
            let present_not_sym = tag_def.and_then(|d| d.get(&rel.rel.value)).map_or(false, |v| !v.is_symbol());
            toks.push(match &rs {
                Some(s) => vx::h(&s.value),
                None => if present_not_sym { "!".into() } else { "-".into() },
            });
            toks.push(rs.as_ref().map_or(0u8, |s| fits(s) as u8).to_string());
            let rc = recip.as_ref().and_then(|rc| tag_def.and_then(|d| d.get(&rc.value))).cloned();
            toks.push(match &rc {
                Some(Value::Symbol(s)) => vx::h(&s.value),
                Some(_) => "!".into(),
                None => "-".into(),
            });
            toks.push(match &rc {
                Some(Value::Symbol(s)) => (fits(s) as u8).to_string(),
                _ => "0".into(),
            });
        }
    }
    toks.join(" ")
}

pub fn exec(_label: &str, input: &str, out: &mut CaseOut) {
    let (mode, rest) = input.split_once(' ').unwrap_or((input, ""));
    match mode {
        "p" => {
            let bytes = match vx::unhex(rest.trim()) {
                Some(b) => b,
                None => {
                    out.fail("harness", "unparsable hex".into());
                    return;
                }
            };
            out.nontrivial = !bytes.is_empty();
            parse_both(&bytes, out, true);
        }
        "deep" => {
            let mut it = rest.split(' ');
            let n: usize = it.next().and_then(|s| s.parse().ok()).unwrap_or(1);
            let shape = it.next().unwrap_or("open");
            let text = deep_text(n, shape);
            out.nontrivial = true;
            out.stat(&format!("deep:{}", if n >= 10_000 { "1e4+" } else if n >= 100 { "1e2+" } else { "small" }));
            parse_both(text.as_bytes(), out, true);
        }
        "ev" => {
            let (hex, recs_txt) = rest.split_once(' ').unwrap_or((rest, ""));
            let text = match vx::unh(hex) {
                Some(t) => t,
                None => {
                    out.fail("harness", "unparsable filter text".into());
                    return;
                }
            };
            let mut rd = Rd::new(recs_txt);
            let k: usize = rd.num().unwrap_or(0);
            let mut recs = Vec::new();
            for _ in 0..k {
                match rd.dict() {
                    Some(d) => recs.push(d),
                    None => {
                        out.fail("harness", "unparsable record".into());
                        return;
                    }
                }
            }
            let filter = match Filter::try_from(text.as_str()) {
                Ok(f) => f,
                Err(e) => {
                    out.fail("harness", format!("the evaluation case's filter does not parse: {e}"));
                    return;
                }
            };
            out.nontrivial = true;
            let ns = ns();
            if recs.iter().any(|r| !r.has("id") && r.has("aka")) {
                out.stat("ev:record-known-under-another-name");
            }
            let recs = Recs { recs };
            let mut hits = 0usize;
            for rec in &recs.recs {
                let cx = EvalContext::make(rec, ns, &recs);
                if filter.eval(&cx) {
                    hits += 1;
                }
            }
            out.stat(if hits > 0 { "ev:some-match" } else { "ev:no-match" });
            // the same evaluation against a store that is scoped by a guard filter evaluated INSIDE `resolve_ref` (a
            // nested evaluation on the same thread) must come back, and must give what the plain store gives once the
            // records the guard rejects are taken out of it
            {
                // the guard's verdict on what the plain store hands out for each record's own name, decided up front
                let verdicts: Vec<(Ref, bool)> = recs
                    .recs
                    .iter()
                    .filter_map(|d| d.get_ref("id").cloned().or_else(|| d.get_str("aka").map(|s| Ref::from(s.value.as_str()))))
                    .map(|r| {
                        let ok = match recs.resolve_ref(&r) {
                            Some(d) => d.is_empty() || filter.eval(&EvalContext::make(&d, ns, &recs)),
                            None => false,
                        };
                        (r, ok)
                    })
                    .collect();
                let kept = Decided { inner: &recs, verdicts: &verdicts };
                let scoped = Scoped { inner: &recs, guard: &filter };
                for rec in &recs.recs {
                    let nested = filter.eval(&EvalContext::make(rec, ns, &scoped));
                    let plain = filter.eval(&EvalContext::make(rec, ns, &kept));
                    if nested != plain {
                        out.fail(
                            "nested_eval",
                            format!("record {rec:?}: {nested} against a store that evaluates the filter inside resolve_ref, {plain} against the same store filtered up front"),
                        );
                    }
                }
                out.stat("ev:nested-resolver");
            }
            // the loops with visited sets, one request per (term, subject)
            let mut terms: Vec<&Term> = Vec::new();
            walk_terms(&filter.or, &mut |t| terms.push(t));
            for t in terms {
                match t {
                    Term::WildcardEq(w) => {
                        out.stat("ev:wildcard");
                        for rec in &recs.recs {
                            let cx = EvalContext::make(rec, ns, &recs);
                            let got = w.eval(&cx);
                            let mut toks: Vec<String> = vec!["C09".into(), "weq".into(), vx::h(&w.ref_value.value)];
                            vx::w_val(&cx.resolve(&w.id), &mut toks);
                            toks.push(recs.recs.len().to_string());
                            for r in &recs.recs {
                                toks.push(key_token(r));
                                toks.push(((r.is_empty() || is_blank(r)) as u8).to_string());
                                vx::w_val(&cx.resolve_for_dict(r, &w.id), &mut toks);
                            }
                            out.req(toks.join(" "), format!("ok {}", got as u8));
                        }
                    }
                    Term::Relation(r) => {
                        out.stat("ev:relation");
                        for (i, rec) in recs.recs.iter().enumerate() {
                            let cx = EvalContext::make(rec, ns, &recs);
                            let got = r.eval(&cx);
                            out.req(rel_request(r, i, &recs), format!("ok {}", got as u8));
                        }
                    }
                    _ => {}
                }
            }
        }
        "evns" => {
            let (hex, rest2) = rest.split_once(' ').unwrap_or((rest, ""));
            let Some(text) = vx::unh(hex) else {
                out.fail("harness", "unparsable filter text".into());
                return;
            };
            let mut rd = Rd::new(rest2);
            let Some(rows) = crate::c13::read_rows(&mut rd) else {
                out.fail("harness", "unparsable defs grid".into());
                return;
            };
            let k: usize = rd.num().unwrap_or(0);
            let mut recs = Vec::new();
            for _ in 0..k {
                match rd.dict() {
                    Some(d) => recs.push(d),
                    None => {
                        out.fail("harness", "unparsable record".into());
                        return;
                    }
                }
            }
            let filter = match Filter::try_from(text.as_str()) {
                Ok(f) => f,
                Err(e) => {
                    out.fail("harness", format!("the evaluation case's filter does not parse: {e}"));
                    return;
                }
            };
            out.nontrivial = true;
            let o = crate::c13::Oracle::new(&rows);
            out.stat(if o.on_cycle().is_empty() { "evns:acyclic-namespace" } else { "evns:cyclic-namespace" });
            let cyc_ns = crate::c13::build_ns(&rows);
            let recs = Recs { recs };
            // a filter that is the single term `^sym`: the graph's answer (C13's reflection rule)
            let single_isa: Option<String> = text.strip_prefix('^').filter(|r| !r.contains(' ')).map(|r| r.to_string());
            for rec in &recs.recs {
                let cx = EvalContext::make(rec, cyc_ns, &recs);
                let got = filter.eval(&cx); // must return: the watchdog reports a hang with this input
                out.stat(if got { "evns:match" } else { "evns:no-match" });
                if let Some(b) = &single_isa {
                    let spec: crate::c13::RecSpec = rec.iter().map(|(k, v)| (k.clone(), v.is_marker())).collect();
                    let want = o.defined(b) && o.reflect(&spec).contains(b);
                    if got != want {
                        out.fail("isa_cyclic_namespace", format!("filter {text:?} on {spec:?}: eval {got}, graph {want}"));
                    }
                }
            }
            unsafe { crate::c13::free_ns(cyc_ns) };
        }
        _ => out.fail("harness", format!("unknown mode {mode}")),
    }
}

pub fn soup(rng: &mut Rng, n: usize) -> Vec<u8> {
    const TOKENS: &[&str] = &[
        " ", "  ", "\n", "\t", "\r\n", "and", "or", "not", "true", "false", "a", "b", "dis", "siteRef", "x1", "(", ")", "((", "))", "->", "-", ">", "=", "==", "!=", "!",
        "<", "<=", ">", ">=", "*==", "*", "?", "a?", "rel?", "^", "^sym", "^a:b", "^A", "@", "@r", "@r \"d\"", "@r \"", "@ ", "\"", "\"str\"", "\"a\\nb\"", "\"\\q\"",
        "\"\\u00e9\"", "\"\\u12", "`", "`uri`", "`a\\#b`", "`\\", "0", "1", "12", "-3.5", "1e5", "1E-3", "1e", "1e+", "1e3.0", "1e3.5", "1E-3.00000000000000000000000001", "1e0.99999999999999999999999", "1e-.5", "1e+-3", "5kW", "5xyz", "100%", "1_000", "1.2.3", "-", "--1",
        "-INF", "INF", "NaN", "1e999", "2021-03-04", "2021-13-04", "2021-03", "12:30:00", "12:30", "25:00:00", "12:30:00.123", "12:30:00.", "2021-03-04T12:30:00Z",
        "2021-03-04T12:30:00Z UTC", "2021-03-04T12:30:00-05:00 New_York", "2021-03-04T12:30:00-05:00 Nowhere", "2021-03-04T", "T", "Z", "é", "\u{1F600}", "$", "_", ".",
        ":", "/", "+", ",", "[", "]", "{", "}", "N", "M", "a->b", "a -> b", "a->", "->b", "a - > b", "\\", "\u{0}", "\u{7f}",
    ];
    let mut out = Vec::new();
    while out.len() < n {
        if rng.chance(1, 14) {
            out.push(rng.below(256) as u8);
        } else {
            out.extend_from_slice(rng.pick(TOKENS).as_bytes());
            if rng.chance(1, 2) {
                out.push(b' ');
            }
        }
    }
    out
}

/// record sets whose refs form chains, cycles and self loops
pub fn records(rng: &mut Rng) -> Vec<Dict> {
    let n = 1 + rng.below(6) as usize;
    let names: Vec<String> = (0..n).map(|i| format!("r{i}")).collect();
    let ref_tags = ["siteRef", "equipRef", "hotWaterRef", "airRef", "a", "b"];
    let mut recs = Vec::new();
    let shape = rng.below(5);
    for i in 0..n {
        let mut d = Dict::new();
        if !rng.chance(1, 6) {
            d.insert("id".into(), Value::Ref(Ref { value: names[i].clone(), dis: if rng.chance(1, 3) { Some("D".into()) } else { None } }));
        } else if rng.chance(3, 4) {
            // no `id` of its own, yet the resolver finds it under its name
            d.insert("aka".into(), Value::make_str(&names[i]));
        }
        for t in ref_tags {
            if rng.chance(2, 3) {
                let target = match shape {
                    0 => names[(i + 1) % n].clone(),                      // one cycle through all records
                    1 => names[i].clone(),                                // self loops
                    2 => names[(i + 1).min(n - 1)].clone(),               // chain ending in a self loop
                    3 => {
                        if i + 1 < n {
                            names[i + 1].clone()
                        } else {
                            "missing".into()                              // chain into an unresolvable ref
                        }
                    }
                    _ => rng.pick(&names).clone(),                        // arbitrary graph
                };
                d.insert(t.into(), Value::Ref(Ref { value: target, dis: None }));
            }
        }
        for m in ["site", "equip", "ahu", "point", "c"] {
            if rng.chance(1, 3) {
                d.insert(m.into(), Value::Marker);
            }
        }
        if rng.chance(1, 3) {
            d.insert("c".into(), Value::Number(Number { value: 1.0, unit: None }));
        }
        if rng.chance(1, 6) {
            let mut inner = Dict::new();
            inner.insert("b".into(), Value::Ref(Ref { value: rng.pick(&names).clone(), dis: None }));
            d.insert("a".into(), Value::Dict(inner));
        }
        recs.push(d);
    }
    if rng.chance(1, 4) {
        // a record the resolver knows but hands out without tags
        let k = rng.below(recs.len() as u64) as usize;
        recs[k].insert("blank".into(), Value::Marker);
    }
    if rng.chance(1, 10) {
        // a second record with the same id; an empty record
        let mut d = Dict::new();
        d.insert("id".into(), Value::Ref(Ref { value: names[0].clone(), dis: None }));
        recs.push(d);
        recs.push(Dict::new());
    }
    recs
}

pub fn generate(ctx: &mut Ctx) {
    // operators without operands, unbalanced parentheses, fixed hard cases
    let fixed: &[&str] = &[
        "", " ", "\n", "and", "or", "not", "a and", "a or", "and a", "or a", "not not", "not and", "a and and", "a or or b", "a ==", "== 1", "a == ==", "a <", "a <=", "a >",
        "a *==", "*== @x", "a *== 1", "a *== @x", "a?", "?", "a? ^", "a? ^b", "a? ^b @", "a? @x ^b", "(", ")", "()", "( )", "(a", "a)", "((a)", "(a))", ")(", "(a) b", "( a ) ( b )",
        "a->", "a->b->", "->", "a - > b", "a-", "a -", "a->5", "a-> ", "a->b -5", "d->b and c", "and ! x", "((a)!", "and \"", "or `", "(a) @", "((a) ^", "not and ! x",
        "a == @x ", "a == @x  ", "a == @x \"", "a == @x \"d", "a == 1e999", "a == -1e999", "a == 1.7976931348623157e308", "a == 1.7976931348623159e308",
        "a == 0e999", "a == 1e-999", "a == 17976931348623158e292", "a == -INF", "a == INF", "a == NaN", "a == N", "a == 5xyz", "a == 5kW", "a == 1.2.3", "a == --1", "a == 1e",
        "a == 2021-02-30", "a == 2021-03-04T25:00:00Z", "a == 2021-03-04T12:30:00-05:00 Nowhere", "a == 12:30:00.", "a == \"\\q\"", "a == \"\\u12G4\"", "a == `\\", "a == ^A",
        "a == @", "a == true", "a == truex", "a == nottrue", "a == b", "true", "false == true", "a\u{0}b", "a b", "a 1", "1", "\"s\"", "^sym ^sym", "a and (b or c) and not d->e",
    ];
    for t in fixed {
        ctx.case("fixed", &format!("p {}", vx::h(t)));
    }
    // valid filters: every prefix, single mutations
    let nvalid = ctx.n(60, 600);
    let mut valid: Vec<String> = vec![
        "site and dis == \"Some site\"".into(),
        "a->b->c == 1 and not d or (e and f *== @x)".into(),
        "rel? ^sym @ref and x >= 2021-03-04T12:30:00-05:00 New_York".into(),
        "a == @x \"Dis \\\"q\\\"\" or b != `http://x/?a=1\\#f` or c < 12:30:00.5 or d > 2021-03-04".into(),
        "( ( a ) and ( b or ( not c ) ) )".into(),
        "n <= -1.5e-3kW and m == 100% and k == 1_000".into(),
    ];
    while (valid.len() as u64) < nvalid {
        let mut rng = ctx.rng.fork();
        let depth = if rng.chance(1, 3) { 1 } else { 0 };
        let f = c08::tree(&mut rng, depth, &c08::literal);
        let text = if rng.chance(1, 2) { c08::to_filter(&f).to_string() } else { c08::spell_top(&mut rng, &f).0 };
        if text.len() < 300 {
            valid.push(text);
        }
    }
    for v in &valid {
        let b = v.as_bytes();
        for k in 0..=b.len() {
            ctx.case("prefix", &format!("p {}", vx::hex(&b[..k])));
        }
    }
    let n = ctx.n(2500, 400_000);
    for _ in 0..n {
        let mut rng = ctx.rng.fork();
        let v = rng.pick(&valid).clone();
        let m = if rng.chance(1, 2) {
            let mut m = c08::mutate_text(&mut rng, &v);
            if rng.chance(1, 3) {
                m = c08::mutate_text(&mut rng, &m);
            }
            m.into_bytes()
        } else {
            // byte level (may break UTF-8)
            crate::c03::mutate_bytes(&mut rng, v.as_bytes())
        };
        ctx.case("mutant", &format!("p {}", vx::hex(&m)));
    }
    // EVERY string up to a length over the bytes the filter lexer dispatches on (see C03 `short:*`)
    {
        let alpha: &[u8] = b"a1-.=!<>()\"`@^* \n\\:T>e";
        let max_len = if ctx.quick() { 3 } else { 4 };
        let mut buf: Vec<u8> = Vec::new();
        fn rec(ctx: &mut Ctx, alpha: &[u8], buf: &mut Vec<u8>, left: usize) {
            ctx.case("short", &format!("p {}", vx::hex(buf)));
            if left == 0 {
                return;
            }
            for &b in alpha {
                buf.push(b);
                rec(ctx, alpha, buf, left - 1);
                buf.pop();
            }
        }
        rec(ctx, alpha, &mut buf, max_len);
        // and behind a complete term, where the parser is in another state
        let mut buf: Vec<u8> = Vec::new();
        fn rec2(ctx: &mut Ctx, alpha: &[u8], buf: &mut Vec<u8>, left: usize) {
            let mut t = b"a and b ".to_vec();
            t.extend_from_slice(buf);
            ctx.case("short", &format!("p {}", vx::hex(&t)));
            if left == 0 {
                return;
            }
            for &b in alpha {
                buf.push(b);
                rec2(ctx, alpha, buf, left - 1);
                buf.pop();
            }
        }
        rec2(ctx, alpha, &mut buf, max_len - 1);
    }
    // several hundred distinct VALID filters, every fifth padded with blanks / line breaks, one after the other on one
    // thread (a per-thread memo of parsed filters is filled, evicted and refilled on the way)
    for n in 0..330usize {
        let pad = ["", " ", "\n", "  \t", " \r\n"][n % 5];
        for t in [format!("point and curVal > {n}{pad}"), format!("{pad}site or equip and navName == \"n{n}\""), format!("a{n}->b == @r{n}{pad}")] {
            ctx.case("many", &format!("p {}", vx::hex(t.as_bytes())));
        }
    }
    // a non-ASCII character where a token would start, as the LAST character of the text (and followed by a blank)
    for tail in ["\u{a0}", "§", "…", "é", "😀", "\u{2028}", "€ "] {
        for head in ["", "site and equip", "site and equip ", "a == 1 or ", "not ", "(a and ", "a->"] {
            let t = format!("{head}{tail}");
            ctx.case("tail", &format!("p {}", vx::hex(t.as_bytes())));
        }
    }
    // token soup over the filter alphabet, random bytes
    let n = ctx.n(2500, 400_000);
    for _ in 0..n {
        let mut rng = ctx.rng.fork();
        let len = 1 + rng.below(40) as usize;
        let b: Vec<u8> = if rng.chance(1, 6) { (0..len).map(|_| rng.below(256) as u8).collect() } else { soup(&mut rng, len) };
        ctx.case(if std::str::from_utf8(&b).is_ok() { "soup" } else { "bytes" }, &format!("p {}", vx::hex(&b)));
    }
    // deep nesting and long repetitions, 1 … 10^5
    let depths: &[usize] = if ctx.quick() { &[1, 10, 63, 64, 65, 100, 1000, 100_000] } else { &[1, 2, 3, 10, 32, 63, 64, 65, 66, 100, 128, 500, 1000, 10_000, 100_000] };
    for &d in depths {
        for s in SHAPES {
            ctx.case("deep", &format!("deep {d} {s}"));
        }
    }
    // evaluation against cyclic resolvers
    let filters: &[&str] = &[
        "a->b->c == 1",
        "a->b->c",
        "not a->b->c",
        "a *== @x",
        "a*==@r0",
        "siteRef *== @r1",
        "equipRef *== @missing",
        "b *== @r2 or a *== @r0",
        "siteRef->siteRef->siteRef->equipRef->a == 1",
        "inputs? ^hot-water @r0",
        "inputs? ^hot-water @missing",
        "inputs? @r1",
        "inputs?",
        "inputs? ^air",
        "outputs? ^hot-water @r0",
        "outputs? @r2",
        "containedBy? ^site @r0",
        "containedBy? @r1",
        "contains? @r0",
        "rel? ^sym @ref",
        "siteRef? @r0",
        "( inputs? ^water @r2 ) and not a and b *== @r1",
        "^site or ^ahu and equipRef->siteRef->c",
    ];
    let n = ctx.n(400, 50_000);
    for i in 0..n {
        let mut rng = ctx.rng.fork();
        let mut recs = records(&mut rng);
        let f = filters[(i as usize) % filters.len()];
        if f.contains('?') {
            // the relationship model reads one record list for subjects and for resolved refs
            for r in recs.iter_mut() {
                r.remove("blank");
            }
        }
        let mut toks: Vec<String> = vec!["ev".into(), vx::h(f), recs.len().to_string()];
        for r in &recs {
            vx::w_dict(r, &mut toks);
        }
        ctx.case("ev", &toks.join(" "));
    }
    // evaluation against namespaces whose `is` lists form cycles (no rng: fixed cases)
    {
        use crate::c13::RowSpec;
        let sy = |s: &str| Some(s.to_string());
        let grids: Vec<Vec<RowSpec>> = vec![
            vec![RowSpec::plain("aa", vec![sy("bb")]), RowSpec::plain("bb", vec![sy("aa")])],
            vec![RowSpec::plain("aa", vec![sy("aa")]), RowSpec::plain("bb", vec![])],
            vec![
                RowSpec::plain("t", vec![sy("aa")]),
                RowSpec::plain("aa", vec![sy("b"), sy("c")]),
                RowSpec::plain("b", vec![sy("bb")]),
                RowSpec::plain("c", vec![sy("bb"), sy("zz")]),
                RowSpec::plain("bb", vec![sy("aa"), sy("m")]),
                RowSpec::plain("m", vec![]),
                RowSpec::plain("b-c", vec![sy("t")]),
                RowSpec::plain("inputs", vec![sy("inputs"), sy("relationship")]),
                RowSpec::plain("relationship", vec![sy("inputs")]),
            ],
        ];
        let mk = |tags: &[(&str, Value)]| {
            let mut d = Dict::new();
            for (k, v) in tags {
                d.insert(k.to_string(), v.clone());
            }
            d
        };
        let recs: Vec<Dict> = vec![
            mk(&[("id", Value::make_ref("r0")), ("aa", Value::make_marker())]),
            mk(&[("id", Value::make_ref("r1")), ("b", Value::make_marker()), ("c", Value::make_marker()), ("aaRef", Value::make_ref("r0"))]),
            mk(&[("id", Value::make_ref("r2")), ("m", Value::make_marker()), ("bb", Value::make_int(1)), ("inputs", Value::make_ref("r2"))]),
            mk(&[("q", Value::make_marker())]),
        ];
        let filters = ["^aa", "^bb", "^m", "^zz", "^t", "^b-c", "not q and ^aa", "^aa and ^zz or ^bb", "inputs? ^aa @r0", "inputs? ^bb", "inputs?", "relationship? @r2"];
        for rows in &grids {
            for f in filters {
                let mut toks: Vec<String> = vec!["evns".into(), vx::h(f)];
                crate::c13::write_rows(rows, &mut toks);
                toks.push(recs.len().to_string());
                for r in &recs {
                    vx::w_dict(r, &mut toks);
                }
                ctx.case("evns", &toks.join(" "));
            }
        }
    }
    let _ = (show_f, from_or, T::IsA(String::new()));
}
