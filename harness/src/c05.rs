//! C05 — Hayson JSON conforms to the Project Haystack JSON encoding in both directions.
//!
//! The independent implementation written from the specification is the pair
//!   reference WRITER  harness/src/jspell.rs (Rust; member order, optional members, number spellings at random)
//!   reference READER  lean/Hs/Spec/HaysonRead.lean (Lean; looks members up by name; request `C05 read J`)
//! input: `w <VX value>`          write direction: the reference reader must read serde_json::to_string(v) as v
//!        `r <seed> <VX value>`   read direction: from_str(jspell(v, seed)) must equal v in every component;
//!                                the reference reader must read the document as v too; the visitor model
//!                                (`C05 jdec J`) must agree with the implementation on it
//!        `x <hex JSON text>`     correspondence only (these are NOT Hayson documents: nothing is demanded of the
//!                                outcome): objects tagged marker/remove/na with further members before and/or
//!                                after `_kind`.  `visit_map` returns at `_kind` and serde_json refuses the map unless
//!                                nothing is left in it.  The model gets the members in the order the entry point
//!                                visits them: document order for from_str/from_slice, key order (last duplicate
//!                                wins) for from_value.

use crate::ctx::{CaseOut, Ctx};
use crate::gen::{self, Cfg};
use crate::jspell;
use crate::jtok;
use crate::rng::Rng;
use crate::same;
use crate::vx;
use libhaystack::val::*;

/// the VX text a reader must produce for `v` (an empty meta is an absent meta; NaN is NaN)
fn expected(v: &Value) -> String {
    fn norm(v: &Value) -> Value {
        match v {
            Value::List(l) => Value::List(l.iter().map(norm).collect()),
            Value::Dict(d) => Value::Dict(d.iter().map(|(k, v)| (k.clone(), norm(v))).collect()),
            Value::Grid(g) => {
                let nd = |d: &Dict| -> Dict { d.iter().map(|(k, v)| (k.clone(), norm(v))).collect() };
                Value::Grid(Grid {
                    meta: g.meta.as_ref().filter(|m| !m.is_empty()).map(nd),
                    columns: g.columns.iter().map(|c| Column { name: c.name.clone(), meta: c.meta.as_ref().filter(|m| !m.is_empty()).map(nd) }).collect(),
                    rows: g.rows.iter().map(nd).collect(),
                    ver: "3.0".into(),
                })
            }
            Value::Number(n) if n.value.is_nan() => Value::Number(Number { value: f64::NAN, unit: n.unit }),
            // -0.0 and 0.0 are the same real
            Value::Number(n) if n.value == 0.0 => Value::Number(Number { value: 0.0, unit: n.unit }),
            Value::Coord(c) => Value::Coord(Coord { lat: c.lat + 0.0, long: c.long + 0.0 }),
            other => other.clone(),
        }
    }
    vx::show(&norm(v))
}

/// the SHAPE of the lexical members the specification fixes: `YYYY-MM-DD`, `hh:mm:ss[.f+]`, RFC 3339 with `Z` or
/// `±hh:mm` (the reference reader hands these texts to chrono, which is more lenient than the specification)
fn lexical_shapes(j: &jtok::J, out: &mut CaseOut) {
    fn digits(s: &str, n: usize) -> bool {
        s.len() == n && s.bytes().all(|b| b.is_ascii_digit())
    }
    fn date_ok(s: &str) -> bool {
        let p: Vec<&str> = s.split('-').collect();
        p.len() == 3 && digits(p[0], 4) && digits(p[1], 2) && digits(p[2], 2)
    }
    fn time_ok(s: &str) -> bool {
        let (hms, frac) = match s.split_once('.') {
            Some((a, b)) => (a, Some(b)),
            None => (s, None),
        };
        let p: Vec<&str> = hms.split(':').collect();
        p.len() == 3 && p.iter().all(|x| digits(x, 2)) && frac.map_or(true, |f| !f.is_empty() && f.bytes().all(|b| b.is_ascii_digit()))
    }
    fn stamp_ok(s: &str) -> bool {
        let Some((d, rest)) = s.split_once('T') else { return false };
        if !date_ok(d) {
            return false;
        }
        if let Some(t) = rest.strip_suffix('Z') {
            return time_ok(t);
        }
        if rest.len() < 6 {
            return false;
        }
        let (t, off) = rest.split_at(rest.len() - 6);
        let ob = off.as_bytes();
        time_ok(t) && (ob[0] == b'+' || ob[0] == b'-') && digits(&off[1..3], 2) && ob[3] == b':' && digits(&off[4..6], 2)
    }
    match j {
        jtok::J::Arr(a) => a.iter().for_each(|x| lexical_shapes(x, out)),
        jtok::J::Obj(m) => {
            let kind = m.iter().find(|(k, _)| k == "_kind").and_then(|(_, v)| if let jtok::J::Str(s) = v { Some(s.as_str()) } else { None });
            let val = m.iter().find(|(k, _)| k == "val").and_then(|(_, v)| if let jtok::J::Str(s) = v { Some(s.as_str()) } else { None });
            if let (Some(k), Some(v)) = (kind, val) {
                let ok = match k {
                    "date" => date_ok(v),
                    "time" => time_ok(v),
                    "dateTime" => stamp_ok(v),
                    _ => true,
                };
                if !ok {
                    out.fail("write_not_hayson", format!("the encoder writes the {k} as {v:?}: not the form the specification prescribes"));
                }
            }
            m.iter().for_each(|(_, x)| lexical_shapes(x, out));
        }
        _ => {}
    }
}

pub fn exec(label: &str, input: &str, out: &mut CaseOut) {
    let (mode, rest) = input.split_once(' ').unwrap_or((input, ""));
    // `hist:` cases: the same exchange AFTER a history of rejected documents on this thread
    if label.starts_with("hist") {
        crate::c02::rejected_documents(40, out);
    }
    match mode {
        "w" => {
            let v = match vx::parse(rest) {
                Some(v) => v,
                None => return out.fail("harness", "unparsable VX input".into()),
            };
            out.nontrivial = true;
            out.stat(&format!("w:{}", crate::c01::kind_name(&v)));
            match serde_json::to_string(&v) {
                Ok(t) => match jtok::parse(&t) {
                    Some(j) => {
                        lexical_shapes(&j, out);
                        out.req(format!("C05 read {}", jtok::show_request(&j)), format!("ok {}", expected(&v)))
                    }
                    None => out.fail("not_json", format!("the encoder's output is not JSON: {t}")),
                },
                Err(e) => out.fail("enc_err", format!("serde_json::to_string failed on a well-formed value: {e}")),
            }
        }
        "r" => {
            let (seed, vtxt) = rest.split_once(' ').unwrap_or(("1", ""));
            let v = match vx::parse(vtxt) {
                Some(v) => v,
                None => return out.fail("harness", "unparsable VX input".into()),
            };
            out.nontrivial = true;
            out.stat(&format!("r:{}", crate::c01::kind_name(&v)));
            let mut rng = Rng::new(seed.parse().unwrap_or(1));
            let j = jspell::spell(&mut rng, &v);
            let t = jtok::to_text(&j);
            out.req(format!("C05 read {}", jtok::show_request(&j)), format!("ok {}", expected(&v)));
            match serde_json::from_str::<Value>(&t) {
                Err(e) => {
                    out.fail("read_rejects", format!("from_str rejects the Hayson document {t}: {e}"));
                    out.req(format!("C05 jdec {}", jtok::show_request(&j)), "err".into());
                }
                Ok(b) => {
                    if let Some(d) = same::diff(&v, &b, "v") {
                        out.fail("read_differs", format!("{d}   (document {t})"));
                    }
                    out.req(format!("C05 jdec {}", jtok::show_request(&j)), format!("ok {}", vx::show(&b)));
                }
            }
        }
        "x" => {
            let text = match vx::unh(rest) {
                Some(t) => t,
                None => return out.fail("harness", "unparsable hex input".into()),
            };
            let j = match jtok::parse(&text) {
                Some(j) => j,
                None => return out.fail("harness", format!("the generated text is not JSON: {text}")),
            };
            out.nontrivial = true;
            out.stat("x:early");
            let reply_of = |r: Result<Value, serde_json::Error>| match r {
                Ok(v) => format!("ok {}", vx::show(&v)),
                Err(_) => "err".to_string(),
            };
            // text entry points: members in document order
            let r_str = reply_of(serde_json::from_str::<Value>(&text));
            let r_slice = reply_of(serde_json::from_slice::<Value>(text.as_bytes()));
            out.stat(if r_str == "err" { "x:str:err" } else { "x:str:ok" });
            if r_str != r_slice {
                out.fail("entry_points", format!("from_str gives {r_str}, from_slice gives {r_slice} on {text}"));
            }
            out.req(format!("C05 jdec {}", jtok::show_request(&j)), r_str);
            // tree entry point: serde_json::Value keeps its members in key order, the last duplicate wins
            match serde_json::from_str::<serde_json::Value>(&text) {
                Ok(tree) => {
                    let r_val = reply_of(serde_json::from_value::<Value>(tree));
                    out.stat(if r_val == "err" { "x:value:err" } else { "x:value:ok" });
                    out.req(format!("C05 jdec {}", jtok::show_request(&key_order(&j))), r_val);
                }
                Err(e) => out.fail("harness", format!("serde_json::Value rejects {text}: {e}")),
            }
        }
        _ => out.fail("harness", format!("unknown mode {mode}")),
    }
}

/// the document as `serde_json::Value` holds it (no `preserve_order`): members of every object sorted by key,
/// of members with the same key the last one
fn key_order(j: &jtok::J) -> jtok::J {
    use jtok::J;
    match j {
        J::Arr(v) => J::Arr(v.iter().map(key_order).collect()),
        J::Obj(m) => {
            let mut map: std::collections::BTreeMap<String, J> = std::collections::BTreeMap::new();
            for (k, v) in m {
                map.insert(k.clone(), key_order(v));
            }
            J::Obj(map.into_iter().collect())
        }
        other => other.clone(),
    }
}

/// members added beside the `_kind` of every marker/remove/na object of a document, at random positions
fn inject(rng: &mut Rng, j: &jtok::J) -> jtok::J {
    use jtok::J;
    match j {
        J::Arr(v) => J::Arr(v.iter().map(|e| inject(rng, e)).collect()),
        J::Obj(m) => {
            let early = m.iter().any(|(k, v)| k == "_kind" && matches!(v, J::Str(s) if s == "marker" || s == "remove" || s == "na"));
            let mut out: Vec<(String, J)> = m.iter().map(|(k, v)| (k.clone(), inject(rng, v))).collect();
            if early && rng.chance(3, 4) {
                let n = 1 + rng.below(2);
                for _ in 0..n {
                    // keys that sort before `_kind` (upper case, digits) and after it (lower case)
                    let key = rng.pick(&["A", "Zz", "0", "a", "x", "val", "dis"]).to_string();
                    if out.iter().any(|(k, _)| *k == key) {
                        continue;
                    }
                    let val = match rng.below(5) {
                        0 => J::Num("1".into()),
                        1 => J::Str("s".into()),
                        2 => J::Obj(vec![("_kind".into(), J::Str("marker".into()))]),
                        3 => J::Obj(vec![("_kind".into(), J::Null)]), // does not decode
                        _ => J::Arr(vec![J::Bool(true)]),
                    };
                    let at = rng.below(out.len() as u64 + 1) as usize;
                    out.insert(at, (key, val));
                }
            }
            J::Obj(out)
        }
        other => other.clone(),
    }
}

fn early_cases(ctx: &mut Ctx) {
    // every arrangement of extra members around `_kind`, for the three kinds, in four contexts
    let extras: [(&str, &str); 9] = [
        ("", ""),
        ("", r#","x":1"#),
        ("", r#","A":1"#),
        (r#""x":1,"#, ""),
        (r#""A":1,"#, ""),
        (r#""A":1,"#, r#","x":1"#),
        (r#""A":{"_kind":null},"#, ""),
        ("", r#","x":{"_kind":null}"#),
        (r#""A":{"_kind":"marker","b":1},"#, ""),
    ];
    for kind in ["marker", "remove", "na"] {
        for (before, after) in extras {
            let d = format!(r#"{{{before}"_kind":"{kind}"{after}}}"#);
            let docs = [
                d.clone(),
                format!("[{d},1]"),
                format!(r#"{{"t":{d},"u":1}}"#),
                format!(r#"{{"_kind":"dict","t":{d}}}"#),
                format!(r#"{{"_kind":"grid","cols":[{{"name":"a"}}],"rows":[{{"a":{d}}}]}}"#),
                format!(r#"{{"_kind":"grid","meta":{{"m":{d}}},"cols":[{{"name":"a","meta":{{"c":{d}}}}}],"rows":[]}}"#),
            ];
            for doc in docs {
                ctx.case("x:fixed", &format!("x {}", vx::h(&doc)));
            }
        }
        // repeated `_kind` members
        for doc in [
            format!(r#"{{"_kind":"{kind}","_kind":"{kind}"}}"#),
            format!(r#"{{"_kind":"{kind}","_kind":"ref","val":"a"}}"#),
            format!(r#"{{"_kind":"ref","val":"a","_kind":"{kind}"}}"#),
            format!(r#"{{"_kind":"ref","_kind":"{kind}","val":"a"}}"#),
        ] {
            ctx.case("x:fixed", &format!("x {}", vx::h(&doc)));
        }
    }
    let n = ctx.n(600, 20_000);
    for i in 0..n {
        let mut rng = ctx.rng.fork();
        let mut cfg = Cfg::wf(if i % 5 == 0 { 4 } else { 2 });
        cfg.max_len = 4;
        // values rich in singletons: lists/dicts/grids of them
        let v = match i % 4 {
            0 => Value::List(vec![Value::Marker, Value::Na, gen::value(&mut rng, &cfg), Value::Remove]),
            1 => Value::Grid(gen::grid(&mut rng, &cfg, 0)),
            2 => {
                let mut d = gen::dict(&mut rng, &cfg, 0);
                d.insert("m".into(), Value::Marker);
                d.insert("n".into(), Value::Na);
                Value::Dict(d)
            }
            _ => gen::value(&mut rng, &cfg),
        };
        let j = jspell::spell(&mut rng, &v);
        let j2 = inject(&mut rng, &j);
        ctx.case("x:rand", &format!("x {}", vx::h(&jtok::to_text(&j2))));
    }
}

pub fn generate(ctx: &mut Ctx) {
    // documents read after a history of rejected documents on the same thread
    for depth in [1usize, 3, 20, 40, 60] {
        for kind in ["list", "dict", "grid", "mix"] {
            // serde_json refuses text nested deeper than 128: a grid level costs three JSON levels
            if (kind == "grid" && depth > 20) || (kind == "mix" && depth > 40) {
                continue;
            }
            let v = crate::c02::wf_chain(kind, depth);
            ctx.case("hist:chain", &format!("r {} {}", 7000 + depth, vx::show(&v)));
        }
    }
    for v in crate::c01::named_cases() {
        ctx.case("w:named", &format!("w {}", vx::show(&v)));
        for k in 0..8 {
            ctx.case("r:named", &format!("r {} {}", 1000 + k, vx::show(&v)));
        }
    }
    for x in gen::F64_EDGES.iter().copied().chain([f64::NAN, f64::INFINITY, f64::NEG_INFINITY]) {
        for unit in [None, libhaystack::units::get_unit("m")] {
            // "INF"/"-INF"/"NaN" with a unit is a Hayson document too (the unit is an optional member of every
            // number object): both directions keep it
            let v = Value::Number(Number { value: x, unit });
            ctx.case("w:num", &format!("w {}", vx::show(&v)));
            for k in 0..4 {
                ctx.case("r:num", &format!("r {} {}", 3000 + k, vx::show(&v)));
            }
        }
    }
    let n = ctx.n(2500, 120_000);
    for i in 0..n {
        let mut rng = ctx.rng.fork();
        let cfg = Cfg::wf(if i % 10 == 0 { 5 } else { 3 });
        let v = if i % 3 == 0 { Value::Grid(gen::grid(&mut rng, &cfg, 0)) } else { gen::value(&mut rng, &cfg) };
        let vt = vx::show(&v);
        ctx.case("w:rand", &format!("w {vt}"));
        let seed = rng.next() % 1_000_000;
        ctx.case("r:rand", &format!("r {seed} {vt}"));
        if i % 4 == 0 {
            ctx.case("r:rand", &format!("r {} {vt}", seed + 1));
        }
    }
    // thorough: all member permutations of objects with <= 5 members are approached by many seeds per value
    if !ctx.quick() {
        for i in 0..3000u64 {
            let mut rng = ctx.rng.fork();
            let mut cfg = Cfg::wf(2);
            cfg.max_len = 5;
            let v = if i % 2 == 0 { Value::Dict(gen::dict(&mut rng, &cfg, 0)) } else { gen::value(&mut rng, &cfg) };
            let vt = vx::show(&v);
            for k in 0..24 {
                ctx.case("r:perm", &format!("r {} {vt}", i * 24 + k));
            }
        }
    }
    // timestamps around daylight-saving transitions (both passes of the repeated hour) and in periods whose
    // zone offset has seconds
    for (i, dt) in gen::dst_edge_datetimes().into_iter().chain(gen::lmt_datetimes()).chain(gen::leap_datetimes()).enumerate() {
        let vt = vx::show(&Value::DateTime(dt));
        ctx.case("w:dst", &format!("w {vt}"));
        ctx.case("r:dst", &format!("r {} {vt}", 9000 + i));
    }
    // non-finite numbers with a unit inside collections
    for (i, x) in [f64::NAN, f64::INFINITY, f64::NEG_INFINITY].iter().enumerate() {
        let mut rng = ctx.rng.fork();
        let n = Value::Number(Number { value: *x, unit: Some(*rng.pick(gen::all_units_cached())) });
        let mut d = Dict::new();
        d.insert("limit".into(), n.clone());
        let g = Grid::make_from_dicts(vec![d.clone()]);
        for v in [Value::List(vec![n.clone(), Value::Marker]), Value::Dict(d.clone()), Value::Grid(g)] {
            let vt = vx::show(&v);
            ctx.case("w:num", &format!("w {vt}"));
            for k in 0..3 {
                ctx.case("r:num", &format!("r {} {vt}", 7000 + 10 * i + k));
            }
        }
    }
    early_cases(ctx);
}
