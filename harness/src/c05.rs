//! C05 — Hayson JSON conforms to the Project Haystack JSON encoding in both directions.
//!
//! The independent implementation written from the specification is the pair
//!   reference WRITER  harness/src/jspell.rs (Rust; member order, optional members, number spellings at random)
//!   reference READER  lean/Hs/Spec/HaysonRead.lean (Lean; looks members up by name; request `C05 read J`)
//! input: `w <VX value>`          write direction: the reference reader must read serde_json::to_string(v) as v
//!        `r <seed> <VX value>`   read direction: from_str(jspell(v, seed)) must equal v in every component;
//!                                the reference reader must read the document as v too; the visitor model
//!                                (`C05 jdec J`) must agree with the implementation on it

use crate::ctx::{CaseOut, Ctx};
use crate::gen::{self, Cfg};
use crate::jspell;
use crate::jtok;
use crate::rng::Rng;
use crate::same;
use crate::vx;
use libhaystack::val::*;

/// the VX text a reader must produce for `v` (an empty meta is an absent meta; NaN is NaN)
fn expected(v: &Value) -> String {
    fn norm(v: &Value) -> Value {
        match v {
            Value::List(l) => Value::List(l.iter().map(norm).collect()),
            Value::Dict(d) => Value::Dict(d.iter().map(|(k, v)| (k.clone(), norm(v))).collect()),
            Value::Grid(g) => {
                let nd = |d: &Dict| -> Dict { d.iter().map(|(k, v)| (k.clone(), norm(v))).collect() };
                Value::Grid(Grid {
                    meta: g.meta.as_ref().filter(|m| !m.is_empty()).map(nd),
                    columns: g.columns.iter().map(|c| Column { name: c.name.clone(), meta: c.meta.as_ref().filter(|m| !m.is_empty()).map(nd) }).collect(),
                    rows: g.rows.iter().map(nd).collect(),
                    ver: "3.0".into(),
                })
            }
            Value::Number(n) if n.value.is_nan() => Value::Number(Number { value: f64::NAN, unit: n.unit }),
            // -0.0 and 0.0 are the same real
            Value::Number(n) if n.value == 0.0 => Value::Number(Number { value: 0.0, unit: n.unit }),
            Value::Coord(c) => Value::Coord(Coord { lat: c.lat + 0.0, long: c.long + 0.0 }),
            other => other.clone(),
        }
    }
    vx::show(&norm(v))
}

pub fn exec(_label: &str, input: &str, out: &mut CaseOut) {
    let (mode, rest) = input.split_once(' ').unwrap_or((input, ""));
    match mode {
        "w" => {
            let v = match vx::parse(rest) {
                Some(v) => v,
                None => return out.fail("harness", "unparsable VX input".into()),
            };
            out.nontrivial = true;
            out.stat(&format!("w:{}", crate::c01::kind_name(&v)));
            match serde_json::to_string(&v) {
                Ok(t) => match jtok::parse(&t) {
                    Some(j) => out.req(format!("C05 read {}", jtok::show_request(&j)), format!("ok {}", expected(&v))),
                    None => out.fail("not_json", format!("the encoder's output is not JSON: {t}")),
                },
                Err(e) => out.fail("enc_err", format!("serde_json::to_string failed on a well-formed value: {e}")),
            }
        }
        "r" => {
            let (seed, vtxt) = rest.split_once(' ').unwrap_or(("1", ""));
            let v = match vx::parse(vtxt) {
                Some(v) => v,
                None => return out.fail("harness", "unparsable VX input".into()),
            };
            out.nontrivial = true;
            out.stat(&format!("r:{}", crate::c01::kind_name(&v)));
            let mut rng = Rng::new(seed.parse().unwrap_or(1));
            let j = jspell::spell(&mut rng, &v);
            let t = jtok::to_text(&j);
            out.req(format!("C05 read {}", jtok::show_request(&j)), format!("ok {}", expected(&v)));
            match serde_json::from_str::<Value>(&t) {
                Err(e) => {
                    out.fail("read_rejects", format!("from_str rejects the Hayson document {t}: {e}"));
                    out.req(format!("C05 jdec {}", jtok::show_request(&j)), "err".into());
                }
                Ok(b) => {
                    if let Some(d) = same::diff(&v, &b, "v") {
                        out.fail("read_differs", format!("{d}   (document {t})"));
                    }
                    out.req(format!("C05 jdec {}", jtok::show_request(&j)), format!("ok {}", vx::show(&b)));
                }
            }
        }
        _ => out.fail("harness", format!("unknown mode {mode}")),
    }
}

pub fn generate(ctx: &mut Ctx) {
    for v in crate::c01::named_cases() {
        ctx.case("w:named", &format!("w {}", vx::show(&v)));
        for k in 0..8 {
            ctx.case("r:named", &format!("r {} {}", 1000 + k, vx::show(&v)));
        }
    }
    for x in gen::F64_EDGES.iter().copied().chain([f64::NAN, f64::INFINITY, f64::NEG_INFINITY]) {
        for unit in [None, libhaystack::units::get_unit("m")] {
            if unit.is_some() && !x.is_finite() {
                continue;
            }
            let v = Value::Number(Number { value: x, unit });
            ctx.case("w:num", &format!("w {}", vx::show(&v)));
            for k in 0..4 {
                ctx.case("r:num", &format!("r {} {}", 3000 + k, vx::show(&v)));
            }
        }
    }
    let n = ctx.n(2500, 120_000);
    for i in 0..n {
        let mut rng = ctx.rng.fork();
        let cfg = Cfg::wf(if i % 10 == 0 { 5 } else { 3 });
        let v = if i % 3 == 0 { Value::Grid(gen::grid(&mut rng, &cfg, 0)) } else { gen::value(&mut rng, &cfg) };
        let vt = vx::show(&v);
        ctx.case("w:rand", &format!("w {vt}"));
        let seed = rng.next() % 1_000_000;
        ctx.case("r:rand", &format!("r {seed} {vt}"));
        if i % 4 == 0 {
            ctx.case("r:rand", &format!("r {} {vt}", seed + 1));
        }
    }
    // thorough: all member permutations of objects with <= 5 members are approached by many seeds per value
    if !ctx.quick() {
        for i in 0..3000u64 {
            let mut rng = ctx.rng.fork();
            let mut cfg = Cfg::wf(2);
            cfg.max_len = 5;
            let v = if i % 2 == 0 { Value::Dict(gen::dict(&mut rng, &cfg, 0)) } else { gen::value(&mut rng, &cfg) };
            let vt = vx::show(&v);
            for k in 0..24 {
                ctx.case("r:perm", &format!("r {} {vt}", i * 24 + k));
            }
        }
    }
}
