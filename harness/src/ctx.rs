//! Run context: case runner with panic capture, hang watchdog, progress file, statistics.

use crate::rng::Rng;
use std::collections::{BTreeMap, HashSet};
use std::fs::File;
use std::io::{BufWriter, Write};
use std::panic::{catch_unwind, AssertUnwindSafe};
use std::sync::atomic::{AtomicU64, Ordering};
use std::sync::Arc;
use std::time::{Duration, Instant};

#[derive(Clone, Copy, PartialEq, Eq, Debug)]
pub enum Tier {
    Quick,
    Thorough,
}

/// What one case produced.
#[derive(Default)]
pub struct CaseOut {
    /// correspondence: (request line for the Lean driver, implementation's canonical reply)
    pub reqs: Vec<(String, String)>,
    /// oracle failures: (kind, detail)
    pub fails: Vec<(String, String)>,
    /// branch / class counters for the evidence
    pub stats: Vec<String>,
    /// true if the case exercises more than a trivial shape (for distinct_nontrivial)
    pub nontrivial: bool,
}

impl CaseOut {
    pub fn req(&mut self, request: String, impl_reply: String) {
        self.reqs.push((request, impl_reply));
    }
    pub fn fail(&mut self, kind: &str, detail: String) {
        self.fails.push((kind.to_string(), detail));
    }
    pub fn stat(&mut self, key: &str) {
        self.stats.push(key.to_string());
    }
}

pub struct Ctx {
    pub prop: String,
    pub tier: Tier,
    pub seed: u64,
    pub rng: Rng,
    pub outdir: String,
    start_at: u64,
    exec: crate::ExecFn,
    case_no: u64,
    req_w: BufWriter<File>,
    impl_w: BufWriter<File>,
    fails_w: File,
    stats: BTreeMap<String, u64>,
    distinct: HashSet<u64>,
    evaluations: u64,
    samples: Vec<(String, String)>,
    n_req: u64,
    n_fail: u64,
    heartbeat: Arc<AtomicU64>,
    t0: Instant,
}

fn fnv(s: &str) -> u64 {
    let mut h: u64 = 0xcbf29ce484222325;
    for b in s.as_bytes() {
        h ^= *b as u64;
        h = h.wrapping_mul(0x100000001b3);
    }
    h
}

pub fn json_str(s: &str) -> String {
    let mut o = String::with_capacity(s.len() + 2);
    o.push('"');
    for c in s.chars() {
        match c {
            '"' => o.push_str("\\\""),
            '\\' => o.push_str("\\\\"),
            '\n' => o.push_str("\\n"),
            '\r' => o.push_str("\\r"),
            '\t' => o.push_str("\\t"),
            c if (c as u32) < 0x20 => o.push_str(&format!("\\u{:04x}", c as u32)),
            c => o.push(c),
        }
    }
    o.push('"');
    o
}

/// user + system CPU time of this process in ms (Linux: fields 14 and 15 of /proc/self/stat, in clock
/// ticks of 10 ms); a constant when it cannot be read, which leaves the 5x wall-clock rule alone in charge
fn process_cpu_ms() -> u64 {
    let Ok(s) = std::fs::read_to_string("/proc/self/stat") else { return u64::MAX / 4 };
    let Some(rest) = s.rfind(')').map(|i| &s[i + 1..]) else { return u64::MAX / 4 };
    let f: Vec<&str> = rest.split_whitespace().collect();
    // rest starts at field 3 (state); utime = field 14, stime = field 15
    match (f.get(11).and_then(|x| x.parse::<u64>().ok()), f.get(12).and_then(|x| x.parse::<u64>().ok())) {
        (Some(u), Some(st)) => (u + st) * 10,
        _ => u64::MAX / 4,
    }
}

/// set while the harness itself waits for a child process (the sanitizer build and runs of C18): the process is idle
/// then, and not deadlocked
pub static WAITING_FOR_CHILD: std::sync::atomic::AtomicBool = std::sync::atomic::AtomicBool::new(false);

fn stop_after() -> Option<u64> {
    static CELL: std::sync::OnceLock<Option<u64>> = std::sync::OnceLock::new();
    *CELL.get_or_init(|| std::env::var("VERIF_STOP_AFTER").ok().and_then(|s| s.parse().ok()))
}

impl Ctx {
    pub fn new(prop: &str, tier: Tier, seed: u64, outdir: &str, start_at: u64, exec: crate::ExecFn) -> Ctx {
        std::fs::create_dir_all(outdir).expect("outdir");
        let append = start_at > 0;
        let open = |name: &str| -> File {
            let path = format!("{outdir}/{name}");
            std::fs::OpenOptions::new()
                .create(true)
                .write(true)
                .append(append)
                .truncate(!append)
                .open(path)
                .expect("open out file")
        };
        let heartbeat = Arc::new(AtomicU64::new(0));
        let case_timeout_ms: u64 = std::env::var("VERIF_CASE_TIMEOUT_MS")
            .ok()
            .and_then(|s| s.parse().ok())
            .unwrap_or(10_000);
        {
            // watchdog: heartbeat holds the start time (ms since t0, +1) of the running case, 0 when idle.
            // A case is a hang when it is over its wall-clock allowance AND the process has burnt at least
            // half of it in CPU time since the case began (a spinning loop), or when it is over five times
            // the allowance whatever the CPU time (a deadlock).  The CPU condition keeps a machine that is
            // merely overloaded (the case descheduled, not running) from being mistaken for a hang.
            let hb = heartbeat.clone();
            let t0 = Instant::now();
            let od = outdir.to_string();
            std::thread::spawn(move || {
                let mut seen = 0u64;
                let mut cpu_at_start = 0u64;
                // third rule: the whole process has burnt (next to) no CPU time for 30 s while a case is running - every
                // thread is waiting, for longer than any deadline the harness itself sets (at most about 22 s): a deadlock,
                // whatever the case's wall-clock allowance is
                let mut idle_cpu = 0u64;
                let mut idle_since = 0u64;
                loop {
                    std::thread::sleep(Duration::from_millis(100));
                    let started = hb.load(Ordering::Relaxed);
                    if started == 0 {
                        seen = 0;
                        continue;
                    }
                    let now = t0.elapsed().as_millis() as u64 + 1;
                    if started != seen {
                        seen = started;
                        cpu_at_start = process_cpu_ms();
                        idle_cpu = cpu_at_start;
                        idle_since = now;
                    }
                    let cpu_now = process_cpu_ms();
                    if cpu_now > idle_cpu + 40 || WAITING_FOR_CHILD.load(Ordering::Relaxed) {
                        idle_cpu = cpu_now;
                        idle_since = now;
                    } else if now > idle_since + 30_000 {
                        let _ = std::fs::write(format!("{od}/hang"), b"hang\n");
                        std::process::exit(3);
                    }
                    if now > started + case_timeout_ms {
                        let cpu = process_cpu_ms().saturating_sub(cpu_at_start);
                        if cpu * 2 >= case_timeout_ms || now > started + 5 * case_timeout_ms {
                            let _ = std::fs::write(format!("{od}/hang"), b"hang\n");
                            std::process::exit(3);
                        }
                    }
                }
            });
        }
        Ctx {
            prop: prop.to_string(),
            tier,
            seed,
            rng: Rng::new(seed),
            outdir: outdir.to_string(),
            start_at,
            exec,
            case_no: 0,
            req_w: BufWriter::new(open("req.txt")),
            impl_w: BufWriter::new(open("impl.txt")),
            fails_w: open("fails.jsonl"),
            stats: BTreeMap::new(),
            distinct: HashSet::new(),
            evaluations: 0,
            samples: Vec::new(),
            n_req: 0,
            n_fail: 0,
            heartbeat,
            t0: Instant::now(),
        }
    }

    pub fn quick(&self) -> bool {
        self.tier == Tier::Quick
    }

    /// pick a size by tier
    pub fn n(&self, quick: u64, thorough: u64) -> u64 {
        if self.quick() {
            quick
        } else {
            thorough
        }
    }

    pub fn count(&mut self, key: &str) {
        *self.stats.entry(key.to_string()).or_insert(0) += 1;
    }

    /// Minimised past failures / disagreements, one `label\tinput` per line; run first.
    pub fn run_corpus(&mut self) {
        let root = std::env::var("VERIF_ROOT").unwrap_or_else(|_| "/verif".to_string());
        let path = format!("{root}/corpus/{}.txt", self.prop);
        if let Ok(text) = std::fs::read_to_string(&path) {
            for line in text.lines() {
                if line.starts_with('#') || line.trim().is_empty() {
                    continue;
                }
                if let Some((label, input)) = line.split_once('\t') {
                    self.count("corpus");
                    self.case(label, input);
                }
            }
        }
    }

    /// Run one case.  Cases before `start_at` (a restart after a hang/abort) are skipped, but
    /// generators still consume the same random numbers, so numbering is stable.
    pub fn case(&mut self, label: &str, input: &str) {
        let no = self.case_no;
        self.case_no += 1;
        if no < self.start_at {
            return;
        }
        // `VERIF_STOP_AFTER=<case>`: the replay of a crash that needs the cases before it runs the same process history
        // up to and including that case
        if let Some(stop) = stop_after() {
            if no > stop {
                return;
            }
        }
        // progress marker: survives an abort of this process
        let _ = std::fs::write(
            format!("{}/progress", self.outdir),
            format!("{no}\t{label}\t{input}\n"),
        );
        let mut out = CaseOut::default();
        let started = self.t0.elapsed().as_millis() as u64 + 1;
        self.heartbeat.store(started, Ordering::Relaxed);
        let exec = self.exec;
        let res = catch_unwind(AssertUnwindSafe(|| exec(label, input, &mut out)));
        self.heartbeat.store(0, Ordering::Relaxed);
        if res.is_err() {
            out.fail("panic", "the implementation (or the harness) panicked on this case".into());
        }
        self.evaluations += 1;
        let h = fnv(label) ^ fnv(input).rotate_left(17);
        if out.nontrivial && self.distinct.insert(h) && self.samples.len() < 8 && (no % 7 == 0 || self.samples.len() < 2) {
            self.samples.push((label.to_string(), input.chars().take(400).collect()));
        }
        self.count(&format!("label:{}", label.split(':').next().unwrap_or(label)));
        for s in &out.stats {
            *self.stats.entry(s.clone()).or_insert(0) += 1;
        }
        for (rq, rp) in &out.reqs {
            let _ = writeln!(self.req_w, "{rq}");
            let _ = writeln!(self.impl_w, "{no}\t{rp}");
            self.n_req += 1;
        }
        for (kind, detail) in &out.fails {
            self.n_fail += 1;
            let _ = writeln!(
                self.fails_w,
                "{{\"case\":{no},\"label\":{},\"input\":{},\"kind\":{},\"detail\":{}}}",
                json_str(label),
                json_str(input),
                json_str(kind),
                json_str(detail)
            );
        }
    }

    pub fn finish(&mut self) {
        let _ = self.req_w.flush();
        let _ = self.impl_w.flush();
        let mut s = String::new();
        s.push_str("{\n");
        s.push_str(&format!("  \"evaluations\": {},\n", self.evaluations));
        s.push_str(&format!("  \"distinct_nontrivial\": {},\n", self.distinct.len()));
        s.push_str(&format!("  \"requests\": {},\n", self.n_req));
        s.push_str(&format!("  \"oracle_failures\": {},\n", self.n_fail));
        s.push_str(&format!("  \"cases_total\": {},\n", self.case_no));
        s.push_str("  \"samples\": [");
        for (i, (l, inp)) in self.samples.iter().enumerate() {
            if i > 0 {
                s.push_str(", ");
            }
            s.push_str(&format!("{{\"label\":{},\"input\":{}}}", json_str(l), json_str(inp)));
        }
        s.push_str("],\n  \"distribution\": {");
        for (i, (k, v)) in self.stats.iter().enumerate() {
            if i > 0 {
                s.push_str(", ");
            }
            s.push_str(&format!("{}: {}", json_str(k), v));
        }
        s.push_str("}\n}\n");
        // a restarted run appends its own stats file; the driver merges them
        let name = format!("{}/stats.{}.json", self.outdir, self.start_at);
        let _ = std::fs::write(name, s);
        let _ = std::fs::remove_file(format!("{}/progress", self.outdir));
    }
}
