//! Structured generators for Haystack values (shared by all property modules).

use crate::rng::Rng;
use chrono::{NaiveDate, NaiveTime, TimeZone};
use libhaystack::units::units_generated::UNITS;
use libhaystack::units::Unit;
use libhaystack::val::*;

pub const F64_EDGES: &[f64] = &[
    0.0,
    -0.0,
    1.0,
    -1.0,
    -1.5,
    0.1,
    0.3333333333333333,
    1e-7,
    1.5e-7,
    1e21,
    1e20,
    -1e20,
    123456789012345680000.0,
    9007199254740992.0,
    9007199254740993.0,
    9223372036854775807.0,
    9223372036854775808.0,
    -9223372036854775808.0,
    -9223372036854777856.0,
    18446744073709551616.0,
    5e-324,
    2.2250738585072014e-308,
    1.7976931348623157e308,
    -1.7976931348623157e308,
    1.4947133146407339,
    100.0,
    42.0,
    -273.15,
    3.141592653589793,
    1e15,
    1e16,
    1e17,
    0.000001,
    1e-5,
    4503599627370497.5,
];

#[derive(Clone)]
pub struct Cfg {
    /// well-formed in the sense of C01 (identifier names, id alphabets, database units, ...)
    pub wf: bool,
    pub allow_nan: bool,
    pub allow_inf: bool,
    pub max_depth: u32,
    pub max_len: u64,
    /// only zones whose short name resolves back to the same zone
    pub unambiguous_zones: bool,
    /// allow a row without its cell in a single-column grid (known finding Z4)
    pub single_col_missing: bool,
}

impl Cfg {
    pub fn wf(depth: u32) -> Cfg {
        Cfg { wf: true, allow_nan: true, allow_inf: true, max_depth: depth, max_len: 4, unambiguous_zones: true, single_col_missing: false }
    }
    pub fn any(depth: u32) -> Cfg {
        Cfg { wf: false, allow_nan: true, allow_inf: true, max_depth: depth, max_len: 4, unambiguous_zones: false, single_col_missing: true }
    }
}

pub fn all_units() -> Vec<&'static Unit> {
    let mut v: Vec<&'static Unit> = Vec::new();
    let mut seen = std::collections::HashSet::new();
    let mut keys: Vec<&&str> = UNITS.keys().collect();
    keys.sort();
    for k in keys {
        let u = UNITS[*k];
        if seen.insert(u.name().to_string()) {
            v.push(u);
        }
    }
    v
}

pub fn all_zones() -> Vec<chrono_tz::Tz> {
    chrono_tz::TZ_VARIANTS.to_vec()
}

pub fn short_name(tz: &chrono_tz::Tz) -> String {
    let n = tz.name();
    n[n.find('/').map_or(0, |v| v + 1)..].to_string()
}

/// zones whose short name is not shared with any other zone of the database
pub fn unambiguous_zones() -> Vec<chrono_tz::Tz> {
    let zones = all_zones();
    let mut count = std::collections::HashMap::new();
    for z in &zones {
        *count.entry(short_name(z)).or_insert(0u32) += 1;
    }
    zones.into_iter().filter(|z| count[&short_name(z)] == 1).collect()
}

const ALPHA_LOWER: &str = "abcdefghijklmnopqrstuvwxyz";
const ALPHA_UPPER: &str = "ABCDEFGHIJKLMNOPQRSTUVWXYZ";
const DIGITS: &str = "0123456789";

fn pick_char(rng: &mut Rng, s: &str) -> char {
    let cs: Vec<char> = s.chars().collect();
    *rng.pick(&cs)
}

pub fn ident(rng: &mut Rng) -> String {
    // a few fixed names make key collisions between dicts likely
    if rng.chance(1, 2) {
        return rng.pick(&["a", "b", "c", "dis", "id", "site", "navName", "x1", "foo_Bar", "ver", "empty", "name"]).to_string();
    }
    let mut s = String::new();
    s.push(pick_char(rng, ALPHA_LOWER));
    let n = rng.below(6);
    for _ in 0..n {
        let class = rng.below(4);
        s.push(match class {
            0 => pick_char(rng, ALPHA_LOWER),
            1 => pick_char(rng, ALPHA_UPPER),
            2 => pick_char(rng, DIGITS),
            _ => '_',
        });
    }
    s
}

pub fn ref_id(rng: &mut Rng) -> String {
    if rng.chance(1, 3) {
        return rng.pick(&["a", "b", "p:demo:r:2a9f-1b", "site-1", "x.y_z~0", "A", "0"]).to_string();
    }
    let alphabet = "abcXYZ019_:-.~";
    let n = 1 + rng.below(8);
    (0..n).map(|_| pick_char(rng, alphabet)).collect()
}

pub fn symbol_body(rng: &mut Rng) -> String {
    let mut s = String::new();
    s.push(pick_char(rng, ALPHA_LOWER));
    let alphabet = "abcXYZ019_:-.~";
    let n = rng.below(8);
    for _ in 0..n {
        s.push(pick_char(rng, alphabet));
    }
    s
}

pub fn xstr_type(rng: &mut Rng) -> String {
    if rng.chance(1, 3) {
        return rng.pick(&["Bin", "Span", "Foo_1", "X"]).to_string();
    }
    let mut s = String::new();
    s.push(pick_char(rng, ALPHA_UPPER));
    let n = rng.below(5);
    for _ in 0..n {
        s.push(pick_char(rng, "abcXYZ019_"));
    }
    if s == "C" {
        // `C(` is the Coord literal: the grammar reserves this one type name
        s.push('x');
    }
    s
}

/// arbitrary Unicode text over a weighted alphabet of the troublesome classes
pub fn text(rng: &mut Rng) -> String {
    const SPECIAL: &[char] = &[
        '"', '\\', '$', '`', '\'', '\n', '\r', '\t', '\u{0}', '\u{8}', '\u{b}', '\u{c}', '\u{1f}', '\u{7f}', ' ', '{', '}', '<',
        '>', '[', ']', ',', ':', '/', '?', '#', '@', '&', '=', ';', '(', ')', 'é', 'ü', '€', '中', 'ℵ', '\u{ffff}', '😀', '𝒳',
        '\u{10ffff}', 'a', 'Z', '0', '_', 'u', 'n', 'b', 'f',
    ];
    if rng.chance(1, 24) {
        // neighbours at the top of the BMP (compatibility ideographs, presentation forms, full-width forms, the
        // private use area next to the surrogate block): two escapes `\uF9E1\uFF0C` in a row must stay two characters
        let hi = ['\u{f9e1}', '\u{fb56}', '\u{fb01}', '\u{f8ff}', '\u{e000}', '\u{d7ff}'];
        let lo = ['\u{ff0c}', '\u{fe8e}', '\u{ff43}', '\u{fffd}', '\u{fdd0}', '\u{fc00}'];
        let mut t = String::new();
        for _ in 0..1 + rng.below(3) {
            t.push(*rng.pick(&hi));
            t.push(*rng.pick(&lo));
        }
        return t;
    }
    let n = match rng.below(10) {
        0 => 0,
        1..=6 => 1 + rng.below(6),
        _ => 1 + rng.below(24),
    };
    (0..n)
        .map(|_| if rng.chance(1, 2) { *rng.pick(SPECIAL) } else { pick_char(rng, "abcdefgh XYZ 0123") })
        .collect()
}

/// Uri text: no control characters when well-formed
pub fn uri_text(rng: &mut Rng, wf: bool) -> String {
    let t = text(rng);
    if wf {
        t.chars().filter(|c| *c >= ' ' && *c != '\u{7f}').collect()
    } else {
        t
    }
}

pub fn f64_any(rng: &mut Rng, cfg: &Cfg) -> f64 {
    loop {
        let x = match rng.below(10) {
            0..=4 => *rng.pick(F64_EDGES),
            5 => f64::NAN,
            6 => {
                if rng.chance(1, 2) {
                    f64::INFINITY
                } else {
                    f64::NEG_INFINITY
                }
            }
            7 => rng.range(-1000, 1000) as f64,
            8 => (rng.range(-100000, 100000) as f64) / 100.0,
            _ => f64::from_bits(rng.next()),
        };
        if x.is_nan() && !cfg.allow_nan {
            continue;
        }
        if x.is_infinite() && !cfg.allow_inf {
            continue;
        }
        return x;
    }
}

pub fn number(rng: &mut Rng, cfg: &Cfg) -> Number {
    let x = f64_any(rng, cfg);
    let units = all_units_cached();
    let unit = if rng.chance(2, 5) { Some(*rng.pick(units)) } else { None };
    if cfg.wf && !x.is_finite() {
        Number { value: x, unit: None }
    } else {
        Number { value: x, unit }
    }
}

pub fn all_units_cached() -> &'static Vec<&'static Unit> {
    use std::sync::OnceLock;
    static CELL: OnceLock<Vec<&'static Unit>> = OnceLock::new();
    CELL.get_or_init(all_units)
}
pub fn zones_cached(unambiguous: bool) -> &'static Vec<chrono_tz::Tz> {
    use std::sync::OnceLock;
    static ALL: OnceLock<Vec<chrono_tz::Tz>> = OnceLock::new();
    static UNAMB: OnceLock<Vec<chrono_tz::Tz>> = OnceLock::new();
    if unambiguous {
        UNAMB.get_or_init(unambiguous_zones)
    } else {
        ALL.get_or_init(all_zones)
    }
}

pub fn date(rng: &mut Rng) -> NaiveDate {
    loop {
        let y = match rng.below(6) {
            0 => 0,
            1 => 9999,
            2 => rng.range(0, 9999) as i32,
            _ => rng.range(1970, 2060) as i32,
        };
        let m = rng.range(1, 12) as u32;
        let d = rng.range(1, 31) as u32;
        if let Some(d) = NaiveDate::from_ymd_opt(y, m, d) {
            return d;
        }
    }
}

pub fn subsec(rng: &mut Rng) -> u32 {
    match rng.below(6) {
        0 | 1 => 0,
        2 => (rng.below(1000) as u32) * 1_000_000,
        3 => (rng.below(1_000_000) as u32) * 1000,
        4 => rng.below(1_000_000_000) as u32,
        _ => *rng.pick(&[1u32, 999_999_999, 500_000_000, 100, 120_000_000]),
    }
}

pub fn time(rng: &mut Rng) -> NaiveTime {
    let h = rng.below(24) as u32;
    let m = rng.below(60) as u32;
    let s = rng.below(60) as u32;
    if rng.chance(1, 16) {
        // a leap second: chrono keeps `hh:mm:60[.f]` as second 59 with a nanosecond field of 10^9 or more; both
        // decoders accept such texts, so these Times are constructible and every encoder must cope with them
        return NaiveTime::from_hms_nano_opt(h, m, 59, 1_000_000_000 + subsec(rng)).unwrap();
    }
    NaiveTime::from_hms_nano_opt(h, m, s, subsec(rng)).unwrap()
}

pub fn datetime(rng: &mut Rng, cfg: &Cfg) -> DateTime {
    let zones = zones_cached(cfg.unambiguous_zones);
    let tz = if rng.chance(1, 4) {
        chrono_tz::UTC
    } else if rng.chance(1, 3) {
        *rng.pick(&[
            chrono_tz::Australia::Sydney,
            chrono_tz::Asia::Kolkata,
            chrono_tz::America::New_York,
            chrono_tz::Pacific::Kiritimati,
            chrono_tz::Asia::Kathmandu,
            chrono_tz::Europe::London,
            chrono_tz::America::St_Johns,
            chrono_tz::Pacific::Chatham,
            chrono_tz::Etc::GMTPlus12,
        ])
    } else {
        *rng.pick(zones)
    };
    // 1980-01-01 .. 2060-01-01
    let secs = rng.range(315_532_800, 2_840_140_800);
    let dt = tz.timestamp_opt(secs, subsec(rng)).single().unwrap();
    DateTime::from(dt)
}

/// timestamps IN a leap second (`23:59:60` UTC and the same instant on other wall clocks, with and without a
/// fraction): chrono keeps them as second 59 with 10^9 or more nanoseconds; the RFC 3339 readers accept `:60`
pub fn leap_datetimes() -> Vec<DateTime> {
    let mut v = Vec::new();
    // 2016-12-31T23:59:59Z and 2015-06-30T23:59:59Z
    for secs in [1_483_228_799i64, 1_435_708_799] {
        for ns in [1_000_000_000u32, 1_500_000_000, 1_000_000_001, 1_999_999_999] {
            for tz in [chrono_tz::UTC, chrono_tz::America::New_York, chrono_tz::Asia::Kolkata, chrono_tz::Australia::Sydney] {
                if let Some(d) = tz.timestamp_opt(secs, ns).single() {
                    v.push(DateTime::from(d));
                }
            }
        }
    }
    v
}

/// timestamps in periods in which the zone's own offset is not a whole number of minutes (local mean time
/// before standard time; Amsterdam until 1937, Monrovia until 1972): the offset written in text has minute
/// precision, the wall clock time is exact
pub fn lmt_datetimes() -> Vec<DateTime> {
    let zones = [
        chrono_tz::Asia::Krasnoyarsk,
        chrono_tz::America::New_York,
        chrono_tz::Europe::Paris,
        chrono_tz::Europe::Amsterdam,
        chrono_tz::Asia::Kolkata,
        chrono_tz::Australia::Sydney,
        chrono_tz::Europe::Dublin,
        chrono_tz::Africa::Monrovia,
        chrono_tz::America::Caracas,
        chrono_tz::Pacific::Honolulu,
        chrono_tz::Asia::Tokyo,
        chrono_tz::America::St_Johns,
    ];
    let mut out = Vec::new();
    for tz in zones {
        for secs in [-24_000_000_000i64, -10_000_000_017, -3_000_000_000, -2_500_000_001, -2_000_000_000, -1_500_000_000, -1_000_000_000, -100_000_000] {
            for ns in [0u32, 500_000_000, 123_456_789] {
                if let Some(dt) = tz.timestamp_opt(secs, ns).single() {
                    out.push(DateTime::from(dt));
                }
            }
        }
    }
    out
}

/// timestamps around the offset transitions of a few zones in one year: one second before/after
/// the transition, and inside the repeated / after the skipped local hour
pub fn dst_edge_datetimes() -> Vec<DateTime> {
    use chrono::Offset;
    let zones = [
        chrono_tz::America::New_York,
        chrono_tz::America::Chicago,
        chrono_tz::Europe::Berlin,
        chrono_tz::Europe::London,
        chrono_tz::Australia::Sydney,
        chrono_tz::Australia::Lord_Howe,
        chrono_tz::America::St_Johns,
        chrono_tz::Pacific::Chatham,
        chrono_tz::Asia::Tehran,
        chrono_tz::America::Sao_Paulo,
    ];
    let mut out = Vec::new();
    for tz in zones {
        // 2018-01-01 .. 2022-01-01 in 30 minute steps
        let mut t: i64 = 1_514_764_800;
        let end: i64 = 1_640_995_200;
        let mut prev = tz.timestamp_opt(t, 0).single().unwrap().offset().fix().local_minus_utc();
        let mut found = 0;
        while t < end && found < 6 {
            t += 1800;
            let off = tz.timestamp_opt(t, 0).single().unwrap().offset().fix().local_minus_utc();
            if off != prev {
                found += 1;
                for d in [-3601i64, -1800, -1, 0, 1, 900, 1799, 1800, 3599, 3600, 5400] {
                    for ns in [0u32, 500_000_000] {
                        out.push(DateTime::from(tz.timestamp_opt(t - 1800 + d, ns).single().unwrap()));
                    }
                }
                prev = off;
            }
        }
    }
    out
}

pub fn coord(rng: &mut Rng, cfg: &Cfg) -> Coord {
    if cfg.wf {
        let lat = match rng.below(4) {
            0 => *rng.pick(&[0.0, -0.0, 90.0, -90.0, 45.5, 1e-7, 37.545826]),
            _ => (rng.range(-90_000_000, 90_000_000) as f64) / 1e6,
        };
        let lng = match rng.below(4) {
            0 => *rng.pick(&[0.0, -0.0, 180.0, -180.0, 77.449, 1.5e-7, -122.41]),
            _ => (rng.range(-180_000_000, 180_000_000) as f64) / 1e6,
        };
        Coord { lat, long: lng }
    } else {
        Coord { lat: f64_any(rng, cfg), long: f64_any(rng, cfg) }
    }
}

pub fn name_any(rng: &mut Rng, cfg: &Cfg, f: fn(&mut Rng) -> String) -> String {
    if cfg.wf || rng.chance(2, 3) {
        f(rng)
    } else {
        text(rng)
    }
}

pub fn scalar(rng: &mut Rng, cfg: &Cfg) -> Value {
    match rng.below(15) {
        0 => Value::Null,
        1 => Value::Remove,
        2 => Value::Marker,
        3 => Value::make_bool(rng.chance(1, 2)),
        4 => Value::Na,
        5 => Value::Number(number(rng, cfg)),
        6 => Value::Str(Str { value: text(rng) }),
        7 => Value::Uri(Uri { value: uri_text(rng, cfg.wf) }),
        8 => {
            let id = name_any(rng, cfg, ref_id);
            let dis = if rng.chance(1, 2) { Some(text(rng)) } else { None };
            Value::Ref(Ref { value: id, dis })
        }
        9 => Value::Symbol(Symbol { value: name_any(rng, cfg, symbol_body) }),
        10 => Value::Date(Date::from(date(rng))),
        11 => Value::Time(Time::from(time(rng))),
        12 => Value::DateTime(datetime(rng, cfg)),
        13 => Value::Coord(coord(rng, cfg)),
        _ => Value::XStr(XStr { r#type: name_any(rng, cfg, xstr_type), value: text(rng) }),
    }
}

pub fn dict(rng: &mut Rng, cfg: &Cfg, depth: u32) -> Dict {
    let n = rng.below(cfg.max_len + 1);
    let mut d = Dict::new();
    for _ in 0..n {
        let k = name_any(rng, cfg, ident);
        d.insert(k, value_at(rng, cfg, depth + 1));
    }
    d
}

pub fn grid(rng: &mut Rng, cfg: &Cfg, depth: u32) -> Grid {
    let ncols = if cfg.wf { 1 + rng.below(4) } else { rng.below(4) };
    let mut names: Vec<String> = Vec::new();
    for _ in 0..ncols {
        let n = name_any(rng, cfg, ident);
        if !cfg.wf || !names.contains(&n) {
            names.push(n);
        }
    }
    let columns: Vec<Column> = names
        .iter()
        .map(|n| Column {
            name: n.clone(),
            meta: match rng.below(4) {
                0 => Some(dict(rng, cfg, depth + 1)),
                1 => Some(Dict::new()),
                _ => None,
            },
        })
        .collect();
    let nrows = match rng.below(4) {
        0 => 0,
        _ => rng.below(cfg.max_len + 1),
    };
    let mut rows = Vec::new();
    for _ in 0..nrows {
        let mut r = Dict::new();
        for n in &names {
            match rng.below(5) {
                0 if names.len() > 1 || cfg.single_col_missing => {}
                0 | 1 => {
                    r.insert(n.clone(), Value::Null);
                }
                _ => {
                    r.insert(n.clone(), value_at(rng, cfg, depth + 1));
                }
            }
        }
        if !cfg.wf && rng.chance(1, 4) {
            r.insert(name_any(rng, cfg, ident), value_at(rng, cfg, depth + 1));
        }
        rows.push(r);
    }
    let meta = match rng.below(4) {
        0 => {
            let mut m = dict(rng, cfg, depth + 1);
            if cfg.wf {
                // Hayson keeps the grid version in meta.ver: the name is reserved
                m.remove("ver");
            }
            Some(m)
        }
        1 => Some(Dict::new()),
        _ => None,
    };
    let ver = if cfg.wf || rng.chance(3, 4) { "3.0".to_string() } else { text(rng) };
    Grid { meta, columns, rows, ver }
}

pub fn value_at(rng: &mut Rng, cfg: &Cfg, depth: u32) -> Value {
    if depth >= cfg.max_depth || rng.chance(3, 5) {
        return scalar(rng, cfg);
    }
    match rng.below(3) {
        0 => {
            let n = rng.below(cfg.max_len + 1);
            Value::List((0..n).map(|_| value_at(rng, cfg, depth + 1)).collect())
        }
        1 => Value::Dict(dict(rng, cfg, depth)),
        _ => Value::Grid(grid(rng, cfg, depth)),
    }
}

pub fn value(rng: &mut Rng, cfg: &Cfg) -> Value {
    value_at(rng, cfg, 0)
}

/// A small mutation of a value: used to make near-collisions for C12.
pub fn mutate(rng: &mut Rng, v: &Value, cfg: &Cfg) -> Value {
    match v {
        Value::Number(n) => {
            let units = all_units_cached();
            match rng.below(5) {
                0 => Value::Number(Number { value: -n.value, unit: n.unit }),
                1 => Value::Number(Number { value: n.value, unit: Some(*rng.pick(units)) }),
                2 => Value::Number(Number { value: n.value, unit: None }),
                3 => Value::Number(Number { value: f64::from_bits(n.value.to_bits() ^ 1), unit: n.unit }),
                _ => Value::Number(Number { value: n.value + 1.0, unit: n.unit }),
            }
        }
        Value::Str(s) => match rng.below(4) {
            0 => Value::Uri(Uri { value: s.value.clone() }),
            1 => Value::Symbol(Symbol { value: s.value.clone() }),
            2 => Value::Str(Str { value: format!("{}a", s.value) }),
            _ => Value::Ref(Ref { value: s.value.clone(), dis: None }),
        },
        Value::Uri(s) => Value::Str(Str { value: s.value.clone() }),
        Value::Symbol(s) => Value::Str(Str { value: s.value.clone() }),
        Value::Ref(r) => match rng.below(3) {
            0 => Value::Ref(Ref { value: r.value.clone(), dis: Some(text(rng)) }),
            1 => Value::Ref(Ref { value: r.value.clone(), dis: None }),
            _ => Value::Ref(Ref { value: format!("{}b", r.value), dis: r.dis.clone() }),
        },
        Value::XStr(x) => match rng.below(2) {
            0 => Value::XStr(XStr { r#type: x.r#type.clone(), value: format!("{}z", x.value) }),
            _ => Value::XStr(XStr { r#type: format!("{}Z", x.r#type), value: x.value.clone() }),
        },
        Value::DateTime(dt) => {
            // same instant, different zone
            let zones = zones_cached(false);
            let tz = *rng.pick(zones);
            match rng.below(2) {
                0 => Value::DateTime(DateTime::from(dt.with_timezone(&tz))),
                _ => Value::DateTime(DateTime::from(*dt.clone() + chrono::Duration::nanoseconds(1))),
            }
        }
        Value::Coord(c) => match rng.below(3) {
            0 => Value::Coord(Coord { lat: -c.lat, long: c.long }),
            1 => Value::Coord(Coord { lat: c.lat, long: -c.long }),
            _ => Value::Coord(Coord { lat: c.long, long: c.lat }),
        },
        Value::List(l) => {
            let mut l2 = l.clone();
            match rng.below(4) {
                0 => {
                    l2.pop();
                }
                1 => l2.push(scalar(rng, cfg)),
                2 if !l2.is_empty() => {
                    let i = rng.below(l2.len() as u64) as usize;
                    l2[i] = mutate(rng, &l2[i].clone(), cfg);
                }
                _ => l2.reverse(),
            }
            Value::List(l2)
        }
        Value::Dict(d) => Value::Dict(mutate_dict(rng, d, cfg)),
        Value::Grid(g) => {
            let mut g2 = g.clone();
            match rng.below(5) {
                0 => g2.meta = g2.meta.map(|m| mutate_dict(rng, &m, cfg)).or(Some(Dict::new())),
                1 => {
                    g2.rows.pop();
                }
                2 if !g2.rows.is_empty() => {
                    let i = rng.below(g2.rows.len() as u64) as usize;
                    g2.rows[i] = mutate_dict(rng, &g2.rows[i].clone(), cfg);
                }
                3 if !g2.columns.is_empty() => {
                    let i = rng.below(g2.columns.len() as u64) as usize;
                    g2.columns[i].meta = Some(mutate_dict(rng, &g2.columns[i].meta.clone().unwrap_or_default(), cfg));
                }
                _ => g2.meta = None,
            }
            Value::Grid(g2)
        }
        Value::Bool(b) => Value::make_bool(!b.value),
        Value::Null => Value::Marker,
        Value::Marker => Value::Na,
        Value::Na => Value::Remove,
        Value::Remove => Value::Null,
        Value::Date(_) => Value::Date(Date::from(date(rng))),
        Value::Time(_) => Value::Time(Time::from(time(rng))),
    }
}

pub fn mutate_dict(rng: &mut Rng, d: &Dict, cfg: &Cfg) -> Dict {
    let mut d2 = d.clone();
    let keys: Vec<String> = d.keys().cloned().collect();
    match rng.below(4) {
        0 if !keys.is_empty() => {
            let k = rng.pick(&keys).clone();
            d2.remove(&k);
        }
        1 if !keys.is_empty() => {
            let k = rng.pick(&keys).clone();
            let v = mutate(rng, &d2[&k].clone(), cfg);
            d2.insert(k, v);
        }
        2 if !keys.is_empty() => {
            // rename one key, keep the value
            let k = rng.pick(&keys).clone();
            let v = d2.remove(&k).unwrap();
            d2.insert(format!("{k}x"), v);
        }
        _ => {
            d2.insert(ident(rng), scalar(rng, cfg));
        }
    }
    d2
}

/// `hsverif dump zones`: the zone list of the compiled chrono-tz, one IANA id per line
pub fn dump(what: &str) {
    match what {
        "zones" => {
            for z in all_zones() {
                println!("{}", z.name());
            }
        }
        "units" => {
            for u in all_units() {
                println!("{}\t{}", u.name(), u.symbol());
            }
        }
        "c19" => crate::c19::dump_tables(),
        "c20" => crate::c20::dump_tables(),
        "zesc" => crate::c04::dump_tables(),
        "c06" => crate::c06::dump_tables(),
        "scanread" => crate::c11::dump_tables(),
        _ => {
            eprintln!("unknown dump {what}");
            std::process::exit(2);
        }
    }
}
