// (included by c17.rs)  The real thing: the `extern "C"` functions on real handles.

static BAD_UTF8: [u8; 3] = [0xff, 0xfe, 0];

/// functions called so far in this process (coverage)
pub static CALLED: Mutex<BTreeSet<&'static str>> = Mutex::new(BTreeSet::new());

#[derive(Default)]
pub struct CSide {
    pub vals: BTreeMap<usize, *mut Value>,
    pub flts: BTreeMap<usize, *mut Filter>,
    pub strs: BTreeMap<usize, *mut c_char>,
    pub next: usize,
    pub fnext: usize,
    pub snext: usize,
}

/// keeps the C strings of one call alive
struct Keep(Vec<CString>);
impl Keep {
    fn ptr(&mut self, c: &CS) -> *const c_char {
        match c {
            CS::Null => std::ptr::null(),
            CS::Bad => BAD_UTF8.as_ptr() as *const c_char,
            CS::BadIn(a, b) => {
                let mut bytes = a.as_bytes().to_vec();
                bytes.push(0xF0);
                bytes.extend_from_slice(b.as_bytes());
                self.0.push(CString::new(bytes).expect("C string arguments are NUL free"));
                self.0.last().unwrap().as_ptr()
            }
            CS::Ok(s) => {
                self.0.push(CString::new(s.as_str()).expect("C string arguments are NUL free"));
                self.0.last().unwrap().as_ptr()
            }
        }
    }
}

impl CSide {
    fn vp(&self, p: Option<usize>) -> *mut Value {
        p.and_then(|k| self.vals.get(&k).copied()).unwrap_or(std::ptr::null_mut())
    }
    fn fp(&self, p: Option<usize>) -> *mut Filter {
        p.and_then(|k| self.flts.get(&k).copied()).unwrap_or(std::ptr::null_mut())
    }
    fn handle(&mut self, b: Option<Box<Value>>) -> String {
        match b {
            None => NULLP.into(),
            Some(b) => {
                let k = self.next;
                self.next += 1;
                self.vals.insert(k, Box::into_raw(b));
                format!("h{k}")
            }
        }
    }
    /// an owned C string result: registered in a slot (destroyed later by `haystack_string_destroy`)
    fn string(&mut self, p: *const c_char, tag: char) -> String {
        if p.is_null() {
            return NULLP.into();
        }
        let k = self.snext;
        self.snext += 1;
        self.strs.insert(k, p as *mut c_char);
        if tag == 'e' {
            return "e".into();
        }
        let bytes = unsafe { CStr::from_ptr(p) }.to_bytes();
        match std::str::from_utf8(bytes) {
            Ok(s) => format!("s{}", vx::h(s)),
            Err(_) => format!("s!{}", vx::hex(bytes)),
        }
    }
    pub fn snapshot(&self) -> Vec<(usize, String)> {
        self.vals.iter().map(|(k, p)| (*k, vx::show(unsafe { &**p }))).collect()
    }
    pub fn show_of(&self, k: usize) -> Option<String> {
        self.vals.get(&k).map(|p| vx::show(unsafe { &**p }))
    }

    /// Destroy everything that is still alive, each object exactly once by its destroy function.
    pub fn destroy_all(&mut self) {
        unsafe {
            for (_, p) in std::mem::take(&mut self.vals) {
                cval::haystack_value_destroy(p);
            }
            for (_, p) in std::mem::take(&mut self.flts) {
                cfilter::haystack_filter_destroy(p);
            }
            for (_, p) in std::mem::take(&mut self.strs) {
                cstr::haystack_string_destroy(p);
            }
        }
    }

    pub fn step(&mut self, call: &Call) -> String {
        let name = call.name();
        CALLED.lock().unwrap().insert(name);
        let mut keep = Keep(Vec::new());
        unsafe {
            match name {
                "haystack_value_init" => self.handle(Some(cval::haystack_value_init())),
                "haystack_value_destroy" => {
                    let p = self.vp(call.v(0));
                    if let Some(k) = call.v(0) {
                        self.vals.remove(&k);
                    }
                    if !p.is_null() {
                        cval::haystack_value_destroy(p);
                    }
                    "v".into()
                }
                "haystack_value_make_marker" => self.handle(Some(cval::haystack_value_make_marker())),
                "haystack_value_make_na" => self.handle(Some(cval::haystack_value_make_na())),
                "haystack_value_make_remove" => self.handle(Some(cval::haystack_value_make_remove())),
                "haystack_value_make_list" => self.handle(Some(cval::haystack_value_make_list())),
                "haystack_value_make_dict" => self.handle(Some(cval::haystack_value_make_dict())),
                "haystack_value_make_grid" => self.handle(Some(cval::haystack_value_make_grid())),
                "haystack_value_make_bool" => self.handle(Some(cval::haystack_value_make_bool(call.b(0)))),
                "haystack_value_make_number" => self.handle(Some(cval::haystack_value_make_number(call.x(0)))),
                "haystack_value_make_number_with_unit" => {
                    let u = keep.ptr(call.c(1));
                    self.handle(cval::haystack_value_make_number_with_unit(call.x(0), u))
                }
                "haystack_value_make_coord" => self.handle(Some(cval::haystack_value_make_coord(call.x(0), call.x(1)))),
                "haystack_value_make_str" => {
                    let s = keep.ptr(call.c(0));
                    self.handle(cval::haystack_value_make_str(s))
                }
                "haystack_value_make_ref" => {
                    let s = keep.ptr(call.c(0));
                    self.handle(cval::haystack_value_make_ref(s))
                }
                "haystack_value_make_uri" => {
                    let s = keep.ptr(call.c(0));
                    self.handle(cval::haystack_value_make_uri(s))
                }
                "haystack_value_make_symbol" => {
                    let s = keep.ptr(call.c(0));
                    self.handle(cval::haystack_value_make_symbol(s))
                }
                "haystack_value_make_ref_with_dis" => {
                    let a = keep.ptr(call.c(0));
                    let b = keep.ptr(call.c(1));
                    self.handle(cval::haystack_value_make_ref_with_dis(a, b))
                }
                "haystack_value_make_xstr" => {
                    let a = keep.ptr(call.c(0));
                    let b = keep.ptr(call.c(1));
                    self.handle(cval::haystack_value_make_xstr(a, b))
                }
                "haystack_value_make_time" => {
                    self.handle(cval::haystack_value_make_time(call.n(0) as u32, call.n(1) as u32, call.n(2) as u32))
                }
                "haystack_value_make_time_millis" => self.handle(cval::haystack_value_make_time_millis(
                    call.n(0) as u32,
                    call.n(1) as u32,
                    call.n(2) as u32,
                    call.n(3) as u32,
                )),
                "haystack_value_make_date" => {
                    self.handle(cval::haystack_value_make_date(call.i(0) as i32, call.n(1) as u32, call.n(2) as u32))
                }
                "haystack_value_make_utc_datetime" => {
                    self.handle(cval::haystack_value_make_utc_datetime(self.vp(call.v(0)), self.vp(call.v(1))))
                }
                "haystack_value_make_tz_datetime" => {
                    let tz = keep.ptr(call.c(2));
                    self.handle(cval::haystack_value_make_tz_datetime(self.vp(call.v(0)), self.vp(call.v(1)), tz))
                }
                "haystack_value_is_null" => bool_text(cval::haystack_value_is_null(self.vp(call.v(0)))).into(),
                "haystack_value_is_marker" => bool_text(cval::haystack_value_is_marker(self.vp(call.v(0)))).into(),
                "haystack_value_is_na" => bool_text(cval::haystack_value_is_na(self.vp(call.v(0)))).into(),
                "haystack_value_is_remove" => bool_text(cval::haystack_value_is_remove(self.vp(call.v(0)))).into(),
                "haystack_value_is_bool" => bool_text(cval::haystack_value_is_bool(self.vp(call.v(0)))).into(),
                "haystack_value_is_number" => bool_text(cval::haystack_value_is_number(self.vp(call.v(0)))).into(),
                "haystack_value_is_coord" => bool_text(cval::haystack_value_is_coord(self.vp(call.v(0)))).into(),
                "haystack_value_is_str" => bool_text(cval::haystack_value_is_str(self.vp(call.v(0)))).into(),
                "haystack_value_is_ref" => bool_text(cval::haystack_value_is_ref(self.vp(call.v(0)))).into(),
                "haystack_value_is_uri" => bool_text(cval::haystack_value_is_uri(self.vp(call.v(0)))).into(),
                "haystack_value_is_symbol" => bool_text(cval::haystack_value_is_symbol(self.vp(call.v(0)))).into(),
                "haystack_value_is_xstr" => bool_text(cval::haystack_value_is_xstr(self.vp(call.v(0)))).into(),
                "haystack_value_is_time" => bool_text(cval::haystack_value_is_time(self.vp(call.v(0)))).into(),
                "haystack_value_is_date" => bool_text(cval::haystack_value_is_date(self.vp(call.v(0)))).into(),
                "haystack_value_is_datetime" => bool_text(cval::haystack_value_is_datetime(self.vp(call.v(0)))).into(),
                "haystack_value_is_list" => bool_text(cval::haystack_value_is_list(self.vp(call.v(0)))).into(),
                "haystack_value_is_dict" => bool_text(cval::haystack_value_is_dict(self.vp(call.v(0)))).into(),
                "haystack_value_is_grid" => bool_text(cval::haystack_value_is_grid(self.vp(call.v(0)))).into(),
                "haystack_value_get_number_value" => f64_text(cnum::haystack_value_get_number_value(self.vp(call.v(0)))),
                "haystack_value_number_has_unit" => res_text(cnum::haystack_value_number_has_unit(self.vp(call.v(0)))).into(),
                "haystack_value_get_number_unit" => {
                    let p = cnum::haystack_value_get_number_unit(self.vp(call.v(0)));
                    self.string(p, 's')
                }
                "haystack_value_get_str_len" => format!("n{}", cstr::haystack_value_get_str_len(self.vp(call.v(0)))),
                "haystack_value_get_str_value" => {
                    let p = cstr::haystack_value_get_str_value(self.vp(call.v(0)));
                    self.string(p, 's')
                }
                "haystack_value_get_ref_value_len" => format!("n{}", cref::haystack_value_get_ref_value_len(self.vp(call.v(0)))),
                "haystack_value_get_ref_value" => {
                    let p = cref::haystack_value_get_ref_value(self.vp(call.v(0)));
                    self.string(p, 's')
                }
                "haystack_value_get_ref_dis" => {
                    let p = cref::haystack_value_get_ref_dis(self.vp(call.v(0)));
                    self.string(p, 's')
                }
                "haystack_value_get_symbol_value_len" => {
                    format!("n{}", csym::haystack_value_get_symbol_value_len(self.vp(call.v(0))))
                }
                "haystack_value_get_symbol_value" => {
                    let p = csym::haystack_value_get_symbol_value(self.vp(call.v(0)));
                    self.string(p, 's')
                }
                "haystack_value_get_uri_value_len" => format!("n{}", curi::haystack_value_get_uri_value_len(self.vp(call.v(0)))),
                "haystack_value_get_uri_value" => {
                    let p = curi::haystack_value_get_uri_value(self.vp(call.v(0)));
                    self.string(p, 's')
                }
                "haystack_value_get_xstr_type" => {
                    let p = cxstr::haystack_value_get_xstr_type(self.vp(call.v(0)));
                    self.string(p, 's')
                }
                "haystack_value_get_xstr_value" => {
                    let p = cxstr::haystack_value_get_xstr_value(self.vp(call.v(0)));
                    self.string(p, 's')
                }
                "haystack_value_get_coord_lat" => f64_text(ccoord::haystack_value_get_coord_lat(self.vp(call.v(0)))),
                "haystack_value_get_coord_long" => f64_text(ccoord::haystack_value_get_coord_long(self.vp(call.v(0)))),
                "haystack_value_get_date_year" => format!("n{}", cdate::haystack_value_get_date_year(self.vp(call.v(0)))),
                "haystack_value_get_date_month" => format!("n{}", cdate::haystack_value_get_date_month(self.vp(call.v(0)))),
                "haystack_value_get_date_day" => format!("n{}", cdate::haystack_value_get_date_day(self.vp(call.v(0)))),
                "haystack_value_get_time_hour" => format!("n{}", ctime::haystack_value_get_time_hour(self.vp(call.v(0)))),
                "haystack_value_get_time_minutes" => format!("n{}", ctime::haystack_value_get_time_minutes(self.vp(call.v(0)))),
                "haystack_value_get_time_seconds" => format!("n{}", ctime::haystack_value_get_time_seconds(self.vp(call.v(0)))),
                "haystack_value_get_time_millis" => format!("n{}", ctime::haystack_value_get_time_millis(self.vp(call.v(0)))),
                "haystack_value_get_datetime_timezone" => {
                    let p = cdt::haystack_value_get_datetime_timezone(self.vp(call.v(0)));
                    self.string(p, 's')
                }
                "haystack_value_get_datetime_date" => res_text(cdt::haystack_value_get_datetime_date(
                    self.vp(call.v(0)),
                    call.b(1),
                    self.vp(call.v(2)),
                ))
                .into(),
                "haystack_value_get_datetime_time" => res_text(cdt::haystack_value_get_datetime_time(
                    self.vp(call.v(0)),
                    call.b(1),
                    self.vp(call.v(2)),
                ))
                .into(),
                "haystack_value_get_list_len" => format!("n{}", clist::haystack_value_get_list_len(self.vp(call.v(0)))),
                "haystack_value_push_list_entry" => {
                    res_text(clist::haystack_value_push_list_entry(self.vp(call.v(0)), self.vp(call.v(1)))).into()
                }
                "haystack_value_get_list_entry_at" => {
                    let mut res: *const Value = std::ptr::null();
                    let rp: *mut *const Value = if call.b(2) { &mut res } else { std::ptr::null_mut() };
                    let r = clist::haystack_value_get_list_entry_at(self.vp(call.v(0)), call.n(1) as usize, rp);
                    borrowed(r, res)
                }
                "haystack_value_set_list_entry_at" => res_text(clist::haystack_value_set_list_entry_at(
                    self.vp(call.v(0)),
                    call.n(1) as usize,
                    self.vp(call.v(2)),
                ))
                .into(),
                "haystack_value_remove_list_entry_at" => {
                    res_text(clist::haystack_value_remove_list_entry_at(self.vp(call.v(0)), call.n(1) as usize)).into()
                }
                "haystack_value_get_dict_len" => format!("n{}", cdict::haystack_value_get_dict_len(self.vp(call.v(0)))),
                "haystack_value_get_dict_keys" => {
                    res_text(cdict::haystack_value_get_dict_keys(self.vp(call.v(0)), self.vp(call.v(1)))).into()
                }
                "haystack_value_insert_dict_entry" => {
                    let k = keep.ptr(call.c(1));
                    res_text(cdict::haystack_value_insert_dict_entry(self.vp(call.v(0)), k, self.vp(call.v(2)))).into()
                }
                "haystack_value_get_dict_entry" => {
                    let k = keep.ptr(call.c(1));
                    let mut res: *const Value = std::ptr::null();
                    let rp: *mut *const Value = if call.b(2) { &mut res } else { std::ptr::null_mut() };
                    let r = cdict::haystack_value_get_dict_entry(self.vp(call.v(0)), k, rp);
                    borrowed(r, res)
                }
                "haystack_value_remove_dict_entry" => {
                    let k = keep.ptr(call.c(1));
                    res_text(cdict::haystack_value_remove_dict_entry(self.vp(call.v(0)), k)).into()
                }
                "haystack_value_get_grid_len" => format!("n{}", cgrid::haystack_value_get_grid_len(self.vp(call.v(0)))),
                "haystack_value_make_grid_from_rows" => self.handle(cgrid::haystack_value_make_grid_from_rows(self.vp(call.v(0)))),
                "haystack_value_make_grid_from_rows_with_meta" => self.handle(
                    cgrid::haystack_value_make_grid_from_rows_with_meta(self.vp(call.v(0)), self.vp(call.v(1))),
                ),
                "haystack_value_get_grid_row_at" => res_text(cgrid::haystack_value_get_grid_row_at(
                    self.vp(call.v(0)),
                    call.n(1) as usize,
                    self.vp(call.v(2)),
                ))
                .into(),
                "haystack_value_to_zinc_string" => {
                    let p = czinc::haystack_value_to_zinc_string(self.vp(call.v(0)));
                    self.string(p, 's')
                }
                "haystack_value_from_zinc_string" => {
                    let s = keep.ptr(call.c(0));
                    self.handle(czinc::haystack_value_from_zinc_string(s))
                }
                "haystack_value_to_json_string" => {
                    let p = cjson::haystack_value_to_json_string(self.vp(call.v(0)));
                    self.string(p, 's')
                }
                "haystack_value_from_json_string" => {
                    let s = keep.ptr(call.c(0));
                    self.handle(cjson::haystack_value_from_json_string(s))
                }
                "haystack_filter_parse" => {
                    let s = keep.ptr(call.c(0));
                    match cfilter::haystack_filter_parse(s) {
                        None => NULLP.into(),
                        Some(b) => {
                            let k = self.fnext;
                            self.fnext += 1;
                            self.flts.insert(k, Box::into_raw(b));
                            format!("f{k}")
                        }
                    }
                }
                "haystack_filter_destroy" => {
                    let p = self.fp(call.v(0));
                    if let Some(k) = call.v(0) {
                        self.flts.remove(&k);
                    }
                    cfilter::haystack_filter_destroy(p);
                    "v".into()
                }
                "haystack_filter_match_dict" => {
                    res_text(cfilter::haystack_filter_match_dict(self.fp(call.v(0)), self.vp(call.v(1)))).into()
                }
                "haystack_filter_first_match_in_grid" => res_text(cfilter::haystack_filter_first_match_in_grid(
                    self.fp(call.v(0)),
                    self.vp(call.v(1)),
                    self.vp(call.v(2)),
                ))
                .into(),
                "haystack_filter_match_all_grid" => res_text(cfilter::haystack_filter_match_all_grid(
                    self.fp(call.v(0)),
                    self.vp(call.v(1)),
                    self.vp(call.v(2)),
                ))
                .into(),
                "haystack_string_destroy" => {
                    if let Some(k) = call.v(0) {
                        if let Some(p) = self.strs.remove(&k) {
                            cstr::haystack_string_destroy(p);
                        }
                    }
                    "v".into()
                }
                "last_error_message" => {
                    let p = cerr::last_error_message();
                    self.string(p, 'e')
                }
                _ => panic!("no C call for {name}"),
            }
        }
    }
}

/// `TRUE` + the entry the out pointer now refers to (read through the borrowed pointer right away,
/// while its container is alive and unmodified)
unsafe fn borrowed(r: ResultType, res: *const Value) -> String {
    if r == ResultType::TRUE {
        if res.is_null() {
            "r1 & (null entry pointer)".into()
        } else {
            format!("r1 & {}", vx::show(&*res))
        }
    } else {
        res_text(r).into()
    }
}
