// (included by c17.rs)  Running a history on both sides, the oracles, the generators.

/// what running one history produced
#[derive(Default)]
pub struct HistOut {
    /// request tokens for the Lean driver (calls + ext results)
    pub req: String,
    /// canonical reply of the implementation
    pub reply: String,
    /// (oracle kind, detail)
    pub fails: Vec<(String, String)>,
    pub stats: Vec<String>,
    /// objects alive after the last call, before the final clean-up: (values, strings, filters)
    pub live: (Vec<usize>, Vec<usize>, Vec<usize>),
    pub n_calls: usize,
    pub n_failed: usize,
    /// canonical answer of the last call and whether an error message was retrievable after it
    pub last_reply: String,
    pub last_ref_failed: bool,
}

fn join_pool(p: &[(usize, String)]) -> String {
    p.iter().map(|(k, v)| format!("{k}={v}")).collect::<Vec<_>>().join(" , ")
}

/// Runs a history on the real C API and on the reference, compares them call by call.
/// Everything that is still alive at the end is destroyed exactly once (the ownership protocol).
pub fn run_history(calls: &[Call]) -> HistOut {
    let mut out = HistOut::default();
    let mut c = CSide::default();
    let mut r = Shadow::default();
    let mut req: Vec<String> = Vec::new();
    let mut replies: Vec<String> = Vec::new();
    // the most recent failed call and the C side's raw answer to it
    let mut last_failed: Option<(Call, String)> = None;
    for (no, call) in calls.iter().enumerate() {
        let before = c.snapshot();
        let ans = r.step(call);
        let mut got = c.step(call);
        if ans.failed {
            last_failed = Some((call.clone(), got.clone()));
        } else if call.name() != "last_error_message" {
            // a successful call may have changed the pool: the failed call is no longer repeatable as it was
            last_failed = None;
        } else if got == "e" {
            // The message taken is the one of the MOST RECENT failed call, however many failures went
            // unread before it.  A failed call changes nothing, so it can be repeated on the same state:
            // the message it leaves when nothing else is pending is what has just been read.
            if let Some((fc, first)) = last_failed.take() {
                let text = |p: *const c_char| unsafe { CStr::from_ptr(p) }.to_bytes().to_vec();
                let taken = c.strs.values().next_back().map(|p| text(*p as *const c_char));
                let again = c.step(&fc);
                let fresh = unsafe {
                    let p = cerr::last_error_message();
                    if p.is_null() {
                        None
                    } else {
                        let t = text(p);
                        cstr::haystack_string_destroy(p as *mut c_char);
                        Some(t)
                    }
                };
                out.stats.push("error_message_compared".into());
                if again != first || c.snapshot() != before {
                    out.fails.push(("failed_call_not_repeatable".into(), format!("`{}` answered `{first}`, repeated on the unchanged pool `{again}`", fc.show())));
                } else if taken != fresh {
                    let s = |b: &Option<Vec<u8>>| b.as_ref().map(|b| String::from_utf8_lossy(b).into_owned());
                    out.fails.push((
                        "stale_error_message".into(),
                        format!("call {no}: last_error_message gave {:?}, but the most recent failed call `{}` leaves {:?}", s(&taken), fc.show(), s(&fresh)),
                    ));
                }
            }
        }
        out.n_calls += 1;
        out.stats.push(format!("fn:{}", call.name()));
        req.push(call.show());
        req.extend(ans.ext.iter().cloned());
        let after = c.snapshot();
        // the handle the call writes to
        let mut want = ans.reply.clone();
        if let Some(k) = ans.target {
            if let Some(v) = c.show_of(k) {
                got.push_str(" => ");
                got.push_str(&v);
            }
            if let Some(v) = r.vals.get(&k) {
                want.push_str(" => ");
                want.push_str(&vx::show(v));
            }
        }
        if got != want {
            out.fails.push((
                "c_vs_rust".into(),
                format!("call {no} `{}`: the C API answered `{got}`, the Rust API `{want}`", call.show()),
            ));
        }
        if ans.failed {
            out.n_failed += 1;
            out.stats.push("call_failed".into());
            if before != after {
                out.fails.push((
                    "pool_changed_on_error".into(),
                    format!("call {no} `{}` failed but the handles changed: {} -> {}", call.show(), join_pool(&before), join_pool(&after)),
                ));
            }
        } else {
            out.stats.push("call_ok".into());
        }
        let ref_pool = r.snapshot();
        if after != ref_pool {
            out.fails.push((
                "pool_mismatch".into(),
                format!("after call {no} `{}`: C handles {} but Rust values {}", call.show(), join_pool(&after), join_pool(&ref_pool)),
            ));
        }
        if no + 1 == calls.len() {
            out.last_reply = got.clone();
            out.last_ref_failed = ans.failed;
        }
        replies.push(got);
    }
    out.live = (
        c.vals.keys().copied().collect(),
        c.strs.keys().copied().collect(),
        c.flts.keys().copied().collect(),
    );
    let pool = c.snapshot();
    // the pending error: observable only by taking it
    let pending = unsafe {
        let p = cerr::last_error_message();
        if p.is_null() {
            false
        } else {
            cstr::haystack_string_destroy(p as *mut c_char);
            true
        }
    };
    if pending != r.err {
        out.fails.push((
            "error_flag".into(),
            format!("at the end an error message is {} but the Rust side says {}", if pending { "pending" } else { "absent" }, r.err),
        ));
    }
    let fl: Vec<String> = c.flts.keys().map(|k| k.to_string()).collect();
    out.reply = format!(
        "{} || {} || f:{} || e{}",
        replies.join(" | "),
        join_pool(&pool),
        fl.join(","),
        if pending { 1 } else { 0 }
    );
    out.req = req.join(" ");
    c.destroy_all();
    out
}

pub fn exec(label: &str, input: &str, out: &mut CaseOut) {
    if label == "inventory" {
        let names: Vec<&str> = FUNCS.iter().map(|(n, _)| *n).collect();
        out.req(format!("C17 inventory {}", names.join(" ")), format!("ok {}", names.len()));
        out.nontrivial = true;
        return;
    }
    if label == "coverage" {
        // replayed on its own: run the tour first
        if CALLED.lock().unwrap().is_empty() {
            let t = tour();
            let _ = run_history(&t);
        }
        let called = CALLED.lock().unwrap();
        let missing: Vec<&str> = FUNCS.iter().map(|(n, _)| *n).filter(|n| !called.contains(n)).collect();
        out.stat(&format!("functions_called:{}", called.len()));
        if !missing.is_empty() {
            out.fail("uncovered", format!("functions never called in this run: {}", missing.join(" ")));
        }
        return;
    }
    let calls = match parse_history(input) {
        Some(c) => c,
        None => {
            out.fail("harness", "unparsable C17 history".into());
            return;
        }
    };
    let h = run_history(&calls);
    out.nontrivial = h.n_calls >= 2;
    for s in &h.stats {
        out.stat(s);
    }
    let mut first = true;
    for (k, d) in h.fails {
        if first {
            first = false;
            let small = minimise(&calls, &k);
            out.fail(&k, format!("{d} -- minimised history ({} of {} calls): {}", small.len(), calls.len(), show_history(&small)));
        } else {
            out.fail(&k, d);
        }
    }
    out.req(format!("C17 hist {}", h.req), h.reply);
}

/// A shorter history on which the same oracle still fails: cut after the failing call, then drop calls
/// that hand out nothing (handle, string and filter ids of the remaining calls stay what they were).
pub fn minimise(calls: &[Call], kind: &str) -> Vec<Call> {
    let fails = |cs: &[Call]| run_history(cs).fails.iter().any(|(k, _)| k == kind);
    let t0 = std::time::Instant::now();
    let mut cur: Vec<Call> = calls.to_vec();
    // shortest failing prefix (binary search is not sound for non-monotone oracles: scan)
    for n in 1..cur.len() {
        if t0.elapsed().as_secs() >= 3 {
            break;
        }
        if fails(&cur[..n]) {
            cur.truncate(n);
            break;
        }
    }
    // which calls hand out an object (reference view)
    let mut i = 0;
    while i + 1 < cur.len() && t0.elapsed().as_secs() < 6 {
        let mut sh = Shadow::default();
        let mut hands_out = false;
        for (j, c) in cur.iter().enumerate() {
            let (a, b, d) = (sh.next, sh.snext, sh.fnext);
            let _ = sh.step(c);
            if j == i {
                hands_out = (sh.next, sh.snext, sh.fnext) != (a, b, d);
                break;
            }
        }
        if !hands_out {
            let mut cand = cur.clone();
            cand.remove(i);
            if fails(&cand) {
                cur = cand;
                continue;
            }
        }
        i += 1;
    }
    cur
}

// ------------------------------------------------------------------------------------------------
// generators
// ------------------------------------------------------------------------------------------------

fn cs(s: &str) -> A {
    A::C(CS::Ok(s.replace('\0', "")))
}

/// A fixed history that calls every function of the table at least once (valid arguments).
pub fn tour() -> Vec<Call> {
    let text = [
        "haystack_value_init", // @0 result slot
        "haystack_value_make_marker",
        "haystack_value_make_na",
        "haystack_value_make_remove",
        "haystack_value_make_list", // @4
        "haystack_value_make_dict", // @5
        "haystack_value_make_grid", // @6
    ]
    .join(" ");
    let mut calls = parse_history(&text).unwrap();
    let v = |k: usize| A::V(Some(k));
    let mut add = |name: &str, args: Vec<A>| calls.push(Call::new(name, args));
    add("haystack_value_make_bool", vec![A::B(true)]); // @7
    add("haystack_value_make_number", vec![A::X(42.5)]); // @8
    add("haystack_value_make_number_with_unit", vec![A::X(1.0), cs("m")]); // @9
    add("haystack_value_make_coord", vec![A::X(1.5), A::X(-2.5)]); // @10
    add("haystack_value_make_str", vec![cs("héllo")]); // @11
    add("haystack_value_make_ref", vec![cs("a-b")]); // @12
    add("haystack_value_make_uri", vec![cs("/a/b")]); // @13
    add("haystack_value_make_symbol", vec![cs("site")]); // @14
    add("haystack_value_make_ref_with_dis", vec![cs("r1"), cs("Dis")]); // @15
    add("haystack_value_make_xstr", vec![cs("Foo"), cs("bar")]); // @16
    add("haystack_value_make_time", vec![A::N(12), A::N(34), A::N(56)]); // @17
    add("haystack_value_make_time_millis", vec![A::N(1), A::N(2), A::N(3), A::N(4)]); // @18
    add("haystack_value_make_date", vec![A::I(2021), A::N(8), A::N(13)]); // @19
    add("haystack_value_make_utc_datetime", vec![v(19), v(17)]); // @20
    add("haystack_value_make_tz_datetime", vec![v(19), v(18), cs("Sydney")]); // @21
    for (n, _) in FUNCS.iter().filter(|(n, _)| n.starts_with("haystack_value_is_")) {
        add(n, vec![v(8)]);
    }
    for (n, k) in [
        ("haystack_value_get_number_value", 9),
        ("haystack_value_number_has_unit", 9),
        ("haystack_value_get_number_unit", 9),
        ("haystack_value_get_str_len", 11),
        ("haystack_value_get_str_value", 11),
        ("haystack_value_get_ref_value_len", 15),
        ("haystack_value_get_ref_value", 15),
        ("haystack_value_get_ref_dis", 15),
        ("haystack_value_get_symbol_value_len", 14),
        ("haystack_value_get_symbol_value", 14),
        ("haystack_value_get_uri_value_len", 13),
        ("haystack_value_get_uri_value", 13),
        ("haystack_value_get_xstr_type", 16),
        ("haystack_value_get_xstr_value", 16),
        ("haystack_value_get_coord_lat", 10),
        ("haystack_value_get_coord_long", 10),
        ("haystack_value_get_date_year", 19),
        ("haystack_value_get_date_month", 19),
        ("haystack_value_get_date_day", 19),
        ("haystack_value_get_time_hour", 18),
        ("haystack_value_get_time_minutes", 18),
        ("haystack_value_get_time_seconds", 18),
        ("haystack_value_get_time_millis", 18),
        ("haystack_value_get_datetime_timezone", 21),
    ] {
        add(n, vec![v(k)]);
    }
    add("haystack_value_get_datetime_date", vec![v(21), A::B(false), v(0)]);
    add("haystack_value_get_datetime_time", vec![v(21), A::B(true), v(0)]);
    add("haystack_value_insert_dict_entry", vec![v(5), cs("site"), v(1)]);
    add("haystack_value_insert_dict_entry", vec![v(5), cs("dis"), v(11)]);
    add("haystack_value_get_dict_len", vec![v(5)]);
    add("haystack_value_get_dict_entry", vec![v(5), cs("dis"), A::O(true)]);
    add("haystack_value_get_dict_keys", vec![v(5), v(0)]);
    add("haystack_value_push_list_entry", vec![v(4), v(5)]);
    add("haystack_value_push_list_entry", vec![v(4), v(8)]);
    add("haystack_value_get_list_len", vec![v(4)]);
    add("haystack_value_get_list_entry_at", vec![v(4), A::N(1), A::O(true)]);
    add("haystack_value_set_list_entry_at", vec![v(4), A::N(1), v(5)]);
    add("haystack_value_make_grid_from_rows", vec![v(4)]); // @22
    add("haystack_value_make_grid_from_rows_with_meta", vec![v(4), v(5)]); // @23
    add("haystack_value_get_grid_len", vec![v(23)]);
    add("haystack_value_get_grid_row_at", vec![v(23), A::N(1), v(0)]);
    add("haystack_value_remove_list_entry_at", vec![v(4), A::N(0)]);
    add("haystack_value_remove_dict_entry", vec![v(5), cs("dis")]);
    add("haystack_value_to_zinc_string", vec![v(23)]);
    add("haystack_value_to_json_string", vec![v(23)]);
    add("haystack_value_from_zinc_string", vec![cs("[1, \"a\", @r \"d\"]")]); // @24
    add("haystack_value_from_json_string", vec![cs("{\"a\": 1, \"b\": {\"_kind\": \"marker\"}}")]); // @25
    add("haystack_filter_parse", vec![cs("site and a")]); // %0
    add("haystack_filter_parse", vec![cs("site")]); // %1
    add("haystack_filter_match_dict", vec![A::F(Some(1)), v(5)]);
    add("haystack_filter_first_match_in_grid", vec![A::F(Some(1)), v(23), v(0)]);
    add("haystack_filter_match_all_grid", vec![A::F(Some(1)), v(23), v(0)]);
    add("haystack_filter_destroy", vec![A::F(Some(0))]);
    add("haystack_value_is_str", vec![A::V(None)]);
    add("last_error_message", vec![]);
    add("haystack_string_destroy", vec![A::SP(Some(0))]);
    add("haystack_value_destroy", vec![v(3)]);
    calls
}

/// Look-alike texts through the text entry points, one after the other on one thread: filters and documents that
/// differ only INSIDE a literal (a run of blanks, letter case).  Whatever a text entry point keeps between calls (a
/// cache keyed by a normalised text) must not answer a later text with an earlier one's result: every handle is
/// then USED (matched against records that tell the look-alikes apart; written back as text).
pub fn lookalikes() -> Vec<Call> {
    let mut calls: Vec<Call> = Vec::new();
    let v = |k: usize| A::V(Some(k));
    let mut add = |name: &str, args: Vec<A>| calls.push(Call::new(name, args));
    add("haystack_value_from_zinc_string", vec![cs("{dis:\"Main AHU\" site}")]); // @0
    add("haystack_value_from_zinc_string", vec![cs("{dis:\"Main  AHU\" site}")]); // @1
    add("haystack_value_from_zinc_string", vec![cs("{dis:\"main ahu\" site}")]); // @2
    add("haystack_value_from_json_string", vec![cs("{\"dis\": \"Main AHU\"}")]); // @3
    add("haystack_value_from_json_string", vec![cs("{\"dis\": \"Main  AHU\"}")]); // @4
    let texts = ["dis==\"Main AHU\"", "dis==\"Main  AHU\"", "dis == \"Main AHU\"", " dis==\"Main  AHU\" ", "dis==\"main ahu\"", "dis==\"Main AHU\" and site", "dis==\"Main  AHU\"  and  site"];
    for t in texts {
        add("haystack_filter_parse", vec![cs(t)]);
    }
    for f in 0..texts.len() {
        for d in 0..5 {
            add("haystack_filter_match_dict", vec![A::F(Some(f)), v(d)]);
        }
    }
    for d in 0..5 {
        add("haystack_value_to_zinc_string", vec![v(d)]);
        add("haystack_value_to_json_string", vec![v(d)]);
    }
    // the same texts again (now everything has been seen once)
    for t in texts {
        add("haystack_filter_parse", vec![cs(t)]);
    }
    for f in texts.len()..2 * texts.len() {
        add("haystack_filter_match_dict", vec![A::F(Some(f)), v(1)]);
        add("haystack_filter_match_dict", vec![A::F(Some(f)), v(0)]);
    }
    // zone names of every shape come back from the getter as the constructor takes them
    add("haystack_value_make_date", vec![A::I(2021), A::N(8), A::N(13)]); // @5
    add("haystack_value_make_time", vec![A::N(12), A::N(34), A::N(56)]); // @6
    for (i, z) in ["North_Dakota/Center", "Indiana/Knox", "Argentina/Buenos_Aires", "Port-au-Prince", "GMT+5", "Sydney"].iter().enumerate() {
        add("haystack_value_make_tz_datetime", vec![v(5), v(6), cs(z)]); // @7+i
        add("haystack_value_get_datetime_timezone", vec![v(7 + i)]);
        add("haystack_value_to_zinc_string", vec![v(7 + i)]);
    }
    // overwriting an entry with a value that is `==` to the stored one but differs in content (a Ref with another
    // display name, -0.0 over 0.0, a list holding such a value): what was put in last is what comes out
    add("haystack_value_make_dict", vec![]); // @13
    add("haystack_value_make_ref_with_dis", vec![cs("r1"), cs("A")]); // @14
    add("haystack_value_make_ref_with_dis", vec![cs("r1"), cs("B")]); // @15
    add("haystack_value_make_ref", vec![cs("r1")]); // @16
    add("haystack_value_make_number", vec![A::X(0.0)]); // @17
    add("haystack_value_make_number", vec![A::X(-0.0)]); // @18
    add("haystack_value_make_list", vec![]); // @19
    add("haystack_value_make_list", vec![]); // @20
    add("haystack_value_push_list_entry", vec![v(19), v(14)]);
    add("haystack_value_push_list_entry", vec![v(20), v(15)]);
    for (key, first, second) in [("k", 14, 15), ("k", 15, 16), ("k", 16, 14), ("z", 17, 18), ("z", 18, 17), ("l", 19, 20)] {
        add("haystack_value_insert_dict_entry", vec![v(13), cs(key), v(first)]);
        add("haystack_value_insert_dict_entry", vec![v(13), cs(key), v(second)]);
        add("haystack_value_get_dict_entry", vec![v(13), cs(key), A::O(true)]);
        add("haystack_value_to_zinc_string", vec![v(13)]);
        add("haystack_value_to_json_string", vec![v(13)]);
    }
    add("haystack_value_push_list_entry", vec![v(19), v(17)]);
    add("haystack_value_set_list_entry_at", vec![v(19), A::N(1), v(18)]);
    add("haystack_value_set_list_entry_at", vec![v(19), A::N(0), v(15)]);
    add("haystack_value_to_zinc_string", vec![v(19)]);
    // scalar handles written as text AT TOP LEVEL, each text with exactly one kind of character a writer escapes
    // (`$` alone, a quote alone, ...), as Str, Uri, Symbol-like Ref display name and XStr payload
    let mut k = 21;
    for t in ["cost: $5", "$", "a$b", "${x}", "US$ 100 €", "say \"hi\"", "back\\slash", "tab\there", "tick`s", "line\nbreak", "plain"] {
        add("haystack_value_make_str", vec![cs(t)]);
        add("haystack_value_to_zinc_string", vec![v(k)]);
        add("haystack_value_to_json_string", vec![v(k)]);
        add("haystack_value_make_uri", vec![cs(t)]);
        add("haystack_value_to_zinc_string", vec![v(k + 1)]);
        add("haystack_value_make_ref_with_dis", vec![cs("r"), cs(t)]);
        add("haystack_value_to_zinc_string", vec![v(k + 2)]);
        add("haystack_value_make_xstr", vec![cs("Bin"), cs(t)]);
        add("haystack_value_to_zinc_string", vec![v(k + 3)]);
        k += 4;
    }
    calls
}

const KEYS: &[&str] = &["a", "b", "c", "dis", "id", "site", "é", "zz", "A", "a1", ""];
const FILTERS: &[&str] = &[
    "a", "site", "not a", "a and b", "a or dis", "a == 1", "dis == \"x\"", "a < 5", "a >= 1m", "id == @r", "a->b",
    "site and (a or b)", "(", "a ==", "", "1", "a and", "é",
];
const ZINC_FIXED: &[&str] = &[
    "\"a\\u0000b\"", "@r", "@r \"d\\u0000\"", "`/u`", "^sym", "Foo(\"b\")", "C(1.5,2.5)", "2020-01-02", "12:30:00",
    "2021-08-13T09:45:59+10:00 Sydney", "[", "{a", "ver:\"3.0\"\na,b\n1,2\n", "{a:1 dis:\"x\" site}", "[1, 2m, N]", "NaN", "-INF",
];
const JSON_FIXED: &[&str] = &[
    "{\"_kind\":\"\\u0000x\"}", "\"a\\u0000b\"", "{\"_kind\":\"ref\",\"val\":\"r\",\"dis\":\"d\\u0000\"}", "1", "true", "null", "[1,\"s\"]",
    "{\"a\":1}", "{", "nope", "{\"_kind\":\"number\",\"val\":1,\"unit\":\"m\"}", "{\"_kind\":\"xstr\",\"type\":\"\",\"val\":\"x\"}",
];

struct Walk<'a> {
    rng: &'a mut Rng,
    sh: Shadow,
    calls: Vec<Call>,
}

impl<'a> Walk<'a> {
    fn handles<Fp: Fn(&Value) -> bool>(&self, f: Fp) -> Vec<usize> {
        self.sh.vals.iter().filter(|(_, v)| f(v)).map(|(k, _)| *k).collect()
    }
    /// a value pointer: usually a handle `want` accepts, sometimes any handle, rarely null
    fn ptr<Fp: Fn(&Value) -> bool>(&mut self, want: Fp) -> A {
        let roll = self.rng.below(100);
        let good = self.handles(want);
        let all: Vec<usize> = self.sh.vals.keys().copied().collect();
        if roll < 3 || all.is_empty() {
            A::V(None)
        } else if roll < 85 && !good.is_empty() {
            A::V(Some(*self.rng.pick(&good)))
        } else {
            A::V(Some(*self.rng.pick(&all)))
        }
    }
    fn any(&mut self) -> A {
        self.ptr(|_| true)
    }
    fn fptr(&mut self) -> A {
        let all: Vec<usize> = self.sh.flts.keys().copied().collect();
        if all.is_empty() || self.rng.chance(1, 25) {
            A::F(None)
        } else {
            A::F(Some(*self.rng.pick(&all)))
        }
    }
    fn ctext(&mut self, s: String) -> A {
        match self.rng.below(40) {
            0 => A::C(CS::Null),
            1 => A::C(CS::Bad),
            2 => {
                // one ill-formed byte inside the text: at the end of a string literal if there is one
                let s = s.replace('\0', "");
                let at = match s.rfind('"') {
                    Some(k) if k > 0 && self.rng.chance(3, 4) => k,
                    _ => {
                        let mut k = self.rng.below(s.len() as u64 + 1) as usize;
                        while !s.is_char_boundary(k) {
                            k -= 1;
                        }
                        k
                    }
                };
                A::C(CS::BadIn(s[..at].to_string(), s[at..].to_string()))
            }
            _ => A::C(CS::Ok(s.replace('\0', ""))),
        }
    }
    fn key(&mut self, of: &A) -> A {
        // prefer a key the dict has
        let mut keys: Vec<String> = Vec::new();
        if let A::V(Some(k)) = of {
            if let Some(Value::Dict(d)) = self.sh.vals.get(k) {
                keys = d.keys().cloned().collect();
            }
        }
        let s = if !keys.is_empty() && self.rng.chance(1, 2) {
            self.rng.pick(&keys).clone()
        } else if self.rng.chance(1, 8) {
            gen::text(self.rng)
        } else {
            self.rng.pick(KEYS).to_string()
        };
        self.ctext(s)
    }
    fn index(&mut self, len: usize) -> A {
        let r = self.rng.below(100);
        A::N(if r < 65 && len > 0 {
            self.rng.below(len as u64)
        } else if r < 85 {
            len as u64 + self.rng.below(2)
        } else if r < 93 {
            u64::MAX - self.rng.below(2)
        } else {
            self.rng.below(1 << 33)
        })
    }
    fn len_of(&self, a: &A) -> usize {
        if let A::V(Some(k)) = a {
            match self.sh.vals.get(k) {
                Some(Value::List(l)) => return l.len(),
                Some(Value::Grid(g)) => return g.rows.len(),
                _ => {}
            }
        }
        self.rng_free_len()
    }
    fn rng_free_len(&self) -> usize {
        2
    }
    fn f64(&mut self) -> A {
        let cfg = Cfg::any(1);
        A::X(gen::f64_any(self.rng, &cfg))
    }
    fn push(&mut self, name: &str, args: Vec<A>) -> bool {
        let call = Call::new(name, args);
        let ans = self.sh.step(&call);
        self.calls.push(call);
        ans.failed
    }
    fn some_text(&mut self) -> String {
        match self.rng.below(7) {
            0 => gen::text(self.rng),
            1 => gen::ident(self.rng),
            2 => "".into(),
            3 => "é€😀".into(),
            // exactly ONE kind of character that a writer escapes, in otherwise plain text
            4 => self.rng.pick(&["cost: $5", "$", "a$b", "US$ 100", "${x}", "say \"hi\"", "back\\slash", "tab\there", "tick`s", "line\nbreak", "€5 $5"]).to_string(),
            _ => self.rng.pick(KEYS).to_string(),
        }
    }

    fn constructor(&mut self) {
        let cfg = Cfg::wf(2);
        match self.rng.below(24) {
            0 => {
                let n = *self.rng.pick(&[
                    "haystack_value_init",
                    "haystack_value_make_marker",
                    "haystack_value_make_na",
                    "haystack_value_make_remove",
                ]);
                self.push(n, vec![]);
            }
            1 | 2 => {
                self.push("haystack_value_make_list", vec![]);
            }
            3 | 4 => {
                self.push("haystack_value_make_dict", vec![]);
            }
            5 => {
                self.push("haystack_value_make_grid", vec![]);
            }
            6 => {
                let b = self.rng.chance(1, 2);
                self.push("haystack_value_make_bool", vec![A::B(b)]);
            }
            7 => {
                let x = self.f64();
                self.push("haystack_value_make_number", vec![x]);
            }
            8 => {
                let x = self.f64();
                let units = gen::all_units_cached();
                let u = match self.rng.below(10) {
                    0 => "zzz".to_string(),
                    1 => "".to_string(),
                    2 => gen::text(self.rng),
                    _ => {
                        let u = *self.rng.pick(units);
                        if self.rng.chance(1, 2) {
                            u.symbol().to_string()
                        } else {
                            u.ids.first().map(|s| s.to_string()).unwrap_or_default()
                        }
                    }
                };
                let u = self.ctext(u);
                self.push("haystack_value_make_number_with_unit", vec![x, u]);
            }
            9 => {
                let a = self.f64();
                let b = self.f64();
                self.push("haystack_value_make_coord", vec![a, b]);
            }
            10 | 11 => {
                let n = *self.rng.pick(&[
                    "haystack_value_make_str",
                    "haystack_value_make_ref",
                    "haystack_value_make_uri",
                    "haystack_value_make_symbol",
                ]);
                let t = self.some_text();
                let t = self.ctext(t);
                self.push(n, vec![t]);
            }
            12 => {
                let a = self.some_text();
                let b = self.some_text();
                let a = self.ctext(a);
                let b = self.ctext(b);
                let n = if self.rng.chance(1, 2) { "haystack_value_make_ref_with_dis" } else { "haystack_value_make_xstr" };
                self.push(n, vec![a, b]);
            }
            13 | 14 => {
                // times: valid, boundary and invalid fields
                let h = *self.rng.pick(&[0u64, 1, 12, 23, 24, 99]);
                let m = *self.rng.pick(&[0u64, 5, 59, 60]);
                let s = *self.rng.pick(&[0u64, 30, 59, 59, 60, u32::MAX as u64]);
                if self.rng.chance(1, 2) {
                    self.push("haystack_value_make_time", vec![A::N(h), A::N(m), A::N(s)]);
                } else {
                    let ms = *self.rng.pick(&[0u64, 1, 7, 120, 999, 1000, 1500, 1999, 2000, 4294, 4295, u32::MAX as u64]);
                    self.push("haystack_value_make_time_millis", vec![A::N(h), A::N(m), A::N(s), A::N(ms)]);
                }
            }
            15 | 16 => {
                let y = *self.rng.pick(&[
                    2024i64, 2023, 1900, 2000, 1970, 0, -1, 9999, 10000, -262143, -262144, 262142, 262143, i32::MAX as i64, i32::MIN as i64,
                    1, 400, -400, 2100,
                ]);
                let m = *self.rng.pick(&[1u64, 2, 2, 4, 12, 0, 13]);
                let d = *self.rng.pick(&[1u64, 15, 28, 29, 30, 31, 0, 32]);
                self.push("haystack_value_make_date", vec![A::I(y), A::N(m), A::N(d)]);
            }
            17 | 18 => {
                let d = self.ptr(|v| v.is_date());
                let t = self.ptr(|v| v.is_time());
                if self.rng.chance(1, 2) {
                    self.push("haystack_value_make_utc_datetime", vec![d, t]);
                } else {
                    let zones = gen::zones_cached(false);
                    let tz = match self.rng.below(10) {
                        0 => "Nowhere".to_string(),
                        1 => "".to_string(),
                        // every shape of zone name: three segments, '-' and digits in the city, an Etc/GMT offset
                        8 | 9 => self
                            .rng
                            .pick(&["North_Dakota/Center", "America/Indiana/Knox", "Argentina/Buenos_Aires", "Kentucky/Monticello", "Port-au-Prince", "GMT+5", "Etc/GMT-14", "Argentina/ComodRivadavia", "Indiana/Indianapolis"])
                            .to_string(),
                        2 | 3 => self.rng.pick(zones).name().to_string(),
                        _ => gen::short_name(self.rng.pick(zones)),
                    };
                    let tz = self.ctext(tz);
                    self.push("haystack_value_make_tz_datetime", vec![d, t, tz]);
                }
            }
            19 | 20 | 21 => {
                // decode a random value of any kind
                let text = match self.rng.below(10) {
                    0 => self.rng.pick(ZINC_FIXED).to_string(),
                    1 => {
                        let v = gen::value(self.rng, &cfg);
                        let mut t = to_zinc_string(&v).unwrap_or_default();
                        let cut = self.rng.below(t.len() as u64 + 1) as usize;
                        while !t.is_char_boundary(cut.min(t.len())) && !t.is_empty() {
                            t.pop();
                        }
                        t.truncate(cut.min(t.len()));
                        t
                    }
                    2 => {
                        // a complete text followed by something
                        let v = gen::value(self.rng, &cfg);
                        let mut t = to_zinc_string(&v).unwrap_or_default();
                        let tail: &str = *self.rng.pick::<&str>(&[" ", "\n", " 2", "]", ",", " x", "\n\n", "\"\""]);
                        t.push_str(tail);
                        t
                    }
                    _ => {
                        let v = gen::value(self.rng, &cfg);
                        to_zinc_string(&v).unwrap_or_default()
                    }
                };
                let t = self.ctext(text);
                self.push("haystack_value_from_zinc_string", vec![t]);
            }
            _ => {
                let text = match self.rng.below(10) {
                    0 | 1 => self.rng.pick(JSON_FIXED).to_string(),
                    2 => {
                        let v = gen::value(self.rng, &cfg);
                        let mut t = serde_json::to_string(&v).unwrap_or_default();
                        let cut = self.rng.below(t.len() as u64 + 1) as usize;
                        let mut cut = cut.min(t.len());
                        while !t.is_char_boundary(cut) {
                            cut -= 1;
                        }
                        t.truncate(cut);
                        t
                    }
                    3 => {
                        // a complete document followed by something: blanks are fine, anything else is not
                        let v = gen::value(self.rng, &cfg);
                        let mut t = serde_json::to_string(&v).unwrap_or_default();
                        let tail: &str = *self.rng.pick::<&str>(&[" ", "\n", " 2", "]", "}", "false", "abc", ",", " \t\n ", "\"\"", "null"]);
                        t.push_str(tail);
                        t
                    }
                    _ => {
                        let v = gen::value(self.rng, &cfg);
                        serde_json::to_string(&v).unwrap_or_default()
                    }
                };
                let t = self.ctext(text);
                self.push("haystack_value_from_json_string", vec![t]);
            }
        }
    }

    fn observer(&mut self) {
        // predicates and scalar getters
        let getters: Vec<&'static str> = FUNCS
            .iter()
            .map(|(n, _)| *n)
            .filter(|n| {
                (n.starts_with("haystack_value_get_") || n.starts_with("haystack_value_is_") || *n == "haystack_value_number_has_unit")
                    && FUNCS[fidx(n).unwrap()].1 == [V]
            })
            .collect();
        let n = *self.rng.pick(&getters);
        // the kind the function is about
        let kind = n
            .trim_start_matches("haystack_value_get_")
            .trim_start_matches("haystack_value_is_")
            .trim_start_matches("haystack_value_")
            .split('_')
            .next()
            .unwrap_or("")
            .to_string();
        let a = self.ptr(|v| {
            let k = match v {
                Value::Null => "null",
                Value::Marker => "marker",
                Value::Na => "na",
                Value::Remove => "remove",
                Value::Bool(_) => "bool",
                Value::Number(_) => "number",
                Value::Coord(_) => "coord",
                Value::Str(_) => "str",
                Value::Ref(_) => "ref",
                Value::Uri(_) => "uri",
                Value::Symbol(_) => "symbol",
                Value::XStr(_) => "xstr",
                Value::Time(_) => "time",
                Value::Date(_) => "date",
                Value::DateTime(_) => "datetime",
                Value::List(_) => "list",
                Value::Dict(_) => "dict",
                Value::Grid(_) => "grid",
            };
            k == kind
        });
        self.push(n, vec![a]);
    }

    fn container(&mut self) {
        match self.rng.below(20) {
            0 | 1 | 2 => {
                let l = self.ptr(|v| v.is_list());
                let e = self.any();
                self.push("haystack_value_push_list_entry", vec![l, e]);
            }
            3 | 4 => {
                let l = self.ptr(|v| v.is_list());
                let i = self.index(self.len_of(&l));
                let o = A::O(!self.rng.chance(1, 30));
                self.push("haystack_value_get_list_entry_at", vec![l, i, o]);
            }
            5 | 6 => {
                let l = self.ptr(|v| v.is_list());
                let i = self.index(self.len_of(&l));
                let e = self.any();
                self.push("haystack_value_set_list_entry_at", vec![l, i, e]);
            }
            7 => {
                let l = self.ptr(|v| v.is_list());
                let i = self.index(self.len_of(&l));
                self.push("haystack_value_remove_list_entry_at", vec![l, i]);
            }
            8 | 9 | 10 => {
                let d = self.ptr(|v| v.is_dict());
                let k = self.key(&d);
                let e = self.any();
                self.push("haystack_value_insert_dict_entry", vec![d, k, e]);
            }
            11 | 12 => {
                let d = self.ptr(|v| v.is_dict());
                let k = self.key(&d);
                let o = A::O(!self.rng.chance(1, 30));
                self.push("haystack_value_get_dict_entry", vec![d, k, o]);
            }
            13 => {
                let d = self.ptr(|v| v.is_dict());
                let k = self.key(&d);
                self.push("haystack_value_remove_dict_entry", vec![d, k]);
            }
            14 => {
                let d = self.ptr(|v| v.is_dict());
                let r = self.any();
                self.push("haystack_value_get_dict_keys", vec![d, r]);
            }
            15 | 16 => {
                let rows = self.ptr(|v| matches!(v, Value::List(l) if l.iter().any(|e| e.is_dict())));
                if self.rng.chance(1, 2) {
                    self.push("haystack_value_make_grid_from_rows", vec![rows]);
                } else {
                    let m = self.ptr(|v| v.is_dict());
                    self.push("haystack_value_make_grid_from_rows_with_meta", vec![rows, m]);
                }
            }
            17 | 18 => {
                let g = self.ptr(|v| v.is_grid());
                let i = self.index(self.len_of(&g));
                let r = self.any();
                self.push("haystack_value_get_grid_row_at", vec![g, i, r]);
            }
            _ => {
                let p = self.ptr(|v| v.is_datetime());
                let r = self.any();
                let utc = A::B(self.rng.chance(1, 2));
                let n = if self.rng.chance(1, 2) { "haystack_value_get_datetime_date" } else { "haystack_value_get_datetime_time" };
                self.push(n, vec![p, utc, r]);
            }
        }
    }

    fn codec_filter(&mut self) {
        match self.rng.below(10) {
            0 | 1 => {
                let p = self.any();
                self.push("haystack_value_to_zinc_string", vec![p]);
            }
            2 | 3 => {
                let p = self.any();
                self.push("haystack_value_to_json_string", vec![p]);
            }
            4 | 5 => {
                let t = self.rng.pick(FILTERS).to_string();
                let t = self.ctext(t);
                self.push("haystack_filter_parse", vec![t]);
            }
            6 => {
                let f = self.fptr();
                let d = self.ptr(|v| v.is_dict());
                self.push("haystack_filter_match_dict", vec![f, d]);
            }
            7 => {
                let f = self.fptr();
                let g = self.ptr(|v| v.is_grid());
                let r = self.any();
                self.push("haystack_filter_first_match_in_grid", vec![f, g, r]);
            }
            8 => {
                let f = self.fptr();
                let g = self.ptr(|v| v.is_grid());
                let r = self.any();
                self.push("haystack_filter_match_all_grid", vec![f, g, r]);
            }
            _ => {
                // destroy a filter (or report null)
                let f = self.fptr();
                self.push("haystack_filter_destroy", vec![f]);
            }
        }
    }

    fn housekeeping(&mut self) {
        // free a string, a value, or take the error
        let strs: Vec<usize> = self.sh.strs.iter().copied().collect();
        let vals: Vec<usize> = self.sh.vals.keys().copied().collect();
        match self.rng.below(4) {
            0 if !strs.is_empty() => {
                let k = *self.rng.pick(&strs);
                self.push("haystack_string_destroy", vec![A::SP(Some(k))]);
            }
            1 if vals.len() > 2 => {
                let k = *self.rng.pick(&vals);
                self.push("haystack_value_destroy", vec![A::V(Some(k))]);
            }
            _ => {
                self.push("last_error_message", vec![]);
            }
        }
    }
}

/// A random walk over the live state: `len` calls (+ the error reads that follow failing calls).
pub fn random_history(rng: &mut Rng, len: usize) -> Vec<Call> {
    let mut w = Walk { rng, sh: Shadow::default(), calls: Vec::new() };
    for _ in 0..len {
        let before = w.calls.len();
        let n_vals = w.sh.vals.len();
        let roll = w.rng.below(100);
        if n_vals < 3 || roll < 22 {
            w.constructor();
        } else if n_vals > 12 {
            let vals: Vec<usize> = w.sh.vals.keys().copied().collect();
            let k = *w.rng.pick(&vals);
            w.push("haystack_value_destroy", vec![A::V(Some(k))]);
        } else if roll < 45 {
            w.observer();
        } else if roll < 78 {
            w.container();
        } else if roll < 92 {
            w.codec_filter();
        } else {
            w.housekeeping();
        }
        // after a failing call the message is read (most of the time; a stale error is legal too)
        let failed = w.sh.err && w.calls.len() > before && w.calls.last().map_or(false, |c| c.name() != "last_error_message");
        if failed && !w.rng.chance(1, 4) {
            w.push("last_error_message", vec![]);
        }
    }
    w.calls
}

pub fn generate(ctx: &mut Ctx) {
    ctx.case("inventory", "-");
    ctx.case("tour", &show_history(&tour()));
    ctx.case("hist", &show_history(&lookalikes()));
    let n = ctx.n(2000, 100_000);
    for _ in 0..n {
        let mut rng = ctx.rng.fork();
        let len = 10 + rng.below(41) as usize;
        let calls = random_history(&mut rng, len);
        ctx.case("hist", &show_history(&calls));
    }
    ctx.case("coverage", "-");
}
