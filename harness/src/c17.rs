//! C17 — the C API behaves exactly like the Rust API on the same values.
//!
//! A case is a *history* of C calls from an empty pool: `<extern "C" fn name> <args>` repeated
//! (tokens; see `T`).  For every call three answers are produced in the same canonical text:
//!   * the real `extern "C"` function called through its Rust signature on real handles,
//!   * the reference ("shadow"): the corresponding Rust API operation on plain `Value`s
//!     (Vec / BTreeMap / Grid operations, `to_zinc_string`, `serde_json`, `Filter`, …),
//!   * the Lean model `cstep` (request `C17 hist …`; results of library code that the model does not
//!     contain — unit lookup, chrono, codecs, filters — are appended to the call as `ext` tokens).
//! Oracles on the real code: C answer = Rust answer for every call; after a failing call the pool
//! is unchanged (VX of every pooled value before/after) and the error message is retrievable;
//! C pool = Rust pool after every call.  Coverage: every function of the call table is counted;
//! the table itself is compared with the translated inventory (`C17 inventory`).

use crate::ctx::{CaseOut, Ctx};
use crate::gen::{self, Cfg};
use crate::rng::Rng;
use crate::vx;
use chrono::{NaiveDateTime, Offset, TimeZone, Utc};
use libhaystack::c_api::ResultType;
use libhaystack::c_api::{
    coord as ccoord, date as cdate, datetime as cdt, dict as cdict, err as cerr, filter as cfilter, grid as cgrid,
    json as cjson, list as clist, number as cnum, reference as cref, str as cstr, symbol as csym, time as ctime,
    uri as curi, value as cval, xstr as cxstr, zinc as czinc,
};
use libhaystack::encoding::zinc::decode::from_str as zinc_from_str;
use libhaystack::encoding::zinc::encode::to_zinc_string;
use libhaystack::filter::{Filter, Filtered, ListFiltered};
use libhaystack::units::get_unit;
use libhaystack::val::*;
use std::collections::{BTreeMap, BTreeSet};
use std::ffi::{CStr, CString};
use std::os::raw::c_char;
use std::sync::Mutex;

/// argument classes
#[derive(Clone, Copy, PartialEq, Eq, Debug)]
pub enum T {
    V,   // *const/*mut Value      `@k` | `@-`
    F,   // *const/*mut Filter     `%k` | `%-`
    SP,  // *mut c_char (owned string returned earlier)  `$k` | `$-`
    C,   // *const c_char          hex | `~` | `!`
    O,   // *mut *const Value      `1` | `0`
    B,   // bool                   `1` | `0`
    U32, // u32
    I32, // i32
    US,  // usize
    X,   // f64                    bits + hex(Display)
}
use T::*;

/// The harness's call table: every `extern "C"` function with its parameter classes.
pub const FUNCS: &[(&str, &[T])] = &[
    ("haystack_value_init", &[]),
    ("haystack_value_destroy", &[V]),
    ("haystack_value_make_marker", &[]),
    ("haystack_value_make_na", &[]),
    ("haystack_value_make_remove", &[]),
    ("haystack_value_make_list", &[]),
    ("haystack_value_make_dict", &[]),
    ("haystack_value_make_grid", &[]),
    ("haystack_value_make_bool", &[B]),
    ("haystack_value_make_number", &[X]),
    ("haystack_value_make_number_with_unit", &[X, C]),
    ("haystack_value_make_coord", &[X, X]),
    ("haystack_value_make_str", &[C]),
    ("haystack_value_make_ref", &[C]),
    ("haystack_value_make_uri", &[C]),
    ("haystack_value_make_symbol", &[C]),
    ("haystack_value_make_ref_with_dis", &[C, C]),
    ("haystack_value_make_xstr", &[C, C]),
    ("haystack_value_make_time", &[U32, U32, U32]),
    ("haystack_value_make_time_millis", &[U32, U32, U32, U32]),
    ("haystack_value_make_date", &[I32, U32, U32]),
    ("haystack_value_make_utc_datetime", &[V, V]),
    ("haystack_value_make_tz_datetime", &[V, V, C]),
    ("haystack_value_is_null", &[V]),
    ("haystack_value_is_marker", &[V]),
    ("haystack_value_is_na", &[V]),
    ("haystack_value_is_remove", &[V]),
    ("haystack_value_is_bool", &[V]),
    ("haystack_value_is_number", &[V]),
    ("haystack_value_is_coord", &[V]),
    ("haystack_value_is_str", &[V]),
    ("haystack_value_is_ref", &[V]),
    ("haystack_value_is_uri", &[V]),
    ("haystack_value_is_symbol", &[V]),
    ("haystack_value_is_xstr", &[V]),
    ("haystack_value_is_time", &[V]),
    ("haystack_value_is_date", &[V]),
    ("haystack_value_is_datetime", &[V]),
    ("haystack_value_is_list", &[V]),
    ("haystack_value_is_dict", &[V]),
    ("haystack_value_is_grid", &[V]),
    ("haystack_value_get_number_value", &[V]),
    ("haystack_value_number_has_unit", &[V]),
    ("haystack_value_get_number_unit", &[V]),
    ("haystack_value_get_str_len", &[V]),
    ("haystack_value_get_str_value", &[V]),
    ("haystack_value_get_ref_value_len", &[V]),
    ("haystack_value_get_ref_value", &[V]),
    ("haystack_value_get_ref_dis", &[V]),
    ("haystack_value_get_symbol_value_len", &[V]),
    ("haystack_value_get_symbol_value", &[V]),
    ("haystack_value_get_uri_value_len", &[V]),
    ("haystack_value_get_uri_value", &[V]),
    ("haystack_value_get_xstr_type", &[V]),
    ("haystack_value_get_xstr_value", &[V]),
    ("haystack_value_get_coord_lat", &[V]),
    ("haystack_value_get_coord_long", &[V]),
    ("haystack_value_get_date_year", &[V]),
    ("haystack_value_get_date_month", &[V]),
    ("haystack_value_get_date_day", &[V]),
    ("haystack_value_get_time_hour", &[V]),
    ("haystack_value_get_time_minutes", &[V]),
    ("haystack_value_get_time_seconds", &[V]),
    ("haystack_value_get_time_millis", &[V]),
    ("haystack_value_get_datetime_timezone", &[V]),
    ("haystack_value_get_datetime_date", &[V, B, V]),
    ("haystack_value_get_datetime_time", &[V, B, V]),
    ("haystack_value_get_list_len", &[V]),
    ("haystack_value_push_list_entry", &[V, V]),
    ("haystack_value_get_list_entry_at", &[V, US, O]),
    ("haystack_value_set_list_entry_at", &[V, US, V]),
    ("haystack_value_remove_list_entry_at", &[V, US]),
    ("haystack_value_get_dict_len", &[V]),
    ("haystack_value_get_dict_keys", &[V, V]),
    ("haystack_value_insert_dict_entry", &[V, C, V]),
    ("haystack_value_get_dict_entry", &[V, C, O]),
    ("haystack_value_remove_dict_entry", &[V, C]),
    ("haystack_value_get_grid_len", &[V]),
    ("haystack_value_make_grid_from_rows", &[V]),
    ("haystack_value_make_grid_from_rows_with_meta", &[V, V]),
    ("haystack_value_get_grid_row_at", &[V, US, V]),
    ("haystack_value_to_zinc_string", &[V]),
    ("haystack_value_from_zinc_string", &[C]),
    ("haystack_value_to_json_string", &[V]),
    ("haystack_value_from_json_string", &[C]),
    ("haystack_filter_parse", &[C]),
    ("haystack_filter_destroy", &[F]),
    ("haystack_filter_match_dict", &[F, V]),
    ("haystack_filter_first_match_in_grid", &[F, V, V]),
    ("haystack_filter_match_all_grid", &[F, V, V]),
    ("haystack_string_destroy", &[SP]),
    ("last_error_message", &[]),
];

pub fn is_ptr(t: T) -> bool {
    matches!(t, V | F | SP | C | O)
}

pub fn fidx(name: &str) -> Option<usize> {
    FUNCS.iter().position(|(n, _)| *n == name)
}

#[derive(Clone, Debug, PartialEq)]
pub enum CS {
    Null,
    Bad,
    /// text with ONE ill-formed byte (0xF0, the start of a sequence that never comes) between the two parts,
    /// e.g. inside a string literal of an otherwise well-formed document: `!hex(before).hex(after)`
    BadIn(String, String),
    Ok(String),
}

#[derive(Clone, Debug, PartialEq)]
pub enum A {
    V(Option<usize>),
    F(Option<usize>),
    SP(Option<usize>),
    C(CS),
    O(bool),
    B(bool),
    N(u64),
    I(i64),
    X(f64),
}

#[derive(Clone, Debug)]
pub struct Call {
    pub f: usize,
    pub args: Vec<A>,
}

impl Call {
    pub fn new(name: &str, args: Vec<A>) -> Call {
        Call { f: fidx(name).unwrap_or_else(|| panic!("unknown function {name}")), args }
    }
    pub fn name(&self) -> &'static str {
        FUNCS[self.f].0
    }
    pub fn show(&self) -> String {
        let mut s = String::from(self.name());
        for a in &self.args {
            s.push(' ');
            s.push_str(&show_arg(a));
        }
        s
    }
    fn v(&self, i: usize) -> Option<usize> {
        match &self.args[i] {
            A::V(p) | A::F(p) | A::SP(p) => *p,
            _ => None,
        }
    }
    fn c(&self, i: usize) -> &CS {
        match &self.args[i] {
            A::C(c) => c,
            _ => &CS::Null,
        }
    }
    fn b(&self, i: usize) -> bool {
        matches!(&self.args[i], A::B(true) | A::O(true))
    }
    fn n(&self, i: usize) -> u64 {
        match &self.args[i] {
            A::N(n) => *n,
            _ => 0,
        }
    }
    fn i(&self, i: usize) -> i64 {
        match &self.args[i] {
            A::I(n) => *n,
            _ => 0,
        }
    }
    fn x(&self, i: usize) -> f64 {
        match &self.args[i] {
            A::X(x) => *x,
            _ => 0.0,
        }
    }
}

fn opt_tok(prefix: char, p: &Option<usize>) -> String {
    match p {
        None => format!("{prefix}-"),
        Some(k) => format!("{prefix}{k}"),
    }
}

pub fn show_arg(a: &A) -> String {
    match a {
        A::V(p) => opt_tok('@', p),
        A::F(p) => opt_tok('%', p),
        A::SP(p) => opt_tok('$', p),
        A::C(CS::Null) => "~".into(),
        A::C(CS::Bad) => "!".into(),
        A::C(CS::BadIn(a, b)) => format!("!{}.{}", vx::h(a), vx::h(b)),
        A::C(CS::Ok(s)) => vx::h(s),
        A::O(b) | A::B(b) => if *b { "1".into() } else { "0".into() },
        A::N(n) => n.to_string(),
        A::I(n) => n.to_string(),
        A::X(x) => vx::flt(*x),
    }
}

fn parse_opt(tok: &str, prefix: char) -> Option<Option<usize>> {
    let rest = tok.strip_prefix(prefix)?;
    if rest == "-" {
        Some(None)
    } else {
        Some(Some(rest.parse().ok()?))
    }
}

pub fn parse_history(input: &str) -> Option<Vec<Call>> {
    let mut rd = vx::Rd::new(input);
    let mut calls = Vec::new();
    while !rd.done() {
        let name = rd.tok()?;
        let f = fidx(name)?;
        let mut args = Vec::new();
        for t in FUNCS[f].1 {
            args.push(match t {
                V => A::V(parse_opt(rd.tok()?, '@')?),
                F => A::F(parse_opt(rd.tok()?, '%')?),
                SP => A::SP(parse_opt(rd.tok()?, '$')?),
                C => {
                    let t = rd.tok()?;
                    A::C(match t {
                        "~" => CS::Null,
                        "!" => CS::Bad,
                        _ if t.starts_with('!') => {
                            let (a, b) = t[1..].split_once('.')?;
                            let (a, b) = (vx::unh(a)?, vx::unh(b)?);
                            if a.contains('\0') || b.contains('\0') {
                                return None;
                            }
                            CS::BadIn(a, b)
                        }
                        _ => {
                            let s = vx::unh(t)?;
                            if s.contains('\0') {
                                return None;
                            }
                            CS::Ok(s)
                        }
                    })
                }
                O => A::O(rd.tok()? == "1"),
                B => A::B(rd.tok()? == "1"),
                U32 | US => A::N(rd.num()?),
                I32 => A::I(rd.num()?),
                X => A::X(rd.flt()?),
            });
        }
        calls.push(Call { f, args });
    }
    Some(calls)
}

pub fn show_history(calls: &[Call]) -> String {
    calls.iter().map(|c| c.show()).collect::<Vec<_>>().join(" ")
}

// ------------------------------------------------------------------------------------------------
// canonical result texts (shared by the C side, the reference and the Lean driver)
// ------------------------------------------------------------------------------------------------
const NULLP: &str = "~";
const R_ERR: &str = "r-1";
const USIZE_MAX: &str = "n18446744073709551615";
const U32_MAX: &str = "n4294967295";

fn nan_text() -> String {
    format!("x{:016x}:{}", f64::NAN.to_bits(), vx::h("NaN"))
}
fn f64_text(x: f64) -> String {
    format!("x{:016x}:{}", x.to_bits(), vx::h(&format!("{x}")))
}
fn res_text(r: ResultType) -> &'static str {
    match r {
        ResultType::TRUE => "r1",
        ResultType::FALSE => "r0",
        ResultType::ERR => R_ERR,
    }
}
fn bool_text(b: bool) -> &'static str {
    if b {
        "b1"
    } else {
        "b0"
    }
}

include!("c17_ref.rs");
include!("c17_c.rs");
include!("c17_gen.rs");
