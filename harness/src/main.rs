//! hsverif — correspondence + oracle harness for the libhaystack verification.
//!
//! usage: hsverif run <prop> <tier> <seed> <outdir> [start_case]
//!        hsverif replay <prop> <label> <input> <outdir>
//!        hsverif canon            (stdin -> stdout: normalise model replies that contain float lexemes)
//!        hsverif dump <what>      (tables dumped from compiled dependencies, e.g. `zones`)
//!
//! Every case is a `(label, input)` pair of strings; `input` is self-contained (VX / hex), so a
//! failing case is replayable from the two strings alone.  For each case the property module
//! executes the real libhaystack code in-process, records
//!   * correspondence requests (`req.txt`) and the implementation's canonical reply (`impl.txt`)
//!   * oracle failures (`fails.jsonl`)
//! A watchdog thread turns a hang into exit code 3; the case that was running is in `progress`.

mod ctx;
mod gen;
mod jspell;
mod jtok;
mod rng;
mod same;
mod shrink;
mod spell;
mod vx;

mod c01;
mod c02;
mod c03;
mod c04;
mod c05;
mod c06;
mod c07;
mod c08;
mod c09;
mod c10;
mod c11;
mod c12;
mod c13;
mod c14;
mod c15;
mod c16;
mod c17;
mod c18;
mod c19;
mod c20;

use ctx::{Ctx, Tier};

pub type ExecFn = fn(&str, &str, &mut ctx::CaseOut);
pub type GenFn = fn(&mut Ctx);

pub fn prop_fns(prop: &str) -> Option<(GenFn, ExecFn)> {
    match prop {
        "C01" => Some((c01::generate, c01::exec)),
        "C02" => Some((c02::generate, c02::exec)),
        "C03" => Some((c03::generate, c03::exec)),
        "C04" => Some((c04::generate, c04::exec)),
        "C05" => Some((c05::generate, c05::exec)),
        "C06" => Some((c06::generate, c06::exec)),
        "C07" => Some((c07::generate, c07::exec)),
        "C08" => Some((c08::generate, c08::exec)),
        "C09" => Some((c09::generate, c09::exec)),
        "C10" => Some((c10::generate, c10::exec)),
        "C11" => Some((c11::generate, c11::exec)),
        "C12" => Some((c12::generate, c12::exec)),
        "C13" => Some((c13::generate, c13::exec)),
        "C14" => Some((c14::generate, c14::exec)),
        "C15" => Some((c15::generate, c15::exec)),
        "C16" => Some((c16::generate, c16::exec)),
        "C17" => Some((c17::generate, c17::exec)),
        "C18" => Some((c18::generate, c18::exec)),
        "C19" => Some((c19::generate, c19::exec)),
        "C20" => Some((c20::generate, c20::exec)),
        _ => None,
    }
}

fn main() {
    // libhaystack panics are caught per case; keep the default hook quiet
    std::panic::set_hook(Box::new(|_| {}));
    let args: Vec<String> = std::env::args().collect();
    if args.len() < 2 {
        eprintln!("usage: hsverif run|replay|canon|dump ...");
        std::process::exit(2);
    }
    match args[1].as_str() {
        "run" => {
            let prop = &args[2];
            let tier = if args[3] == "thorough" { Tier::Thorough } else { Tier::Quick };
            let seed: u64 = args[4].parse().unwrap_or(1);
            let outdir = &args[5];
            let start: u64 = args.get(6).and_then(|s| s.parse().ok()).unwrap_or(0);
            let (gen, exec) = prop_fns(prop).unwrap_or_else(|| {
                eprintln!("unknown property {prop}");
                std::process::exit(2)
            });
            let mut ctx = Ctx::new(prop, tier, seed, outdir, start, exec);
            ctx.run_corpus();
            gen(&mut ctx);
            ctx.finish();
        }
        "replay" => {
            let prop = &args[2];
            let (_gen, exec) = prop_fns(prop).unwrap_or_else(|| {
                eprintln!("unknown property {prop}");
                std::process::exit(2)
            });
            let mut ctx = Ctx::new(prop, Tier::Quick, 0, &args[5], 0, exec);
            ctx.case(&args[3], &args[4]);
            ctx.finish();
        }
        "shrink" => {
            // hsverif shrink <prop> <kind> <label> <input>
            let (_gen, exec) = prop_fns(&args[2]).unwrap_or_else(|| std::process::exit(2));
            println!("{}", shrink::shrink(exec, &args[3], &args[4], &args[5]));
        }
        "canon" => vx::canon_stdin(),
        "dump" => gen::dump(&args[2]),
        _ => {
            eprintln!("unknown command");
            std::process::exit(2);
        }
    }
}
