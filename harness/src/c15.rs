//! C15 — every database unit is found by each of its names and survives both codecs.
//!
//! labels / inputs
//!   count  -            number of distinct units reachable through `UNITS` and number of keys
//!   unit   H(name)      EXHAUSTIVE on every run, one case per unit: every id through `get_unit` (must return
//!                       that very unit), `Number{x, unit}` for the magnitudes below through Zinc
//!                       (`to_zinc_string` / `from_str`, alone and inside a list) and through serde_json
//!                       (`to_string` / `from_str`)
//!   nonid  H(text)      a string that is no id of any unit: `get_unit` must return None
//!   lex    HEX(text)    a number text: how `parse_number` splits it (correspondence with the model's lexer)
//! Correspondence requests: `C15 get H(s)`, `C15 lex HEX`, `C15 count`.

use crate::ctx::{CaseOut, Ctx};
use crate::gen;
use crate::rng::Rng;
use crate::vx;
use libhaystack::encoding::zinc::decode::from_str as zinc_from_str;
use libhaystack::encoding::zinc::encode::ToZinc;
use libhaystack::units::units_generated::UNITS;
use libhaystack::units::{get_unit, Unit};
use libhaystack::val::*;

const MAGNITUDES: [f64; 8] = [0.0, -1.5, 1e-7, 1e21, 123.456, -0.0, 1e300, 5e-324];

/// the distinct unit statics reachable through the map (by address), ordered by name
fn all_units() -> &'static Vec<&'static Unit> {
    use std::sync::OnceLock;
    static CELL: OnceLock<Vec<&'static Unit>> = OnceLock::new();
    CELL.get_or_init(|| {
        let mut v: Vec<&'static Unit> = Vec::new();
        for u in UNITS.values() {
            if !v.iter().any(|x| std::ptr::eq(*x, *u)) {
                v.push(*u);
            }
        }
        v.sort_by(|a, b| a.name().cmp(b.name()));
        v
    })
}

fn is_some_id(s: &str) -> bool {
    all_units().iter().any(|u| u.ids.iter().any(|i| i == s))
}

fn show_unit(u: &Unit) -> String {
    let dims = match &u.dimensions {
        None => "-".to_string(),
        Some(d) => format!("{},{},{},{},{},{},{}", d.kg, d.m, d.sec, d.k, d.a, d.mol, d.cd),
    };
    format!(
        "{} {} {} {} {} {} S n {} - O n {} -",
        vx::h(u.name()),
        vx::h(u.symbol()),
        u.ids.len(),
        u.ids.iter().map(|i| vx::h(i)).collect::<Vec<_>>().join(" "),
        vx::ho(&u.quantity),
        dims,
        vx::flt(u.scale),
        vx::flt(u.offset)
    )
}

fn get_req(s: &str, out: &mut CaseOut) -> Option<&'static Unit> {
    let got = get_unit(s);
    out.req(
        format!("C15 get {}", vx::h(s)),
        match got {
            None => "none".into(),
            Some(u) => format!("ok {}", show_unit(u)),
        },
    );
    got
}

/// `C15 lex HEX(text)`: implementation side = what `from_str` makes of the text
fn lex_req(text: &[u8], out: &mut CaseOut) {
    let reply = match std::str::from_utf8(text) {
        Err(_) => return, // from_str takes a &str
        Ok(t) => match zinc_from_str(t) {
            Ok(Value::Number(n)) => format!(
                "ok n {} {}",
                vx::flt(n.value),
                match n.unit {
                    None => "-".to_string(),
                    Some(u) => vx::h(u.symbol()),
                }
            ),
            Ok(_) => "other".into(),
            Err(_) => "err".into(),
        },
    };
    out.req(format!("C15 lex {}", vx::hex(text)), reply);
}

fn check_number_back(what: &str, x: f64, u: &'static Unit, back: Result<Value, String>, text: &str, out: &mut CaseOut) {
    match back {
        Ok(Value::Number(n)) => {
            match n.unit {
                Some(b) if std::ptr::eq(b, u) => {}
                other => out.fail(
                    &format!("{what}_unit_lost"),
                    format!("{x:?} {} written as {text:?} came back with unit {:?}", u.symbol(), other.map(|b| b.symbol())),
                ),
            }
            if n.value.to_bits() != x.to_bits() {
                out.fail(
                    &format!("{what}_value_changed"),
                    format!("{x:?} {} written as {text:?} came back as {:?}", u.symbol(), n.value),
                );
            }
        }
        Ok(v) => out.fail(&format!("{what}_unit_lost"), format!("{x:?} {} written as {text:?} came back as {v:?}", u.symbol())),
        Err(e) => out.fail(&format!("{what}_unreadable"), format!("{x:?} {} written as {text:?} is rejected: {e}", u.symbol())),
    }
}

fn exec_unit(input: &str, out: &mut CaseOut) {
    let name = match vx::unh(input.trim()) {
        Some(s) => s,
        None => return out.fail("harness", "unparsable C15 unit input".into()),
    };
    let u: &'static Unit = match all_units().iter().find(|u| u.name() == name) {
        Some(u) => u,
        None => return out.fail("harness", format!("no unit named {name:?} is reachable through UNITS")),
    };
    out.nontrivial = true;
    out.stat(&format!("unit:ids={}", u.ids.len()));
    // first, on this thread: texts whose unit is refused (no such unit; the unit's own symbol followed by letters that make
    // it unknown; a unit cut short by the end of the input inside a multi-byte character) - a refusal must leave nothing
    // behind for the decodes that follow
    for bad in ["21.5zzq".to_string(), format!("3{}zzq", u.symbol()), "[1kW, 2zzq]".to_string(), "7\u{00e9}\u{00e9}".to_string()] {
        if libhaystack::encoding::zinc::decode::from_str(&bad).is_ok() && get_unit(bad.trim_start_matches(|c: char| c.is_ascii_digit() || c == '.')).is_none() && !bad.starts_with('[') {
            out.fail("unknown_unit_accepted", format!("{bad:?} decodes although its unit is no identifier of the database"));
        }
    }
    if u.symbol().chars().any(|c| !c.is_ascii()) {
        out.stat("unit:non_ascii_symbol");
    }
    // every id resolves to this very unit
    for id in u.ids.iter() {
        match get_req(id, out) {
            Some(got) if std::ptr::eq(got, u) => {}
            Some(got) => out.fail("id_resolves_elsewhere", format!("get_unit({id:?}) returns the unit named {:?}, not {name:?}", got.name())),
            None => out.fail("id_not_found", format!("get_unit({id:?}) is None although {id:?} is an id of {name:?}")),
        }
    }
    // both codecs, every magnitude
    for x in MAGNITUDES {
        let v = Value::Number(Number { value: x, unit: Some(u) });
        match v.to_zinc_string() {
            Ok(z) => {
                check_number_back("zinc", x, u, zinc_from_str(&z).map_err(|e| e.to_string()), &z, out);
                lex_req(z.as_bytes(), out);
                // inside a list: the symbol is followed by `,` / `]`
                let l = Value::List(vec![v.clone(), v.clone()]);
                if let Ok(zl) = l.to_zinc_string() {
                    match zinc_from_str(&zl) {
                        Ok(Value::List(items)) if items.len() == 2 => {
                            for it in items {
                                check_number_back("zinc_list", x, u, Ok(it), &zl, out);
                            }
                        }
                        other => out.fail("zinc_list_unreadable", format!("{zl:?} came back as {other:?}")),
                    }
                }
            }
            Err(e) => out.fail("zinc_unwritable", format!("{x:?} {}: {e}", u.symbol())),
        }
        // the Number into writers that take 1, 2, 3, 7 bytes per call: the text a Vec gets, or an error
        if let Ok(full) = libhaystack::encoding::zinc::encode::to_zinc_string(&v) {
            use libhaystack::encoding::zinc::encode::ToZinc;
            struct Trickle(Vec<u8>, usize);
            impl std::io::Write for Trickle {
                fn write(&mut self, buf: &[u8]) -> std::io::Result<usize> {
                    let n = buf.len().min(self.1);
                    self.0.extend_from_slice(&buf[..n]);
                    Ok(n)
                }
                fn flush(&mut self) -> std::io::Result<()> {
                    Ok(())
                }
            }
            for k in [1usize, 2, 3, 7] {
                let mut w = Trickle(Vec::new(), k);
                match v.to_zinc(&mut w) {
                    Ok(()) if w.0 == full.as_bytes() => {}
                    Ok(()) => out.fail("zinc_unit_lost", format!("into a writer that takes {k} bytes per call {x:?} {} is written as {:?}, into a Vec as {full:?}", u.symbol(), String::from_utf8_lossy(&w.0))),
                    Err(_) => {}
                }
            }
        }
        match serde_json::to_string(&v) {
            Ok(j) => {
                check_number_back("json", x, u, serde_json::from_str::<Value>(&j).map_err(|e| e.to_string()), &j, out);
                // the other ways the same document reaches the decoder: bytes, a reader (nothing to borrow from), the
                // serde_json tree (members in key order: `_kind`, `unit`, `val`), and the same text with the unit spelled
                // with JSON escapes (`\/`, `\uXXXX` for the first character)
                check_number_back("json_slice", x, u, serde_json::from_slice::<Value>(j.as_bytes()).map_err(|e| e.to_string()), &j, out);
                check_number_back("json_reader", x, u, serde_json::from_reader::<_, Value>(std::io::Cursor::new(j.as_bytes())).map_err(|e| e.to_string()), &j, out);
                match serde_json::to_value(&v) {
                    Ok(tree) => check_number_back("json_tree", x, u, serde_json::from_value::<Value>(tree).map_err(|e| e.to_string()), &j, out),
                    Err(e) => out.fail("json_unwritable", format!("to_value {x:?} {}: {e}", u.symbol())),
                }
                let sym = u.symbol();
                if let Some(first) = sym.chars().next() {
                    let mut esc = String::new();
                    let mut buf = [0u16; 2];
                    for unit in first.encode_utf16(&mut buf) {
                        esc.push_str(&format!("\\u{:04x}", unit));
                    }
                    esc.push_str(&sym[first.len_utf8()..].replace('/', "\\/"));
                    let quoted = format!("\"{}\"", sym);
                    if j.contains(&quoted) {
                        let j2 = j.replacen(&quoted, &format!("\"{esc}\""), 1);
                        check_number_back("json_escaped", x, u, serde_json::from_str::<Value>(&j2).map_err(|e| e.to_string()), &j2, out);
                    }
                }
            }
            Err(e) => out.fail("json_unwritable", format!("{x:?} {}: {e}", u.symbol())),
        }
    }
}

fn exec_nonid(input: &str, out: &mut CaseOut) {
    let s = match vx::unh(input.trim()) {
        Some(s) => s,
        None => return out.fail("harness", "unparsable C15 nonid input".into()),
    };
    out.nontrivial = true;
    let got = get_req(&s, out);
    if is_some_id(&s) {
        out.stat("nonid:is_an_id_after_all");
        match got {
            None => out.fail("id_not_found", format!("get_unit({s:?}) is None although it is an id")),
            Some(u) if !u.ids.iter().any(|i| *i == s) => {
                out.fail("id_of_other_unit", format!("get_unit({s:?}) returns {:?}, which does not list it among its ids", u.name()))
            }
            _ => {}
        }
    } else {
        out.stat("nonid:not_an_id");
        if let Some(u) = got {
            out.fail("nonid_found", format!("get_unit({s:?}) returns {:?} although no unit has this id", u.name()));
        }
    }
}

fn exec_lex(input: &str, out: &mut CaseOut) {
    let bytes = match vx::unhex(input.trim()) {
        Some(b) => b,
        None => return out.fail("harness", "unparsable C15 lex input".into()),
    };
    out.nontrivial = true;
    lex_req(&bytes, out);
}

pub fn exec(label: &str, input: &str, out: &mut CaseOut) {
    match label.split(':').next().unwrap_or(label) {
        "count" => {
            out.nontrivial = true;
            out.req("C15 count".into(), format!("ok {} {}", all_units().len(), UNITS.len()));
        }
        "unit" => exec_unit(input, out),
        "nonid" => exec_nonid(input, out),
        "lex" => exec_lex(input, out),
        _ => out.fail("harness", format!("unknown C15 label {label}")),
    }
}

// ---------------------------------------------------------------------------------------------
// generation
// ---------------------------------------------------------------------------------------------

fn mutate_id(rng: &mut Rng, id: &str) -> String {
    let cs: Vec<char> = id.chars().collect();
    match rng.below(7) {
        0 => id.to_uppercase(),
        1 => id.to_lowercase(),
        2 => format!("{id} "),
        3 => format!("{id}s"),
        4 if !cs.is_empty() => cs[..cs.len() - 1].iter().collect(),
        5 if !cs.is_empty() => {
            let mut c = cs.clone();
            let i = rng.below(c.len() as u64) as usize;
            c[i] = *rng.pick(&['_', 'x', 'µ', 'Ω', '/', '2', '³', ' ']);
            c.into_iter().collect()
        }
        _ => format!("_{id}"),
    }
}

fn unit_charish(rng: &mut Rng) -> String {
    let alphabet: Vec<char> = "abemEkWh_/%$°³²µΩ".chars().collect();
    let n = 1 + rng.below(4);
    (0..n).map(|_| *rng.pick(&alphabet)).collect()
}

/// number-like texts whose first token the outer lexer hands to `parse_number` (no `dddd-` / `dd:` openings)
fn lex_text(rng: &mut Rng) -> Vec<u8> {
    let units = all_units();
    let mut s = String::new();
    if rng.chance(1, 4) {
        s.push('-');
    }
    // decimal
    match rng.below(6) {
        0 => s.push_str(&format!("{}", rng.below(100000))),
        1 => s.push_str(&format!("{}.{}", rng.below(1000), rng.below(1000))),
        2 => s.push_str(&format!("{}", rng.pick(&MAGNITUDES[..]).abs())),
        3 => s.push_str(&format!("{}_{:03}", 1 + rng.below(999), rng.below(1000))),
        4 => s.push_str(&format!("{}.", rng.below(100))),
        _ => s.push_str(&format!("{}", rng.below(10))),
    }
    // exponent (digits only: Rust re-prints the exponent through f64)
    match rng.below(8) {
        0 => s.push_str(&format!("e{}", rng.below(30))),
        1 => s.push_str(&format!("E+{}", rng.below(30))),
        2 => s.push_str(&format!("e-{}", rng.below(30))),
        3 => s.push_str(&format!("e{:02}", rng.below(30))),
        _ => {}
    }
    // unit
    match rng.below(8) {
        0 => {}
        1..=3 => {
            let u: &&'static Unit = rng.pick(&units[..]);
            s.push_str(u.symbol());
        }
        4 => {
            let u: &'static Unit = *rng.pick(&units[..]);
            let id: &String = rng.pick(&u.ids[..]);
            s.push_str(id);
        }
        5 => {
            let u: &'static Unit = *rng.pick(&units[..]);
            let id: String = rng.pick(&u.ids[..]).clone();
            s.push_str(&mutate_id(rng, &id));
        }
        6 => {
            let t: &&str = rng.pick(&["e", "E", "e5", "E-", "e+", "em", "Em", "eV", "_m", "m_", "%", "$", "/h", "kW/", "Ee3", "ee"][..]);
            s.push_str(t);
        }
        _ => s.push_str(&unit_charish(rng)),
    }
    // what follows the number
    match rng.below(6) {
        0 => s.push(','),
        1 => s.push(' '),
        2 => s.push_str("]"),
        3 => s.push_str("\n"),
        _ => {}
    }
    s.into_bytes()
}

pub fn generate(ctx: &mut Ctx) {
    ctx.case("count", "-");
    // exhaustive: every unit, all of its ids, all magnitudes, both codecs
    let names: Vec<String> = all_units().iter().map(|u| u.name().to_string()).collect();
    for n in names.iter() {
        ctx.case("unit", &vx::h(n));
    }
    // every key of the lookup table: it resolves only if it is an identifier of the unit it leads to
    let mut keys: Vec<String> = UNITS.keys().map(|k| k.to_string()).collect();
    keys.sort();
    for k in &keys {
        ctx.case("nonid:key", &vx::h(k));
    }
    // strings that are (almost surely) no id
    let n_non = ctx.n(3000, 150_000);
    for _ in 0..n_non {
        let mut rng = ctx.rng.fork();
        let s = match rng.below(5) {
            0 => gen::ident(&mut rng),
            1 => gen::text(&mut rng),
            2 => unit_charish(&mut rng),
            _ => {
                let u: &'static Unit = *rng.pick(&all_units()[..]);
                let id: String = rng.pick(&u.ids[..]).clone();
                mutate_id(&mut rng, &id)
            }
        };
        ctx.case("nonid", &vx::h(&s));
    }
    // lexing correspondence
    let n_lex = ctx.n(4000, 200_000);
    for _ in 0..n_lex {
        let mut rng = ctx.rng.fork();
        let t = lex_text(&mut rng);
        ctx.case("lex", &vx::hex(&t));
    }
}
