//! C10 — not built yet.
use crate::ctx::{CaseOut, Ctx};

pub fn exec(_label: &str, _input: &str, _out: &mut CaseOut) {}

pub fn generate(_ctx: &mut Ctx) {}
