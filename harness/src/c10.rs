//! C10 — encoders never panic on any constructible value.
//!
//! input: `v <VX value>` | `zimg <hex zinc text>` | `jimg <hex json text>` | `chain <kind> <depth>`.
//! Each encoder (Zinc, Hayson to_string/to_vec/to_value, Display, Dict::dis) runs under its own
//! `catch_unwind`; a panic is an oracle failure naming the encoder.  Correspondence: the Zinc text
//! of the value equals the model's (`C10 enc V`), the decoder's image re-encodes to what the model
//! says (`C10 enc V` on the decoded value).

use crate::ctx::{CaseOut, Ctx};
use crate::gen::{self, Cfg};
use crate::vx;
use libhaystack::encoding::zinc::decode::from_str;
use libhaystack::encoding::zinc::encode::to_zinc_string;
use libhaystack::val::*;
use std::panic::{catch_unwind, AssertUnwindSafe};

fn ascii_xstr_types(v: &Value) -> bool {
    fn d(d: &Dict) -> bool {
        d.values().all(ascii_xstr_types)
    }
    match v {
        Value::XStr(x) => x.r#type.chars().next().map_or(true, |c| c.is_ascii()),
        Value::List(l) => l.iter().all(ascii_xstr_types),
        Value::Dict(dd) => d(dd),
        Value::Grid(g) => {
            g.meta.as_ref().map_or(true, d) && g.columns.iter().all(|c| c.meta.as_ref().map_or(true, d)) && g.rows.iter().all(d)
        }
        _ => true,
    }
}

pub fn encode_all(v: &Value, out: &mut CaseOut, correspond: bool) {
    match catch_unwind(AssertUnwindSafe(|| to_zinc_string(v))) {
        Err(_) => out.fail("panic_zinc", format!("to_zinc_string panicked on {}", vx::show(v))),
        Ok(r) => {
            if correspond && ascii_xstr_types(v) {
                let reply = match r {
                    Ok(t) => format!("ok {}", vx::h(&t)),
                    Err(_) => "err".into(),
                };
                out.req(format!("C10 enc {}", vx::show(v)), reply);
            }
        }
    }
    if catch_unwind(AssertUnwindSafe(|| serde_json::to_string(v).map(|s| s.len()))).is_err() {
        out.fail("panic_json", format!("serde_json::to_string panicked on {}", vx::show(v)));
    }
    if catch_unwind(AssertUnwindSafe(|| serde_json::to_vec(v).map(|s| s.len()))).is_err() {
        out.fail("panic_json", format!("serde_json::to_vec panicked on {}", vx::show(v)));
    }
    if catch_unwind(AssertUnwindSafe(|| serde_json::to_value(v).is_ok())).is_err() {
        out.fail("panic_json", format!("serde_json::to_value panicked on {}", vx::show(v)));
    }
    if catch_unwind(AssertUnwindSafe(|| v.to_string().len())).is_err() {
        out.fail("panic_display", format!("Value::to_string panicked on {}", vx::show(v)));
    }
    if let Value::Dict(d) = v {
        if catch_unwind(AssertUnwindSafe(|| d.dis().len())).is_err() {
            out.fail("panic_dis", format!("Dict::dis panicked on {}", vx::show(v)));
        }
    }
    if let Value::Grid(g) = v {
        for r in &g.rows {
            if catch_unwind(AssertUnwindSafe(|| r.dis().len())).is_err() {
                out.fail("panic_dis", format!("Dict::dis panicked on a row of {}", vx::show(v)));
            }
        }
    }
}

/// a value nested `depth` deep
pub fn chain(kind: &str, depth: usize) -> Value {
    let mut v = Value::XStr(XStr { r#type: String::new(), value: String::new() });
    for i in 0..depth {
        v = match kind {
            "list" => Value::List(vec![v]),
            "dict" => {
                let mut d = Dict::new();
                d.insert(if i % 2 == 0 { "a".into() } else { String::new() }, v);
                Value::Dict(d)
            }
            "grid" => {
                let mut d = Dict::new();
                d.insert("a".into(), v);
                Value::Grid(Grid { meta: None, columns: vec![Column { name: "a".into(), meta: None }], rows: vec![d], ver: "3.0".into() })
            }
            _ => {
                let mut d = Dict::new();
                d.insert("m".into(), v);
                match i % 3 {
                    0 => Value::List(vec![Value::Dict(d)]),
                    1 => Value::Grid(Grid { meta: Some(d), columns: vec![], rows: vec![], ver: String::new() }),
                    _ => Value::Grid(Grid { meta: None, columns: vec![Column { name: "é".into(), meta: Some(d) }], rows: vec![Dict::new()], ver: "x".into() }),
                }
            }
        };
    }
    v
}

/// a writer that takes `left` bytes and then fails (a full buffer, a closed socket)
struct FailAfter {
    left: usize,
}
impl std::io::Write for FailAfter {
    fn write(&mut self, buf: &[u8]) -> std::io::Result<usize> {
        if self.left == 0 {
            return Err(std::io::Error::new(std::io::ErrorKind::WriteZero, "buffer full"));
        }
        let n = buf.len().min(self.left);
        self.left -= n;
        Ok(n)
    }
    fn flush(&mut self) -> std::io::Result<()> {
        Ok(())
    }
}

/// The value is written into writers that fail at every offset of its text (an error, never a panic), several hundred
/// failed writes on this thread; AFTERWARDS ordinary values are offered to every encoder: whatever a writer keeps
/// between calls must not turn an earlier failure into a panic or an error on a value that used to encode.
fn failing_writers(v: &Value, out: &mut CaseOut) {
    use libhaystack::encoding::zinc::encode::ToZinc;
    let full = match to_zinc_string(v) {
        Ok(t) => t,
        Err(_) => return,
    };
    let step = (full.len() / 150).max(1);
    let mut k = 0;
    while k < full.len() {
        for _ in 0..3 {
            let mut w = FailAfter { left: k };
            match catch_unwind(AssertUnwindSafe(|| v.to_zinc(&mut w).is_ok())) {
                Err(_) => out.fail("panic_zinc", format!("to_zinc panicked when its writer failed after {k} bytes, on {}", vx::show(v))),
                Ok(true) => out.fail("harness", format!("to_zinc succeeded into a writer that fails after {k} of {} bytes", full.len())),
                Ok(false) => {}
            }
        }
        k += step;
    }
    out.stat("after_failed_writes");
    // afterwards: ordinary values, and the value itself, still encode
    let mut d = Dict::new();
    d.insert("a".into(), Value::List(vec![Value::make_number(1.0)]));
    d.insert("dis".into(), Value::make_str("x"));
    let ordinary = [
        Value::List(vec![Value::make_number(1.0)]),
        Value::Dict(d.clone()),
        Value::Grid(Grid::make_from_dicts(vec![d])),
        crate::c02::wf_chain("mix", 12),
        v.clone(),
    ];
    for o in &ordinary {
        match catch_unwind(AssertUnwindSafe(|| to_zinc_string(o))) {
            Err(_) => out.fail("panic_zinc", format!("after failed writes on this thread, to_zinc_string panics on {}", vx::show(o))),
            Ok(Err(e)) => out.fail("enc_err_after_failures", format!("after failed writes on this thread, to_zinc_string fails ({e}) on {}", vx::show(o))),
            Ok(Ok(_)) => {}
        }
        encode_all(o, out, false);
    }
}

pub fn exec(label: &str, input: &str, out: &mut CaseOut) {
    let (mode, rest) = input.split_once(' ').unwrap_or((input, ""));
    if label == "failwriter" {
        if let Some(v) = vx::parse(rest) {
            out.nontrivial = true;
            failing_writers(&v, out);
        }
        return;
    }
    match mode {
        "v" => match vx::parse(rest) {
            Some(v) => {
                out.nontrivial = true;
                out.stat(&format!("kind:{}", crate::c01::kind_name(&v)));
                encode_all(&v, out, true);
            }
            None => out.fail("harness", "unparsable VX input".into()),
        },
        "zimg" => {
            if let Some(text) = vx::unh(rest) {
                if let Ok(Ok(v)) = catch_unwind(|| from_str(&text)) {
                    out.nontrivial = true;
                    out.stat("zinc_image");
                    encode_all(&v, out, true);
                }
            }
        }
        "jimg" => {
            if let Some(text) = vx::unh(rest) {
                if let Ok(Ok(v)) = catch_unwind(|| serde_json::from_str::<Value>(&text)) {
                    out.nontrivial = true;
                    out.stat("json_image");
                    encode_all(&v, out, true);
                }
            }
        }
        "m3" => {
            // `m3 <utc seconds> <zone>`: built here because even printing such a value panics
            use chrono::TimeZone;
            let mut it = rest.split(' ');
            let secs: i64 = it.next().and_then(|s| s.parse().ok()).unwrap_or(0);
            let tz: chrono_tz::Tz = it.next().and_then(|s| s.parse().ok()).unwrap_or(chrono_tz::UTC);
            if let Some(dt) = tz.timestamp_opt(secs, 0).single() {
                out.nontrivial = true;
                out.stat("extreme_datetime");
                let v = Value::DateTime(DateTime::from(dt));
                if catch_unwind(AssertUnwindSafe(|| to_zinc_string(&v).map(|s| s.len()))).is_err() {
                    out.fail("panic_zinc_m3", format!("to_zinc_string panicked on the timestamp {secs} s in {tz}"));
                }
                if catch_unwind(AssertUnwindSafe(|| serde_json::to_string(&v).map(|s| s.len()))).is_err() {
                    out.fail("panic_json_m3", format!("serde_json::to_string panicked on the timestamp {secs} s in {tz}"));
                }
            }
        }
        "du" => {
            // `du <shape>`: a Number whose unit is the database's DEFAULT_UNIT (what `get_unit_or_default`
            // answers for an unknown name; it has no identifiers), built here through the public fields
            let unit = match rest {
                "0" | "1" | "2" | "3" => libhaystack::units::get_unit_or_default("no such unit"),
                _ => &*libhaystack::units::DEFAULT_UNIT,
            };
            let n = Value::Number(Number { value: 5.5, unit: Some(unit) });
            let v = match rest {
                "1" | "5" => Value::List(vec![Value::Marker, n]),
                "2" | "6" => {
                    let mut d = Dict::new();
                    d.insert("dis".into(), n);
                    Value::Dict(d)
                }
                "3" | "7" => {
                    let mut d = Dict::new();
                    d.insert("a".into(), n.clone());
                    let mut m = Dict::new();
                    m.insert("m".into(), n);
                    Value::Grid(Grid { meta: Some(m.clone()), columns: vec![Column { name: "a".into(), meta: Some(m) }], rows: vec![d], ver: "3.0".into() })
                }
                _ => n,
            };
            out.nontrivial = true;
            out.stat("default_unit");
            encode_all(&v, out, false);
        }
        "chain" => {
            let mut it = rest.split(' ');
            let kind = it.next().unwrap_or("list");
            let depth: usize = it.next().and_then(|s| s.parse().ok()).unwrap_or(1);
            out.nontrivial = true;
            out.stat("chain");
            let v = chain(kind, depth);
            encode_all(&v, out, depth <= 16);
        }
        _ => out.fail("harness", format!("unknown mode {mode}")),
    }
}

pub fn generate(ctx: &mut Ctx) {
    // the shapes the property names: empty / non-ASCII strings in every position, NaN, empty collections,
    // grids whose rows and columns disagree, zero columns
    let e = String::new;
    let mut named: Vec<Value> = vec![
        Value::XStr(XStr { r#type: e(), value: e() }),
        Value::XStr(XStr { r#type: "élan".into(), value: "x".into() }),
        Value::XStr(XStr { r#type: "ß".into(), value: "\"".into() }),
        Value::XStr(XStr { r#type: "😀".into(), value: "\\".into() }),
        Value::Ref(Ref { value: e(), dis: Some(e()) }),
        Value::Ref(Ref { value: "é \"".into(), dis: Some("\"\\".into()) }),
        Value::Symbol(Symbol { value: e() }),
        Value::Uri(Uri { value: "\u{0}`\\é😀".into() }),
        Value::Str(Str { value: "\u{0}\u{1f}\"\\$é😀".into() }),
        Value::make_number(f64::NAN),
        Value::Number(Number { value: f64::NAN, unit: libhaystack::units::get_unit("m") }),
        Value::Number(Number { value: f64::NEG_INFINITY, unit: libhaystack::units::get_unit("%") }),
        Value::Coord(Coord { lat: f64::NAN, long: f64::INFINITY }),
        Value::List(vec![]),
        Value::Dict(Dict::new()),
        Value::Grid(Grid::default()),
        Value::Grid(Grid { meta: Some(Dict::new()), columns: vec![], rows: vec![Dict::new(), Dict::new()], ver: e() }),
    ];
    let mut d = Dict::new();
    d.insert(e(), Value::Null);
    d.insert("é".into(), Value::Marker);
    d.insert("a b".into(), Value::make_str(""));
    named.push(Value::Dict(d.clone()));
    named.push(Value::Grid(Grid { meta: Some(d.clone()), columns: vec![Column { name: e(), meta: Some(d.clone()) }], rows: vec![d.clone()], ver: "\"".into() }));
    named.push(Value::Grid(Grid { meta: None, columns: vec![Column { name: "a".into(), meta: None }], rows: vec![d.clone()], ver: "3.0".into() }));
    for key in ["dis", "disMacro", "disKey", "name", "def", "tag", "navName", "id"] {
        for val in [Value::make_str("$a ${b} $<c> $"), Value::Null, Value::XStr(XStr { r#type: e(), value: e() }), Value::make_number(f64::NAN)] {
            let mut dd = Dict::new();
            dd.insert(key.into(), val);
            named.push(Value::Dict(dd));
        }
    }
    // records whose display macro leads back to itself or to each other (whatever the expansion does with the
    // substituted text, it must come back)
    for tags in [
        vec![("disMacro", "$disMacro")],
        vec![("disMacro", "${disMacro} x")],
        vec![("navName", "Fan of $navName"), ("disMacro", "$equipRef $navName")],
        vec![("a", "<$b>"), ("b", "<$a>"), ("disMacro", "${a}")],
        vec![("dis", "$dis"), ("disMacro", "$dis $name"), ("name", "$disMacro")],
        vec![("disKey", "$disKey"), ("disMacro", "$<$disMacro> $disKey")],
    ] {
        let mut dd = Dict::new();
        for (k, v) in tags {
            dd.insert(k.into(), Value::make_str(v));
        }
        named.push(Value::Dict(dd));
    }
    // display macros whose `$` stands where nothing can follow it (end of the pattern, before a blank, doubled), alone
    // and after a macro that resolves - a scanner that looks at "the character after `$`" must not look past the end
    for pat in ["$", "a$", "US$", "$$", "$ ", "cost in $", "$a$", "${a}$", "$<a>$", "${", "$<", "${a", "$<a", "é$", "$é", "😀$"] {
        for with_a in [false, true] {
            let mut dd = Dict::new();
            dd.insert("disMacro".into(), Value::make_str(pat));
            if with_a {
                dd.insert("a".into(), Value::make_str("x$"));
            }
            named.push(Value::Dict(dd.clone()));
            named.push(Value::List(vec![Value::Dict(dd)]));
        }
    }
    // leap seconds (`23:59:60`, `12:30:60.25`: second 59 with 10^9 or more nanoseconds), as both decoders hand them out
    for (h, m, ns) in [(23u32, 59u32, 1_000_000_000u32), (12, 30, 1_250_000_000), (0, 0, 1_999_999_999), (7, 7, 1_000_000_001), (23, 59, 1_500_000_000)] {
        let t = Value::Time(Time::from(chrono::NaiveTime::from_hms_nano_opt(h, m, 59, ns).unwrap()));
        named.push(t.clone());
        let mut dd = Dict::new();
        dd.insert("dis".into(), t.clone());
        dd.insert("t".into(), t.clone());
        named.push(Value::List(vec![t.clone(), Value::Dict(dd.clone())]));
        named.push(Value::Grid(Grid::make_from_dicts(vec![dd])));
    }
    // grids far wider than they are long: 4097 and 5000 columns, without rows, with one row, nested in a list
    for ncols in [4097usize, 5000] {
        let cols: Vec<Column> = (0..ncols).map(|i| Column { name: format!("c{i}"), meta: None }).collect();
        let mut row = Dict::new();
        row.insert("c0".into(), Value::make_number(1.0));
        row.insert(format!("c{}", ncols - 1), Value::Marker);
        let g0 = Grid { meta: None, columns: cols.clone(), rows: vec![], ver: "3.0".into() };
        let g1 = Grid { meta: None, columns: cols, rows: vec![row], ver: "3.0".into() };
        named.push(Value::Grid(g0));
        named.push(Value::List(vec![Value::Grid(g1)]));
    }
    for v in named {
        ctx.case("named", &format!("v {}", vx::show(&v)));
    }
    // writers that fail at every offset, then ordinary values
    for (kind, depth) in [("list", 6usize), ("dict", 6), ("grid", 4), ("mix", 12), ("mix", 30)] {
        ctx.case("failwriter", &format!("v {}", vx::show(&crate::c02::wf_chain(kind, depth))));
    }
    // timestamps whose LOCAL time is ambiguous or special in their zone (both passes of the repeated hour at the end of
    // daylight saving time, the instants around the skipped hour, offsets with seconds), with sub-second parts:
    // anything an encoder does through the local wall clock fails exactly there
    for dt in gen::dst_edge_datetimes().into_iter().chain(gen::lmt_datetimes()).chain(gen::leap_datetimes()) {
        let v = Value::DateTime(dt);
        ctx.case("dst", &format!("v {}", vx::show(&v)));
        let mut dd = Dict::new();
        dd.insert("ts".into(), v.clone());
        dd.insert("dis".into(), v.clone());
        ctx.case("dst", &format!("v {}", vx::show(&Value::List(vec![v.clone(), Value::Dict(dd)]))));
    }
    // known finding M3: a timestamp whose LOCAL time is outside chrono's representable range
    ctx.case("m3", "m3 8210266873199 Australia/Sydney");
    ctx.case("m3", "m3 -8334601228800 America/New_York");
    // a Number carrying the unit database's default unit (no identifiers)
    for k in 0..8 {
        ctx.case("default_unit", &format!("du {k}"));
    }
    let n = ctx.n(4000, 150_000);
    for i in 0..n {
        let mut rng = ctx.rng.fork();
        let mut cfg = Cfg::any(if i % 8 == 0 { 6 } else { 3 });
        cfg.max_len = 3;
        let v = gen::value(&mut rng, &cfg);
        ctx.case("rand", &format!("v {}", vx::show(&v)));
    }
    for kind in ["list", "dict", "grid", "mix"] {
        for depth in [1usize, 2, 8, 16, 32, 63, 64] {
            ctx.case("chain", &format!("chain {kind} {depth}"));
        }
    }
    // the image of both decoders on damaged documents
    let docs = crate::c03::sample_docs(ctx, ctx.n(30, 200));
    let n = ctx.n(2000, 60_000);
    for _ in 0..n {
        let mut rng = ctx.rng.fork();
        let d = rng.pick(&docs).clone();
        let m = if rng.chance(1, 3) { d } else { crate::c03::mutate_bytes(&mut rng, &d) };
        if let Ok(s) = String::from_utf8(m) {
            ctx.case("zimg", &format!("zimg {}", vx::h(&s)));
        }
    }
    let n = ctx.n(1500, 40_000);
    for _ in 0..n {
        let mut rng = ctx.rng.fork();
        let v = gen::value(&mut rng, &Cfg::any(3));
        if let Ok(j) = serde_json::to_string(&v) {
            let m = if rng.chance(1, 2) { j.into_bytes() } else { crate::c03::mutate_bytes(&mut rng, j.as_bytes()) };
            if let Ok(s) = String::from_utf8(m) {
                ctx.case("jimg", &format!("jimg {}", vx::h(&s)));
            }
        }
    }
    for j in ["{\"_kind\":\"xstr\",\"type\":\"\",\"val\":\"x\"}", "{\"_kind\":\"xstr\",\"type\":\"é\",\"val\":\"\"}", "{\"_kind\":\"ref\",\"val\":\"\"}", "{\"_kind\":\"grid\",\"cols\":[],\"rows\":[{\"x\":1}]}", "{\"\":{\"_kind\":\"symbol\",\"val\":\"\"}}"] {
        ctx.case("jimg", &format!("jimg {}", vx::h(j)));
    }
}
