//! C20 — display names follow the documented precedence and macro substitution.
//!
//! Case inputs (all self-contained):
//!   `dis <VX dict> <LOC> <DEF>`            dict_to_dis / HaystackDict::dis on a record
//!   `pat H(pattern) <VX dict> <LOC>`       dis_macro on an arbitrary pattern
//!   `seg <VX dict> <LOC> k (KIND H)*k`     dis_macro on a pattern assembled from pieces
//!                                          KIND: L literal ($-free) | T `$name` | B `${name}` | K `$<key>`
//! with `LOC ::= k (H(key) H(text))*k` (the localisation callback as a finite map) and
//! `DEF ::= H(default) | -`.
//!
//! Correspondence requests (answered by Hs.Drv.C20 with the Lean model):
//!   `C20 dis REC LOC DEF`, `C20 disd REC`, `C20 mac H(pattern) REC LOC`   reply `ok H(text)`
//! where `REC ::= k (H(key) DV)*k`, `DV ::= s H(text) | r H(id) H(dis)|- H(to_string) | o H(to_string)`.
//!
//! Oracles on the real code (what the property states, nothing more):
//!   precedence   the display string is taken from the first of dis, disMacro, disKey, name, def, tag,
//!                navName, id the record has (a Str gives itself, a disKey its localisation when there is
//!                one, an id Ref its dis or id, a disMacro Str its expansion, any other value the text the
//!                same value gives on its own), else the default
//!   macro_id     a pattern without `$` is returned unchanged
//!   macro_subst  a pattern assembled from `$`-free literals, `$tag`, `${tag}` (tag = a Haystack tag name,
//!                `[a-z][a-zA-Z0-9_]*`, not followed by a further name character) and `$<key>` gives the
//!                concatenation of: the literals verbatim, the tag's display text (Str: the string, Ref:
//!                dis or id, else to_string) when the record has the tag, the key's localisation when there
//!                is one, the macro text verbatim otherwise
//!   (a panic anywhere is recorded by the runner as kind `panic`)

use crate::ctx::{CaseOut, Ctx};
use crate::gen::{self, Cfg};
use crate::rng::Rng;
use crate::vx::{self, h, ho, Rd};
use libhaystack::val::*;
use std::borrow::Cow;
use std::collections::BTreeMap;
use std::panic::{catch_unwind, AssertUnwindSafe};

/// the documented order of precedence (from the statement of the property, NOT from the code)
const DOCUMENTED: [&str; 8] = ["dis", "disMacro", "disKey", "name", "def", "tag", "navName", "id"];

type LocMap = BTreeMap<String, String>;

fn show_loc(l: &LocMap) -> String {
    let mut out = vec![l.len().to_string()];
    for (k, v) in l {
        out.push(h(k));
        out.push(h(v));
    }
    out.join(" ")
}
fn read_loc(rd: &mut Rd) -> Option<LocMap> {
    let k: usize = rd.num()?;
    let mut m = LocMap::new();
    for _ in 0..k {
        let key = rd.hs()?;
        let v = rd.hs()?;
        m.insert(key, v);
    }
    Some(m)
}

/// `Value::to_string()`; None when the Display impl fails (Zinc encoder error: not this property)
fn display_text(v: &Value) -> Option<String> {
    catch_unwind(AssertUnwindSafe(|| v.to_string())).ok()
}

/// the record as the model sees it; None when some value has no display text
fn show_rec(d: &Dict) -> Option<String> {
    let mut out = vec![d.len().to_string()];
    for (k, v) in d.iter() {
        out.push(h(k));
        match v {
            Value::Str(s) => {
                out.push("s".into());
                out.push(h(&s.value));
            }
            Value::Ref(r) => {
                out.push("r".into());
                out.push(h(&r.value));
                out.push(ho(&r.dis));
                out.push(h(&display_text(v)?));
            }
            _ => {
                out.push("o".into());
                out.push(h(&display_text(v)?));
            }
        }
    }
    Some(out.join(" "))
}

fn is_tag_start(c: char) -> bool {
    c.is_ascii_lowercase()
}
fn is_tag_char(c: char) -> bool {
    c.is_ascii_alphanumeric() || c == '_'
}
fn is_tag_name(s: &str) -> bool {
    let mut cs = s.chars();
    match cs.next() {
        Some(c) if is_tag_start(c) => cs.all(is_tag_char),
        _ => false,
    }
}

/// the text a macro substitutes for a tag value
fn macro_text(v: &Value) -> Option<String> {
    Some(match v {
        Value::Str(s) => s.value.clone(),
        Value::Ref(r) => r.dis.clone().unwrap_or_else(|| r.value.clone()),
        _ => display_text(v)?,
    })
}

fn run_macro(pattern: &str, d: &Dict, loc: &LocMap) -> String {
    dis_macro(pattern, |n| d.get(n).map(Cow::Borrowed), |k| loc.get(k).map(|s| Cow::Owned(s.clone()))).into_owned()
}

fn run_dis(d: &Dict, loc: &LocMap, def: &Option<String>) -> String {
    let f = |k: &str| loc.get(k).map(|s| Cow::Owned(s.clone()));
    dict_to_dis(d, &f, def.clone().map(Cow::Owned)).into_owned()
}

pub fn exec(_label: &str, input: &str, out: &mut CaseOut) {
    let (cmd, rest) = input.split_once(' ').unwrap_or((input, ""));
    match cmd {
        "dis" => exec_dis(rest, out),
        "pat" => exec_pat(rest, out),
        "seg" => exec_seg(rest, out),
        _ => out.fail("harness", format!("unknown C20 case `{cmd}`")),
    }
}

fn exec_dis(rest: &str, out: &mut CaseOut) {
    let mut rd = Rd::new(rest);
    let (d, loc, def) = match (|| Some((rd.dict()?, read_loc(&mut rd)?, rd.hos()?)))() {
        Some(x) => x,
        None => return out.fail("harness", "unparsable C20 dis input".into()),
    };
    let rec = match show_rec(&d) {
        Some(r) => r,
        None => return out.stat("skipped:value_without_display_text"),
    };
    out.nontrivial = true;
    let got = run_dis(&d, &loc, &def);
    out.req(format!("C20 dis {rec} {} {}", show_loc(&loc), ho(&def)), format!("ok {}", h(&got)));
    let plain = d.dis().into_owned();
    out.req(format!("C20 disd {rec}"), format!("ok {}", h(&plain)));

    // ---- oracle: precedence ---------------------------------------------------------------
    let first = DOCUMENTED.iter().find(|t| d.get(**t).is_some());
    out.stat(&format!("first:{}", first.copied().unwrap_or("(none)")));
    let check = |what: &str, got: &str, loc: &LocMap, def: &Option<String>, out: &mut CaseOut| {
        let expected: String = match first {
            None => def.clone().unwrap_or_default(),
            Some(t) => {
                let v = d.get(*t).unwrap();
                match (*t, v) {
                    ("disMacro", Value::Str(s)) => run_macro(&s.value, &d, loc),
                    ("disKey", Value::Str(s)) => loc.get(&s.value).cloned().unwrap_or_else(|| s.value.clone()),
                    ("id", Value::Ref(r)) => r.dis.clone().unwrap_or_else(|| r.value.clone()),
                    (_, Value::Str(s)) => s.value.clone(),
                    _ => {
                        // any other value: the text this value gives when it is the only tag
                        let mut single = Dict::new();
                        single.insert(t.to_string(), v.clone());
                        run_dis(&single, loc, def)
                    }
                }
            }
        };
        if got != expected {
            out.fail(
                "precedence",
                format!("{what}: first present display tag is {:?}; expected {:?}, got {:?}", first, expected, got),
            );
        }
    };
    check("dict_to_dis", &got, &loc, &def, out);
    check("HaystackDict::dis", &plain, &LocMap::new(), &None, out);
    if let Some(t) = first {
        out.stat(&format!("kind:{}", kind_name(d.get(*t).unwrap())));
    }
}

fn kind_name(v: &Value) -> &'static str {
    match v {
        Value::Null => "Null",
        Value::Remove => "Remove",
        Value::Marker => "Marker",
        Value::Bool(_) => "Bool",
        Value::Na => "Na",
        Value::Number(_) => "Number",
        Value::Str(_) => "Str",
        Value::Uri(_) => "Uri",
        Value::Ref(r) => {
            if r.dis.is_some() {
                "Ref+dis"
            } else {
                "Ref"
            }
        }
        Value::Symbol(_) => "Symbol",
        Value::Date(_) => "Date",
        Value::Time(_) => "Time",
        Value::DateTime(_) => "DateTime",
        Value::Coord(_) => "Coord",
        Value::XStr(_) => "XStr",
        Value::List(_) => "List",
        Value::Dict(_) => "Dict",
        Value::Grid(_) => "Grid",
    }
}

fn exec_pat(rest: &str, out: &mut CaseOut) {
    let mut rd = Rd::new(rest);
    let (pattern, d, loc) = match (|| Some((rd.hs()?, rd.dict()?, read_loc(&mut rd)?)))() {
        Some(x) => x,
        None => return out.fail("harness", "unparsable C20 pat input".into()),
    };
    let rec = match show_rec(&d) {
        Some(r) => r,
        None => return out.stat("skipped:value_without_display_text"),
    };
    let got = run_macro(&pattern, &d, &loc);
    out.nontrivial = pattern.contains('$');
    out.req(format!("C20 mac {} {rec} {}", h(&pattern), show_loc(&loc)), format!("ok {}", h(&got)));
    if !pattern.contains('$') {
        out.stat("pat:no_dollar");
        if got != pattern {
            out.fail("macro_id", format!("pattern without `$` {:?} came back as {:?}", pattern, got));
        }
    } else if got == pattern {
        out.stat("pat:unchanged");
    } else {
        out.stat("pat:substituted");
    }
}

fn exec_seg(rest: &str, out: &mut CaseOut) {
    let mut rd = Rd::new(rest);
    let parsed = (|| {
        let d = rd.dict()?;
        let loc = read_loc(&mut rd)?;
        let k: usize = rd.num()?;
        let mut segs = Vec::new();
        for _ in 0..k {
            let kind = rd.tok()?.to_string();
            let text = rd.hs()?;
            segs.push((kind, text));
        }
        Some((d, loc, segs))
    })();
    let (d, loc, segs) = match parsed {
        Some(x) => x,
        None => return out.fail("harness", "unparsable C20 seg input".into()),
    };
    let rec = match show_rec(&d) {
        Some(r) => r,
        None => return out.stat("skipped:value_without_display_text"),
    };
    // the pattern and what the property says it expands to
    let mut pattern = String::new();
    let mut expected = String::new();
    let mut pieces: Vec<String> = Vec::new();
    let mut well_formed = true;
    for (kind, text) in &segs {
        let (src, repl) = match kind.as_str() {
            "L" => {
                well_formed &= !text.contains('$');
                (text.clone(), text.clone())
            }
            "T" | "B" => {
                well_formed &= is_tag_name(text);
                let src = if kind == "T" { format!("${text}") } else { format!("${{{text}}}") };
                let repl = match d.get(text) {
                    Some(v) => match macro_text(v) {
                        Some(t) => t,
                        None => return out.stat("skipped:value_without_display_text"),
                    },
                    None => src.clone(),
                };
                (src, repl)
            }
            "K" => {
                well_formed &= !text.is_empty() && !text.contains('>') && !text.contains('$');
                let src = format!("$<{text}>");
                let repl = loc.get(text).cloned().unwrap_or_else(|| src.clone());
                (src, repl)
            }
            _ => return out.fail("harness", format!("unknown piece kind {kind}")),
        };
        pattern.push_str(&src);
        expected.push_str(&repl);
        pieces.push(src);
    }
    // a `$name` must not be followed by a further name character (the name would be longer)
    let mut offset = 0;
    for (i, (kind, _)) in segs.iter().enumerate() {
        offset += pieces[i].len();
        if kind == "T" {
            if let Some(c) = pattern[offset..].chars().next() {
                well_formed &= !is_tag_char(c);
            }
        }
    }
    let got = run_macro(&pattern, &d, &loc);
    out.nontrivial = true;
    out.req(format!("C20 mac {} {rec} {}", h(&pattern), show_loc(&loc)), format!("ok {}", h(&got)));
    if !well_formed {
        out.stat("seg:not_delimited");
        return;
    }
    out.stat("seg:delimited");
    if segs.iter().any(|(k, t)| (k == "T" || k == "B") && t.chars().count() == 1) {
        out.stat("seg:one_letter_tag");
    }
    if got != expected {
        out.fail(
            "macro_subst",
            format!("pattern {:?} (pieces {:?}) expected {:?}, got {:?}", pattern, pieces, expected, got),
        );
    }
}

// ---- generators ---------------------------------------------------------------------------------

const NAMES: &[&str] = &[
    "a", "b", "x", "ab", "aB", "a1", "a_", "a_b", "abc", "equipRef", "siteRef", "navName", "dis", "id", "name", "x1", "foo_Bar",
    "z9_Q",
];
const KEYS: &[&str] = &["k", "pod::hello", "a", "ui::site name", "é", "<x", "{k}", "a b", "::"];

fn lit_piece(rng: &mut Rng) -> String {
    const ALPHA: &[&str] = &[
        " ", " ", "{", "}", "<", ">", "a", "b", "B", "Z", "0", "9", "_", "-", ".", ":", "é", "ü", "中", "😀", "\u{10ffff}", "\n", "\t",
        "ab", "aB", "x1", "}{", "<>", "{a}", "<k>", "\u{0}", "\"", "\\",
    ];
    let n = rng.below(5);
    (0..n).map(|_| *rng.pick(ALPHA)).collect()
}

fn tag_value(rng: &mut Rng, kind: u64) -> Value {
    let cfg = Cfg::wf(1);
    match kind {
        0 => Value::make_str(*rng.pick(&["display", "", "a $b c", "Ünï cödé 中", "$<k>", "x"])),
        1 => Value::Ref(Ref { value: gen::ref_id(rng), dis: None }),
        2 => Value::Ref(Ref { value: gen::ref_id(rng), dis: Some(rng.pick(&["Site 1", "", "é$a", "d"]).to_string()) }),
        3 => Value::Number(gen::number(rng, &cfg)),
        4 => Value::Marker,
        5 => Value::make_bool(rng.chance(1, 2)),
        6 => Value::Str(Str { value: gen::text(rng) }),
        _ => gen::value(rng, &cfg),
    }
}

fn loc_map(rng: &mut Rng, extra: &[String]) -> LocMap {
    let mut m = LocMap::new();
    if rng.chance(1, 4) {
        return m;
    }
    for k in KEYS {
        if rng.chance(1, 2) {
            m.insert(k.to_string(), rng.pick(&["world", "", "L$a", "ß", "Site Name"]).to_string());
        }
    }
    for k in extra {
        if rng.chance(1, 2) {
            m.insert(k.clone(), "translated".to_string());
        }
    }
    m
}

/// a record with some of NAMES bound to values of assorted kinds
fn scope(rng: &mut Rng) -> Dict {
    let mut d = Dict::new();
    for n in NAMES {
        if rng.chance(2, 5) {
            let kind = rng.below(9);
            d.insert(n.to_string(), tag_value(rng, kind));
        }
    }
    // keys that are not tag names: the regex cannot name them
    if rng.chance(1, 4) {
        d.insert("Ab".into(), Value::make_str("upper"));
        d.insert("9a".into(), Value::make_str("digit"));
        d.insert("_a".into(), Value::make_str("underscore"));
    }
    d
}

fn random_pattern(rng: &mut Rng) -> String {
    const TOK: &[&str] = &[
        "$", "$", "$", "{", "}", "<", ">", " ", " ", "$$", "${", "$<", "${}", "$<>", "a", "b", "ab", "aB", "a1", "a_", "a_b", "abc",
        "equipRef", "siteRef", "x", "B", "Ab", "9", "9a", "_", "_a", "-", ".", ":", "::", "pod::hello", "k", "é", "中", "😀", "\n", "\u{0}",
        "$a", "$ab", "${ab}", "$<k>", "${a}", "$<pod::hello>", "$é", "$A", "$_", "$1", "}$", ">$",
    ];
    let n = 1 + rng.below(9);
    (0..n).map(|_| *rng.pick(TOK)).collect()
}

fn fixed_scope() -> (Dict, LocMap) {
    let mut d = Dict::new();
    d.insert("a".into(), Value::make_str("<A>"));
    d.insert("aa".into(), Value::make_str("<AA>"));
    d.insert("aB".into(), Value::make_ref_with_dis("r1", "<dis>"));
    d.insert("a1".into(), Value::make_ref("r2"));
    d.insert("aaa".into(), Value::make_number(2.5));
    d.insert("B".into(), Value::make_str("<upper>"));
    d.insert("1".into(), Value::make_str("<digit>"));
    let mut l = LocMap::new();
    for k in ["a", "aa", "B", "1", " ", "a1", "$a", "{a}", "<a", "a<"] {
        l.insert(k.to_string(), format!("[{k}]"));
    }
    (d, l)
}

pub fn generate(ctx: &mut Ctx) {
    let show_dict = |d: &Dict| vx::show(&Value::Dict(d.clone()));
    // 0. the patterns asserted by the crate's own tests and the documented forms
    {
        let (d, l) = fixed_scope();
        for p in [
            "", "$", "$$", "$a", "${a}", "$<a>", "$aa", "$aB!", "${aB}", "$<zz>", "$zz", "${zz}", "$a$aa", "$aa$a", "${a}${aa}", "$<a><a>",
            "$<a$aa>", "${a", "$<a", "$a}", "$ {a}", "${ a}", "${a }", "$<>", "$<>>", "${}", "$A", "$B", "$1", "$_a", "$é", "$aé", "$aa中",
            "x$a.y", "$a_", "$a-$aa", "$aaa", "$aaaa", "a$", "$<\n>", "$<a\n>", "$\u{0}", "€$a1€",
        ] {
            ctx.case("doc", &format!("pat {} {} {}", h(p), show_dict(&d), show_loc(&l)));
        }
    }
    // 1. all 2^8 subsets of the display tags x value kinds
    let variants = ctx.n(8, 48);
    for mask in 0u32..256 {
        for variant in 0..variants {
            let mut rng = ctx.rng.fork();
            let mut d = Dict::new();
            let mut keys_for_loc = Vec::new();
            for (i, t) in DOCUMENTED.iter().enumerate() {
                if mask & (1 << i) == 0 {
                    continue;
                }
                let kind = if variant < 7 { variant } else { rng.below(9) };
                let mut v = tag_value(&mut rng, kind);
                if *t == "disMacro" && matches!(v, Value::Str(_)) && rng.chance(3, 4) {
                    v = Value::make_str(&random_pattern(&mut rng));
                }
                if *t == "disKey" {
                    if let Value::Str(s) = &v {
                        keys_for_loc.push(s.value.clone());
                    }
                }
                d.insert(t.to_string(), v);
            }
            // other tags the macro may name
            if rng.chance(1, 2) {
                for (k, v) in scope(&mut rng).iter() {
                    if !DOCUMENTED.contains(&k.as_str()) {
                        d.insert(k.clone(), v.clone());
                    }
                }
            }
            let loc = loc_map(&mut rng, &keys_for_loc);
            let def = match rng.below(3) {
                0 => None,
                1 => Some("default".to_string()),
                _ => Some(String::new()),
            };
            ctx.case("dis", &format!("dis {} {} {}", show_dict(&d), show_loc(&loc), ho(&def)));
        }
    }
    // 2. every string up to a length over a small alphabet, in a fixed scope
    {
        let (d, l) = fixed_scope();
        let (ds, ls) = (show_dict(&d), show_loc(&l));
        let alpha = ['$', '{', '}', '<', '>', 'a', 'B', '1', ' '];
        let max_len = ctx.n(4, 5) as usize;
        for len in 1..=max_len {
            let total = alpha.len().pow(len as u32);
            for n in 0..total {
                let mut m = n;
                let mut p = String::new();
                for _ in 0..len {
                    p.push(alpha[m % alpha.len()]);
                    m /= alpha.len();
                }
                // strings without `$` are all alike: keep one in sixteen of them
                if p.contains('$') || ctx.rng.chance(1, 16) {
                    ctx.case("enum", &format!("pat {} {ds} {ls}", h(&p)));
                }
            }
        }
    }
    // 3. random patterns over the macro alphabet
    for _ in 0..ctx.n(3000, 150_000) {
        let mut rng = ctx.rng.fork();
        let d = scope(&mut rng);
        let loc = loc_map(&mut rng, &[]);
        let p = if rng.chance(1, 8) { gen::text(&mut rng) } else { random_pattern(&mut rng) };
        ctx.case("rand", &format!("pat {} {} {}", h(&p), show_dict(&d), show_loc(&loc)));
    }
    // 4. assembled patterns with a known expansion
    for _ in 0..ctx.n(3000, 150_000) {
        let mut rng = ctx.rng.fork();
        let d = scope(&mut rng);
        let loc = loc_map(&mut rng, &[]);
        let k = 1 + rng.below(6);
        let mut toks = vec![k.to_string()];
        for _ in 0..k {
            let (kind, text) = match rng.below(8) {
                0 | 1 | 2 => ("L", lit_piece(&mut rng)),
                3 | 4 => ("T", rng.pick(NAMES).to_string()),
                5 => ("B", rng.pick(NAMES).to_string()),
                6 => ("K", rng.pick(KEYS).to_string()),
                _ => ("T", gen::ident(&mut rng)),
            };
            toks.push(kind.to_string());
            toks.push(h(&text));
        }
        ctx.case("seg", &format!("seg {} {} {}", show_dict(&d), show_loc(&loc), toks.join(" ")));
    }
}
