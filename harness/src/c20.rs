//! C20 — display names follow the documented precedence and macro substitution.
//!
//! Case inputs (all self-contained):
//!   `dis <VX dict> <LOC> <DEF>`            dict_to_dis / HaystackDict::dis on a record
//!   `pat H(pattern) <VX dict> <LOC>`       dis_macro on an arbitrary pattern
//!   `seg <VX dict> <LOC> k (KIND H)*k`     dis_macro on a pattern assembled from pieces
//!                                          KIND: L literal ($-free) | T `$name` | B `${name}` | K `$<key>`
//! with `LOC ::= k (H(key) H(text))*k` (the localisation callback as a finite map) and
//! `DEF ::= H(default) | -`.
//!
//! Correspondence requests (answered by Hs.Drv.C20 with the Lean model):
//!   `C20 dis REC LOC DEF`, `C20 disd REC`, `C20 mac H(pattern) REC LOC`   reply `ok H(text)`
//! where `REC ::= k (H(key) DV)*k`, `DV ::= s H(text) | r H(id) H(dis)|- H(to_string) | o H(to_string)`.
//!
//! Oracles on the real code (what the property states, nothing more):
//!   precedence   the display string is taken from the first of dis, disMacro, disKey, name, def, tag,
//!                navName, id the record has (a Str gives itself, a disKey its localisation when there is
//!                one, an id Ref its dis or id, a disMacro Str its expansion, any other value the text the
//!                same value gives on its own), else the default
//!   macro_id     a pattern without `$` is returned unchanged
//!   macro_subst  a pattern assembled from `$`-free literals, `$tag`, `${tag}` (tag = a Haystack tag name,
//!                `[a-z][a-zA-Z0-9_]*`, not followed by a further name character) and `$<key>` gives the
//!                concatenation of: the literals verbatim, the tag's display text (Str: the string, Ref:
//!                dis or id, else to_string) when the record has the tag, the key's localisation when there
//!                is one, the macro text verbatim otherwise
//!   (a panic anywhere is recorded by the runner as kind `panic`)

use crate::ctx::{CaseOut, Ctx};
use crate::gen::{self, Cfg};
use crate::rng::Rng;
use crate::vx::{self, h, ho, Rd};
use libhaystack::val::*;
use std::borrow::Cow;
use std::collections::BTreeMap;
use std::panic::{catch_unwind, AssertUnwindSafe};

/// the documented order of precedence (from the statement of the property, NOT from the code)
const DOCUMENTED: [&str; 8] = ["dis", "disMacro", "disKey", "name", "def", "tag", "navName", "id"];

type LocMap = BTreeMap<String, String>;

fn show_loc(l: &LocMap) -> String {
    let mut out = vec![l.len().to_string()];
    for (k, v) in l {
        out.push(h(k));
        out.push(h(v));
    }
    out.join(" ")
}
fn read_loc(rd: &mut Rd) -> Option<LocMap> {
    let k: usize = rd.num()?;
    let mut m = LocMap::new();
    for _ in 0..k {
        let key = rd.hs()?;
        let v = rd.hs()?;
        m.insert(key, v);
    }
    Some(m)
}

/// `Value::to_string()`; None when the Display impl fails (Zinc encoder error: not this property)
fn display_text(v: &Value) -> Option<String> {
    catch_unwind(AssertUnwindSafe(|| v.to_string())).ok()
}

/// the record as the model sees it; None when some value has no display text
fn show_rec(d: &Dict) -> Option<String> {
    let mut out = vec![d.len().to_string()];
    for (k, v) in d.iter() {
        out.push(h(k));
        match v {
            Value::Str(s) => {
                out.push("s".into());
                out.push(h(&s.value));
            }
            Value::Ref(r) => {
                out.push("r".into());
                out.push(h(&r.value));
                out.push(ho(&r.dis));
                out.push(h(&display_text(v)?));
            }
            _ => {
                out.push("o".into());
                out.push(h(&display_text(v)?));
            }
        }
    }
    Some(out.join(" "))
}

fn is_tag_start(c: char) -> bool {
    c.is_ascii_lowercase()
}
fn is_tag_char(c: char) -> bool {
    c.is_ascii_alphanumeric() || c == '_'
}
fn is_tag_name(s: &str) -> bool {
    let mut cs = s.chars();
    match cs.next() {
        Some(c) if is_tag_start(c) => cs.all(is_tag_char),
        _ => false,
    }
}

/// the text a macro substitutes for a tag value
fn macro_text(v: &Value) -> Option<String> {
    Some(match v {
        Value::Str(s) => s.value.clone(),
        Value::Ref(r) => r.dis.clone().unwrap_or_else(|| r.value.clone()),
        _ => display_text(v)?,
    })
}

fn run_macro(pattern: &str, d: &Dict, loc: &LocMap) -> String {
    dis_macro(pattern, |n| d.get(n).map(Cow::Borrowed), |k| loc.get(k).map(|s| Cow::Owned(s.clone()))).into_owned()
}

fn run_dis(d: &Dict, loc: &LocMap, def: &Option<String>) -> String {
    let f = |k: &str| loc.get(k).map(|s| Cow::Owned(s.clone()));
    dict_to_dis(d, &f, def.clone().map(Cow::Owned)).into_owned()
}

pub fn exec(_label: &str, input: &str, out: &mut CaseOut) {
    let (cmd, rest) = input.split_once(' ').unwrap_or((input, ""));
    match cmd {
        "dis" => exec_dis(rest, out),
        "pat" => exec_pat(rest, out),
        "seg" => exec_seg(rest, out),
        _ => out.fail("harness", format!("unknown C20 case `{cmd}`")),
    }
}

fn exec_dis(rest: &str, out: &mut CaseOut) {
    let mut rd = Rd::new(rest);
    let (d, loc, def) = match (|| Some((rd.dict()?, read_loc(&mut rd)?, rd.hos()?)))() {
        Some(x) => x,
        None => return out.fail("harness", "unparsable C20 dis input".into()),
    };
    let rec = match show_rec(&d) {
        Some(r) => r,
        None => return out.stat("skipped:value_without_display_text"),
    };
    out.nontrivial = true;
    let got = run_dis(&d, &loc, &def);
    out.req(format!("C20 dis {rec} {} {}", show_loc(&loc), ho(&def)), format!("ok {}", h(&got)));
    let plain = d.dis().into_owned();
    out.req(format!("C20 disd {rec}"), format!("ok {}", h(&plain)));

    // ---- oracle: precedence ---------------------------------------------------------------
    let first = DOCUMENTED.iter().find(|t| d.get(**t).is_some());
    out.stat(&format!("first:{}", first.copied().unwrap_or("(none)")));
    let check = |what: &str, got: &str, loc: &LocMap, def: &Option<String>, out: &mut CaseOut| {
        let expected: String = match first {
            None => def.clone().unwrap_or_default(),
            Some(t) => {
                let v = d.get(*t).unwrap();
                match (*t, v) {
                    ("disMacro", Value::Str(s)) => run_macro(&s.value, &d, loc),
                    ("disKey", Value::Str(s)) => loc.get(&s.value).cloned().unwrap_or_else(|| s.value.clone()),
                    ("id", Value::Ref(r)) => r.dis.clone().unwrap_or_else(|| r.value.clone()),
                    (_, Value::Str(s)) => s.value.clone(),
                    _ => {
                        // any other value: the text this value gives when it is the only tag
                        let mut single = Dict::new();
                        single.insert(t.to_string(), v.clone());
                        run_dis(&single, loc, def)
                    }
                }
            }
        };
        if got != expected {
            out.fail(
                "precedence",
                format!("{what}: first present display tag is {:?}; expected {:?}, got {:?}", first, expected, got),
            );
        }
    };
    check("dict_to_dis", &got, &loc, &def, out);
    check("HaystackDict::dis", &plain, &LocMap::new(), &None, out);
    if let Some(t) = first {
        out.stat(&format!("kind:{}", kind_name(d.get(*t).unwrap())));
    }
}

fn kind_name(v: &Value) -> &'static str {
    match v {
        Value::Null => "Null",
        Value::Remove => "Remove",
        Value::Marker => "Marker",
        Value::Bool(_) => "Bool",
        Value::Na => "Na",
        Value::Number(_) => "Number",
        Value::Str(_) => "Str",
        Value::Uri(_) => "Uri",
        Value::Ref(r) => {
            if r.dis.is_some() {
                "Ref+dis"
            } else {
                "Ref"
            }
        }
        Value::Symbol(_) => "Symbol",
        Value::Date(_) => "Date",
        Value::Time(_) => "Time",
        Value::DateTime(_) => "DateTime",
        Value::Coord(_) => "Coord",
        Value::XStr(_) => "XStr",
        Value::List(_) => "List",
        Value::Dict(_) => "Dict",
        Value::Grid(_) => "Grid",
    }
}

fn exec_pat(rest: &str, out: &mut CaseOut) {
    let mut rd = Rd::new(rest);
    let (pattern, d, loc) = match (|| Some((rd.hs()?, rd.dict()?, read_loc(&mut rd)?)))() {
        Some(x) => x,
        None => return out.fail("harness", "unparsable C20 pat input".into()),
    };
    let rec = match show_rec(&d) {
        Some(r) => r,
        None => return out.stat("skipped:value_without_display_text"),
    };
    let got = run_macro(&pattern, &d, &loc);
    out.nontrivial = pattern.contains('$');
    out.req(format!("C20 mac {} {rec} {}", h(&pattern), show_loc(&loc)), format!("ok {}", h(&got)));
    if !pattern.contains('$') {
        out.stat("pat:no_dollar");
        if got != pattern {
            out.fail("macro_id", format!("pattern without `$` {:?} came back as {:?}", pattern, got));
        }
    } else if got == pattern {
        out.stat("pat:unchanged");
    } else {
        out.stat("pat:substituted");
    }
}

fn exec_seg(rest: &str, out: &mut CaseOut) {
    let mut rd = Rd::new(rest);
    let parsed = (|| {
        let d = rd.dict()?;
        let loc = read_loc(&mut rd)?;
        let k: usize = rd.num()?;
        let mut segs = Vec::new();
        for _ in 0..k {
            let kind = rd.tok()?.to_string();
            let text = rd.hs()?;
            segs.push((kind, text));
        }
        Some((d, loc, segs))
    })();
    let (d, loc, segs) = match parsed {
        Some(x) => x,
        None => return out.fail("harness", "unparsable C20 seg input".into()),
    };
    let rec = match show_rec(&d) {
        Some(r) => r,
        None => return out.stat("skipped:value_without_display_text"),
    };
    // the pattern and what the property says it expands to
    let mut pattern = String::new();
    let mut expected = String::new();
    let mut pieces: Vec<String> = Vec::new();
    let mut well_formed = true;
    for (kind, text) in &segs {
        let (src, repl) = match kind.as_str() {
            "L" => {
                well_formed &= !text.contains('$');
                (text.clone(), text.clone())
            }
            "T" | "B" => {
                well_formed &= is_tag_name(text);
                let src = if kind == "T" { format!("${text}") } else { format!("${{{text}}}") };
                let repl = match d.get(text) {
                    Some(v) => match macro_text(v) {
                        Some(t) => t,
                        None => return out.stat("skipped:value_without_display_text"),
                    },
                    None => src.clone(),
                };
                (src, repl)
            }
            "K" => {
                well_formed &= !text.is_empty() && !text.contains('>') && !text.contains('$');
                let src = format!("$<{text}>");
                let repl = loc.get(text).cloned().unwrap_or_else(|| src.clone());
                (src, repl)
            }
            _ => return out.fail("harness", format!("unknown piece kind {kind}")),
        };
        pattern.push_str(&src);
        expected.push_str(&repl);
        pieces.push(src);
    }
    // a `$name` must not be followed by a further name character (the name would be longer)
    let mut offset = 0;
    for (i, (kind, _)) in segs.iter().enumerate() {
        offset += pieces[i].len();
        if kind == "T" {
            if let Some(c) = pattern[offset..].chars().next() {
                well_formed &= !is_tag_char(c);
            }
        }
    }
    let got = run_macro(&pattern, &d, &loc);
    out.nontrivial = true;
    out.req(format!("C20 mac {} {rec} {}", h(&pattern), show_loc(&loc)), format!("ok {}", h(&got)));
    if !well_formed {
        out.stat("seg:not_delimited");
        return;
    }
    out.stat("seg:delimited");
    if segs.iter().any(|(k, t)| (k == "T" || k == "B") && t.chars().count() == 1) {
        out.stat("seg:one_letter_tag");
    }
    if got != expected {
        out.fail(
            "macro_subst",
            format!("pattern {:?} (pieces {:?}) expected {:?}, got {:?}", pattern, pieces, expected, got),
        );
    }
}

// ---- generators ---------------------------------------------------------------------------------

const NAMES: &[&str] = &[
    "a", "b", "x", "ab", "aB", "a1", "a_", "a_b", "abc", "equipRef", "siteRef", "navName", "dis", "id", "name", "x1", "foo_Bar",
    "z9_Q",
];
const KEYS: &[&str] = &["k", "pod::hello", "a", "ui::site name", "é", "<x", "{k}", "a b", "::"];

fn lit_piece(rng: &mut Rng) -> String {
    const ALPHA: &[&str] = &[
        " ", " ", "{", "}", "<", ">", "a", "b", "B", "Z", "0", "9", "_", "-", ".", ":", "é", "ü", "中", "😀", "\u{10ffff}", "\n", "\t",
        "ab", "aB", "x1", "}{", "<>", "{a}", "<k>", "\u{0}", "\"", "\\",
    ];
    let n = rng.below(5);
    (0..n).map(|_| *rng.pick(ALPHA)).collect()
}

fn tag_value(rng: &mut Rng, kind: u64) -> Value {
    let cfg = Cfg::wf(1);
    match kind {
        0 => Value::make_str(*rng.pick(&["display", "", "a $b c", "Ünï cödé 中", "$<k>", "x"])),
        1 => Value::Ref(Ref { value: gen::ref_id(rng), dis: None }),
        2 => Value::Ref(Ref { value: gen::ref_id(rng), dis: Some(rng.pick(&["Site 1", "", "é$a", "d"]).to_string()) }),
        3 => Value::Number(gen::number(rng, &cfg)),
        4 => Value::Marker,
        5 => Value::make_bool(rng.chance(1, 2)),
        6 => Value::Str(Str { value: gen::text(rng) }),
        _ => gen::value(rng, &cfg),
    }
}

fn loc_map(rng: &mut Rng, extra: &[String]) -> LocMap {
    let mut m = LocMap::new();
    if rng.chance(1, 4) {
        return m;
    }
    for k in KEYS {
        if rng.chance(1, 2) {
            m.insert(k.to_string(), rng.pick(&["world", "", "L$a", "ß", "Site Name"]).to_string());
        }
    }
    for k in extra {
        if rng.chance(1, 2) {
            m.insert(k.clone(), "translated".to_string());
        }
    }
    m
}

/// a record with some of NAMES bound to values of assorted kinds
fn scope(rng: &mut Rng) -> Dict {
    let mut d = Dict::new();
    for n in NAMES {
        if rng.chance(2, 5) {
            let kind = rng.below(9);
            d.insert(n.to_string(), tag_value(rng, kind));
        }
    }
    // keys that are not tag names: the regex cannot name them
    if rng.chance(1, 4) {
        d.insert("Ab".into(), Value::make_str("upper"));
        d.insert("9a".into(), Value::make_str("digit"));
        d.insert("_a".into(), Value::make_str("underscore"));
    }
    d
}

fn random_pattern(rng: &mut Rng) -> String {
    const TOK: &[&str] = &[
        "$", "$", "$", "{", "}", "<", ">", " ", " ", "$$", "${", "$<", "${}", "$<>", "a", "b", "ab", "aB", "a1", "a_", "a_b", "abc",
        "equipRef", "siteRef", "x", "B", "Ab", "9", "9a", "_", "_a", "-", ".", ":", "::", "pod::hello", "k", "é", "中", "😀", "\n", "\u{0}",
        "$a", "$ab", "${ab}", "$<k>", "${a}", "$<pod::hello>", "$é", "$A", "$_", "$1", "}$", ">$",
    ];
    let n = 1 + rng.below(9);
    (0..n).map(|_| *rng.pick(TOK)).collect()
}

fn fixed_scope() -> (Dict, LocMap) {
    let mut d = Dict::new();
    d.insert("a".into(), Value::make_str("<A>"));
    d.insert("aa".into(), Value::make_str("<AA>"));
    d.insert("aB".into(), Value::make_ref_with_dis("r1", "<dis>"));
    d.insert("a1".into(), Value::make_ref("r2"));
    d.insert("aaa".into(), Value::make_number(2.5));
    d.insert("B".into(), Value::make_str("<upper>"));
    d.insert("1".into(), Value::make_str("<digit>"));
    let mut l = LocMap::new();
    for k in ["a", "aa", "B", "1", " ", "a1", "$a", "{a}", "<a", "a<"] {
        l.insert(k.to_string(), format!("[{k}]"));
    }
    (d, l)
}

pub fn generate(ctx: &mut Ctx) {
    let show_dict = |d: &Dict| vx::show(&Value::Dict(d.clone()));
    // 0. the patterns asserted by the crate's own tests and the documented forms
    {
        let (d, l) = fixed_scope();
        for p in [
            "", "$", "$$", "$a", "${a}", "$<a>", "$aa", "$aB!", "${aB}", "$<zz>", "$zz", "${zz}", "$a$aa", "$aa$a", "${a}${aa}", "$<a><a>",
            "$<a$aa>", "${a", "$<a", "$a}", "$ {a}", "${ a}", "${a }", "$<>", "$<>>", "${}", "$A", "$B", "$1", "$_a", "$é", "$aé", "$aa中",
            "x$a.y", "$a_", "$a-$aa", "$aaa", "$aaaa", "a$", "$<\n>", "$<a\n>", "$\u{0}", "€$a1€",
        ] {
            ctx.case("doc", &format!("pat {} {} {}", h(p), show_dict(&d), show_loc(&l)));
        }
    }
    // 0b. scopes whose values themselves contain macros, pointing at themselves and at each other: the substituted text
    //     is taken as it is (the property substitutes a tag's DISPLAY TEXT, once); an implementation that expands it
    //     again must still come back
    {
        let mut d = Dict::new();
        for (k, v) in [("a", "$a"), ("b", "<$c>"), ("c", "<$b>"), ("disMacro", "$disMacro ${a} $b"), ("navName", "Fan of $navName"), ("dis", "$dis")] {
            d.insert(k.into(), Value::make_str(v));
        }
        let mut l = LocMap::new();
        l.insert("k".into(), "$<k>".into());
        l.insert("a".into(), "$a".into());
        for p in ["$a", "${a}", "$b", "$c $b", "$disMacro", "$navName", "$<k>", "$<a> $a", "$dis$dis"] {
            ctx.case("selfref", &format!("pat {} {} {}", h(p), show_dict(&d), show_loc(&l)));
        }
        ctx.case("selfref", &format!("dis {} {} -", show_dict(&d), show_loc(&l)));
        // the same record without `dis`: the display comes from `disMacro`, whose pattern names `disMacro` itself and
        // the other display tags (each is a tag of the record like any other: its text is substituted, once)
        d.remove("dis");
        for (k, v) in [("disKey", "k"), ("name", "n1"), ("def", "^d"), ("tag", "t1")] {
            d.insert(k.into(), Value::make_str(v));
        }
        for p in [
            "$disMacro", "${disMacro}", "$navName [$disMacro]", "$disMacro$disMacro", "<${disMacro}> $a", "$disKey", "${disKey} $name", "$def $tag",
            "$name$tag${def}", "$dis", "${dis} $disMacro", "$id",
        ] {
            d.insert("disMacro".into(), Value::make_str(p));
            ctx.case("selfref", &format!("dis {} {} -", show_dict(&d), show_loc(&l)));
            ctx.case("selfref", &format!("pat {} {} {}", h(p), show_dict(&d), show_loc(&l)));
        }
    }
    // 1. all 2^8 subsets of the display tags x value kinds
    let variants = ctx.n(8, 48);
    for mask in 0u32..256 {
        for variant in 0..variants {
            let mut rng = ctx.rng.fork();
            let mut d = Dict::new();
            let mut keys_for_loc = Vec::new();
            for (i, t) in DOCUMENTED.iter().enumerate() {
                if mask & (1 << i) == 0 {
                    continue;
                }
                let kind = if variant < 7 { variant } else { rng.below(9) };
                let mut v = tag_value(&mut rng, kind);
                if *t == "disMacro" && matches!(v, Value::Str(_)) && rng.chance(3, 4) {
                    v = Value::make_str(&random_pattern(&mut rng));
                }
                if *t == "disKey" {
                    if let Value::Str(s) = &v {
                        keys_for_loc.push(s.value.clone());
                    }
                }
                d.insert(t.to_string(), v);
            }
            // other tags the macro may name
            if rng.chance(1, 2) {
                for (k, v) in scope(&mut rng).iter() {
                    if !DOCUMENTED.contains(&k.as_str()) {
                        d.insert(k.clone(), v.clone());
                    }
                }
            }
            let loc = loc_map(&mut rng, &keys_for_loc);
            let def = match rng.below(3) {
                0 => None,
                1 => Some("default".to_string()),
                _ => Some(String::new()),
            };
            ctx.case("dis", &format!("dis {} {} {}", show_dict(&d), show_loc(&loc), ho(&def)));
        }
    }
    // 2. every string up to a length over a small alphabet, in a fixed scope
    {
        let (d, l) = fixed_scope();
        let (ds, ls) = (show_dict(&d), show_loc(&l));
        let alpha = ['$', '{', '}', '<', '>', 'a', 'B', '1', ' '];
        let max_len = ctx.n(4, 5) as usize;
        for len in 1..=max_len {
            let total = alpha.len().pow(len as u32);
            for n in 0..total {
                let mut m = n;
                let mut p = String::new();
                for _ in 0..len {
                    p.push(alpha[m % alpha.len()]);
                    m /= alpha.len();
                }
                // strings without `$` are all alike: keep one in sixteen of them
                if p.contains('$') || ctx.rng.chance(1, 16) {
                    ctx.case("enum", &format!("pat {} {ds} {ls}", h(&p)));
                }
            }
        }
    }
    // 2a. one macro form that breaks off where the next begins: `${aa$a}`, `$<aa${a}`, `${$aa}`, `${${a}}` ... - every
    //     opening form x tag x what interrupts it x what follows, in the fixed scope (longer than the enumeration reaches)
    {
        let (d, l) = fixed_scope();
        let (ds, ls) = (show_dict(&d), show_loc(&l));
        for open in ["${", "$<", "$", ""] {
            for tag in ["", "a", "aa", "aB", "zz"] {
                for brk in ["$", "${", "$<", "}", ">", " ", "}$", ">$"] {
                    for next in ["a", "aa}", "aa>", "{a}", "<a>", "aB", "zz", "a}", ""] {
                        let p = format!("{open}{tag}{brk}{next}");
                        ctx.case("break", &format!("pat {} {ds} {ls}", h(&p)));
                        ctx.case("break", &format!("pat {} {ds} {ls}", h(&format!("x {p} y"))));
                    }
                }
            }
        }
    }
    // 3. random patterns over the macro alphabet
    for _ in 0..ctx.n(3000, 150_000) {
        let mut rng = ctx.rng.fork();
        let d = scope(&mut rng);
        let loc = loc_map(&mut rng, &[]);
        let p = if rng.chance(1, 8) { gen::text(&mut rng) } else { random_pattern(&mut rng) };
        ctx.case("rand", &format!("pat {} {} {}", h(&p), show_dict(&d), show_loc(&loc)));
    }
    // 4. assembled patterns with a known expansion
    for _ in 0..ctx.n(3000, 150_000) {
        let mut rng = ctx.rng.fork();
        let d = scope(&mut rng);
        let loc = loc_map(&mut rng, &[]);
        let k = 1 + rng.below(6);
        let mut toks = vec![k.to_string()];
        for _ in 0..k {
            let (kind, text) = match rng.below(8) {
                0 | 1 | 2 => ("L", lit_piece(&mut rng)),
                3 | 4 => ("T", rng.pick(NAMES).to_string()),
                5 => ("B", rng.pick(NAMES).to_string()),
                6 => ("K", rng.pick(KEYS).to_string()),
                _ => ("T", gen::ident(&mut rng)),
            };
            toks.push(kind.to_string());
            toks.push(h(&text));
        }
        ctx.case("seg", &format!("seg {} {} {}", show_dict(&d), show_loc(&loc), toks.join(" ")));
    }
}

// ---------------------------------------------------------------------------------------------
// tables by execution (`hsverif dump c20`): the second source of `Hs/Gen/Dis.lean`.  gen/dis.py reads the
// precedence chain and the macro regex from the source text; when the text no longer has the shape it
// parses, the same parameters are measured here on the real functions: the order of the eight tags by
// pairwise dominance, the treatment of each tag's value by probing, and the three macro forms by running
// `dis_macro` on every Unicode scalar value in head, tail and key position.
// ---------------------------------------------------------------------------------------------

fn echo_macro(pattern: &str) -> String {
    // every tag is defined and answers with its own name between U+0001/U+0002, every key with its name between U+0003/U+0004
    dis_macro(
        pattern,
        |n| Some(Cow::Owned(Value::make_str(&tag_echo(n)))),
        |k| Some(Cow::Owned(key_echo(k))),
    )
    .into_owned()
}

/// the answers carry the length of the name, so that a marker character inside a name cannot be mistaken
fn tag_echo(n: &str) -> String {
    format!("\u{1}{}:{n}\u{2}", n.chars().count())
}
fn key_echo(k: &str) -> String {
    format!("\u{3}{}:{k}\u{4}", k.chars().count())
}

fn ranges_of(members: &[u32]) -> String {
    let mut out: Vec<(u32, u32)> = Vec::new();
    for &c in members {
        match out.last_mut() {
            Some(r) if r.1 + 1 == c => r.1 = c,
            _ => out.push((c, c)),
        }
    }
    format!("[{}]", out.iter().map(|(a, b)| format!("[{a},{b}]")).collect::<Vec<_>>().join(","))
}

fn all_scalars() -> impl Iterator<Item = char> {
    (0u32..=0x10FFFF).filter_map(char::from_u32)
}

pub fn dump_tables() {
    let no_loc = LocMap::new();
    let s = |t: &str| Value::make_str(t);
    let mut o: Vec<String> = Vec::new();
    // ---- chain: order by pairwise dominance
    let mut wins: Vec<(usize, &str)> = Vec::new();
    for a in DOCUMENTED {
        let mut w = 0;
        for b in DOCUMENTED {
            if a == b {
                continue;
            }
            let mut d = Dict::new();
            d.insert(a.to_string(), s("A"));
            d.insert(b.to_string(), s("B"));
            if run_dis(&d, &no_loc, &None) == "A" {
                w += 1;
            }
        }
        wins.push((w, a));
    }
    wins.sort_by(|x, y| y.0.cmp(&x.0));
    let total = wins.iter().enumerate().all(|(i, (w, _))| *w == DOCUMENTED.len() - 1 - i);
    let mut rows = Vec::new();
    for (_, t) in &wins {
        let one = |v: Value| {
            let mut d = Dict::new();
            d.insert(t.to_string(), v);
            d
        };
        // macro: the Str is a pattern whose `$zq` is substituted from the record
        let mut dm = one(s("$zq"));
        dm.insert("zq".into(), s("Q"));
        let is_macro = run_dis(&dm, &no_loc, &None) == "Q";
        // key: the Str is looked up in the localisation
        let mut loc = LocMap::new();
        loc.insert("kk".into(), "L".into());
        let is_key = run_dis(&one(s("kk")), &loc, &None) == "L";
        // ref: a Ref shows its dis, or its id
        let is_ref = run_dis(&one(Value::make_ref_with_dis("v", "D")), &no_loc, &None) == "D"
            && run_dis(&one(Value::make_ref("v")), &no_loc, &None) == "v";
        // plain: a Str shows itself, anything else its display text
        let plain_ok = run_dis(&one(s("plain $zq")), &no_loc, &None) == "plain $zq" || is_macro;
        let other_ok = run_dis(&one(Value::make_bool(true)), &no_loc, &None) == Value::make_bool(true).to_string();
        let code = match (is_macro, is_key, is_ref, plain_ok && other_ok) {
            (false, false, false, true) => 0,
            (true, false, false, true) => 1,
            (false, true, false, true) => 2,
            (false, false, true, true) => 3,
            _ => 9,
        };
        rows.push(format!("[{},{}]", serde_json::to_string(if total { *t } else { "#not-a-total-order" }).unwrap(), code));
    }
    // names that must NOT give a display name, and the default
    for t in ["Dis", "navname", "disMarco", "dis_macro", "displayName", "description", "title", "label", "mod", "ref", "Name", "ID", "Id"] {
        let mut d = Dict::new();
        d.insert(t.to_string(), s("X"));
        if run_dis(&d, &no_loc, &Some("dflt".into())) != "dflt" || run_dis(&d, &no_loc, &None) != "" {
            rows.push(format!("[{},9]", serde_json::to_string(&format!("#{t}")).unwrap()));
        }
    }
    o.push(format!("\"chain\":[{}]", rows.join(",")));
    // ---- macro forms
    // reference characters: a head and a tail character of the `$name` form
    let ascii: Vec<char> = (0x21u8..0x7f).map(|b| b as char).collect();
    let mut href = None;
    'find: for &hc in &ascii {
        for &tc in &ascii {
            let name = format!("{hc}{}", tc.to_string().repeat(8));
            if echo_macro(&format!("${name}")) == tag_echo(&name) {
                href = Some((hc, tc));
                break 'find;
            }
        }
    }
    let (h0, t0) = href.unwrap_or(('\u{0}', '\u{0}'));
    let run = t0.to_string().repeat(8);
    let min_of = |open: &str, close: &str| -> i64 {
        for n in 0..=8usize {
            let name = format!("{h0}{}", t0.to_string().repeat(n));
            if echo_macro(&format!("{open}{name}{close}")) == tag_echo(&name) {
                return n as i64;
            }
        }
        -1
    };
    let classes = |open: &str, close: &str| -> (Vec<u32>, Vec<u32>) {
        let mut head = Vec::new();
        let mut tail = Vec::new();
        for c in all_scalars() {
            let name = format!("{c}{run}");
            if echo_macro(&format!("{open}{name}{close}")) == tag_echo(&name) {
                head.push(c as u32);
            }
            let name = format!("{h0}{run}{c}");
            if echo_macro(&format!("{open}{name}{close}")) == tag_echo(&name) {
                tail.push(c as u32);
            }
        }
        (head, tail)
    };
    let (h1, t1) = classes("$", "");
    let (h2, t2) = classes("${", "}");
    o.push(format!("\"head1\":{},\"tail1\":{},\"tailMin1\":{}", ranges_of(&h1), ranges_of(&t1), min_of("$", "")));
    o.push(format!("\"head2\":{},\"tail2\":{},\"tailMin2\":{}", ranges_of(&h2), ranges_of(&t2), min_of("${", "}")));
    // `$<key>`: the closing character, the characters a key may contain, the minimum key length
    let mut stops: Vec<u32> = Vec::new();
    let mut key_chars_ok = true;
    for c in all_scalars() {
        if echo_macro(&format!("$<kk{c}")) == key_echo("kk") {
            stops.push(c as u32);
        }
    }
    let stop = if stops.len() == 1 { stops[0] } else { 0x110000 };
    if let Some(sc) = char::from_u32(stop) {
        for c in all_scalars() {
            let inside = echo_macro(&format!("$<k{c}k{sc}")) == key_echo(&format!("k{c}k"));
            if inside == (c == sc) {
                key_chars_ok = false;
            }
        }
    }
    let mut key_min: i64 = -1;
    if let Some(sc) = char::from_u32(stop) {
        for n in 0..=8usize {
            let k = "k".repeat(n);
            if echo_macro(&format!("$<{k}{sc}")) == key_echo(&k) {
                key_min = n as i64;
                break;
            }
        }
    }
    o.push(format!("\"keyStop\":{},\"keyMin\":{}", if key_chars_ok { stop } else { 0x110000 }, key_min));
    println!("{{{}}}", o.join(",\n"));
}
