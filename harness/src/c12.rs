//! C12 — equality, hashing and ordering of `Value` are mutually consistent.
//!
//! input: VX of a list `[ 3 a b c`.  Correspondence: for the pairs (a,b) (b,c) (a,c) (b,a) (a,a)
//! the request `cmp Va Vb` with reply `ok <==> <same hasher writes> <cmp> <partial_cmp>`.
//! Oracles (on NaN-free triples): the laws of the property, checked on the real impls.

use crate::ctx::{CaseOut, Ctx};
use crate::gen::{self, Cfg};
use crate::vx;
use libhaystack::val::*;
use std::cmp::Ordering;
use std::collections::hash_map::DefaultHasher;
use std::hash::{Hash, Hasher};

/// records every write call made by `Hash::hash`
#[derive(Default)]
struct RecHasher {
    writes: Vec<Vec<u8>>,
}
impl Hasher for RecHasher {
    fn finish(&self) -> u64 {
        0
    }
    fn write(&mut self, bytes: &[u8]) {
        self.writes.push(bytes.to_vec());
    }
}

fn writes(v: &Value) -> Vec<Vec<u8>> {
    let mut h = RecHasher::default();
    v.hash(&mut h);
    h.writes
}
fn std_hash(v: &Value) -> u64 {
    let mut h = DefaultHasher::new();
    v.hash(&mut h);
    h.finish()
}

pub fn has_nan(v: &Value) -> bool {
    match v {
        Value::Number(n) => n.value.is_nan(),
        Value::Coord(c) => c.lat.is_nan() || c.long.is_nan(),
        Value::List(l) => l.iter().any(has_nan),
        Value::Dict(d) => d.values().any(has_nan),
        Value::Grid(g) => {
            g.meta.as_ref().map_or(false, |m| m.values().any(has_nan))
                || g.columns.iter().any(|c| c.meta.as_ref().map_or(false, |m| m.values().any(has_nan)))
                || g.rows.iter().any(|r| r.values().any(has_nan))
        }
        _ => false,
    }
}

fn ord_s(o: Ordering) -> &'static str {
    match o {
        Ordering::Less => "lt",
        Ordering::Equal => "eq",
        Ordering::Greater => "gt",
    }
}

fn reply(a: &Value, b: &Value) -> String {
    format!(
        "ok {} {} {} {}",
        (a == b) as u8,
        (writes(a) == writes(b)) as u8,
        ord_s(a.cmp(b)),
        match a.partial_cmp(b) {
            None => "none",
            Some(o) => ord_s(o),
        }
    )
}

/// Numbers whose unit is NOT the database singleton: a field-for-field copy of a database unit at another address, and
/// an application-defined unit built twice (`Unit` has public fields, `Number.unit` takes any `&'static Unit`).  Equal
/// content must mean equal values, equal hashes and `cmp` Equal, whatever the addresses.  (Oracle only: the exchange
/// format names units by symbol, so these values have no request.)
fn exec_clones(out: &mut CaseOut) {
    use libhaystack::units::Unit;
    out.nontrivial = true;
    out.stat("unit_clones");
    fn leak(u: &Unit) -> &'static Unit {
        use libhaystack::units::unit_dimension::UnitDimensions;
        let dimensions = u.dimensions.as_ref().map(|d| UnitDimensions { kg: d.kg, m: d.m, sec: d.sec, k: d.k, a: d.a, mol: d.mol, cd: d.cd });
        Box::leak(Box::new(Unit { quantity: u.quantity.clone(), ids: u.ids.clone(), dimensions, scale: u.scale, offset: u.offset }))
    }
    let custom = || -> &'static Unit {
        Box::leak(Box::new(Unit { quantity: Some("custom".into()), ids: vec!["widget".into(), "wdg".into()], dimensions: None, scale: 1.0, offset: 0.0 }))
    };
    let m = libhaystack::units::get_unit("m").expect("m");
    let s = libhaystack::units::get_unit("s").expect("s");
    let (m1, m2, s1, w1, w2) = (leak(m), leak(m), leak(s), custom(), custom());
    // units that share a symbol but differ otherwise (name, scale, quantity, dimensions)
    let w3: &'static Unit = Box::leak(Box::new(Unit { quantity: Some("custom".into()), ids: vec!["widget_long".into(), "wdg".into()], dimensions: None, scale: 2.0, offset: 0.0 }));
    let w4: &'static Unit = Box::leak(Box::new(Unit { quantity: None, ids: vec!["widget".into(), "wdg".into()], dimensions: None, scale: 1.0, offset: 0.0 }));
    let w5: &'static Unit = Box::leak(Box::new(Unit { quantity: Some("custom".into()), ids: vec!["widget".into(), "wdg".into()], dimensions: None, scale: 1.0, offset: 0.5 }));
    let n = |x: f64, u: &'static Unit| Value::Number(Number { value: x, unit: Some(u) });
    let triples: Vec<[Value; 3]> = vec![
        [n(1.0, m), n(1.0, m1), n(1.0, m2)],
        [n(1.0, m1), n(1.0, s1), n(1.0, s)],
        [n(2.5, w1), n(2.5, w2), n(2.5, m)],
        [n(0.0, w1), n(-0.0, w2), n(1.0, w1)],
        [n(1.0, w1), n(1.0, w3), n(1.0, w4)],
        [n(1.0, w3), n(1.0, w5), n(1.0, w1)],
        [n(1.0, w4), n(1.0, w5), n(1.0, w2)],
        [Value::List(vec![n(1.0, m1)]), Value::List(vec![n(1.0, m2)]), Value::List(vec![n(1.0, m)])],
        [
            Value::make_dict(Dict::from_iter([("a".to_string(), n(3.0, w1))])),
            Value::make_dict(Dict::from_iter([("a".to_string(), n(3.0, w2))])),
            Value::make_dict(Dict::from_iter([("a".to_string(), n(3.0, m1))])),
        ],
    ];
    for t in &triples {
        // content-equal units: the first two of every triple but the second are equal values
        oracles(t, out);
    }
    for (x, y) in [(&triples[0][0], &triples[0][1]), (&triples[0][1], &triples[0][2]), (&triples[2][0], &triples[2][1]), (&triples[7][0], &triples[7][1]), (&triples[8][0], &triples[8][1])] {
        if x != y {
            out.fail("eq_by_content", format!("Numbers whose units are equal field for field (at different addresses) are not equal: {x:?} vs {y:?}"));
        }
    }
}

pub fn exec(label: &str, input: &str, out: &mut CaseOut) {
    if label == "clones" {
        return exec_clones(out);
    }
    let vals = match vx::parse(input) {
        Some(Value::List(l)) if l.len() == 3 => l,
        _ => {
            out.fail("harness", "unparsable C12 input".into());
            return;
        }
    };
    let (a, b, c) = (&vals[0], &vals[1], &vals[2]);
    out.nontrivial = true;
    for (x, y) in [(a, b), (b, c), (a, c), (b, a), (a, a)] {
        out.req(format!("C12 cmp {} {}", vx::show(x), vx::show(y)), reply(x, y));
    }
    if vals.iter().any(has_nan) {
        out.stat("has_nan");
        return;
    }
    // class statistics
    if a == b {
        out.stat("pair_equal");
    }
    if std::mem::discriminant(a) == std::mem::discriminant(b) {
        out.stat("pair_same_kind");
    }
    if a.partial_cmp(b).is_none() {
        out.stat("pair_partial_none");
    }
    oracles(&vals, out);
}

/// the laws of the property on one triple, directly on the real code
fn oracles(vals: &[Value], out: &mut CaseOut) {
    let (a, b, c) = (&vals[0], &vals[1], &vals[2]);
    // ---- oracles -------------------------------------------------------------------------
    for x in [a, b, c] {
        if !(x == x) {
            out.fail("eq_refl", format!("x != x for {x:?}"));
        }
        let cl = x.clone();
        if !(cl == *x) || std_hash(&cl) != std_hash(x) {
            out.fail("clone_eq", format!("clone differs from original for {x:?}"));
        }
        if x.cmp(x) != Ordering::Equal {
            out.fail("cmp_refl", format!("x.cmp(x) != Equal for {x:?}"));
        }
    }
    let perms = [(a, b, c), (a, c, b), (b, a, c), (b, c, a), (c, a, b), (c, b, a)];
    for (x, y, z) in perms {
        if (x == y) != (y == x) {
            out.fail("eq_symm", format!("{x:?} vs {y:?}"));
        }
        if x == y && y == z && !(x == z) {
            out.fail("eq_trans", format!("{x:?} / {y:?} / {z:?}"));
        }
        if x == y && (std_hash(x) != std_hash(y) || writes(x) != writes(y)) {
            out.fail("hash_of_eq", format!("equal values hash differently: {x:?} vs {y:?}"));
        }
        if x.cmp(y) != y.cmp(x).reverse() {
            out.fail("cmp_antisymm", format!("{x:?} vs {y:?}"));
        }
        if x.cmp(y) == Ordering::Less && y.cmp(z) == Ordering::Less && x.cmp(z) != Ordering::Less {
            out.fail("cmp_trans", format!("{x:?} < {y:?} < {z:?}"));
        }
        if x.cmp(y) == Ordering::Equal && x.cmp(z) != y.cmp(z) {
            out.fail("cmp_congr", format!("{x:?} ~ {y:?} but they compare differently with {z:?}"));
        }
        if (x.cmp(y) == Ordering::Equal) != (x == y) {
            out.fail("cmp_eq_iff_eq", format!("cmp={:?} eq={} for {x:?} vs {y:?}", x.cmp(y), x == y));
        }
        if let Some(o) = x.partial_cmp(y) {
            if o != x.cmp(y) {
                out.fail("pcmp_eq_cmp", format!("partial_cmp={o:?} cmp={:?} for {x:?} vs {y:?}", x.cmp(y)));
            }
        }
    }
    // Container behaviour that is determined by `==`, `hash` and `cmp` alone (the library keys
    // HashSet<&Dict> / BTreeMap<&Dict,_> by these).  `slice::sort()` and `BTreeSet::from_iter` go
    // through `lt`, i.e. `partial_cmp`, whose deliberate `None` for Numbers of different units the
    // statement admits ("whenever the partial order gives an answer"), so they are not used here.
    let mut sorted = vals.to_vec();
    sorted.sort_by(|x, y| x.cmp(y));
    for w in sorted.windows(2) {
        if w[0].cmp(&w[1]) == Ordering::Greater {
            out.fail("sort", format!("sort_by(cmp) left {:?} before {:?}", w[0], w[1]));
        }
    }
    let set: std::collections::HashSet<&Value> = vals.iter().collect();
    let mut bset: std::collections::BTreeSet<&Value> = std::collections::BTreeSet::new();
    for v in vals.iter() {
        bset.insert(v);
    }
    let mut dd = sorted.clone();
    dd.dedup();
    if set.len() != bset.len() || set.len() != dd.len() {
        out.fail(
            "containers",
            format!("HashSet has {} elements, BTreeSet {}, sort_by(cmp)+dedup {}", set.len(), bset.len(), dd.len()),
        );
    }
}

fn near_scalar_pool(ctx: &mut Ctx) -> Vec<Value> {
    use chrono::TimeZone;
    let m = libhaystack::units::get_unit("m");
    let s = libhaystack::units::get_unit("s");
    let kw = libhaystack::units::get_unit("kW");
    let mut v = vec![
        Value::make_number(0.0),
        Value::make_number(-0.0),
        Value::Number(Number { value: 0.0, unit: m }),
        Value::Number(Number { value: -0.0, unit: m }),
        Value::Number(Number { value: 1.0, unit: m }),
        Value::Number(Number { value: 1.0, unit: s }),
        Value::Number(Number { value: 1.0, unit: kw }),
        Value::Number(Number { value: 1.0, unit: None }),
        Value::Number(Number { value: 2.0, unit: None }),
        Value::Number(Number { value: f64::INFINITY, unit: None }),
        Value::Number(Number { value: f64::NEG_INFINITY, unit: None }),
        Value::Coord(Coord { lat: 0.0, long: 0.0 }),
        Value::Coord(Coord { lat: -0.0, long: 0.0 }),
        Value::Coord(Coord { lat: 0.0, long: -0.0 }),
        Value::Coord(Coord { lat: 1.0, long: -0.0 }),
        Value::Ref(Ref { value: "a".into(), dis: None }),
        Value::Ref(Ref { value: "a".into(), dis: Some("x".into()) }),
        Value::Ref(Ref { value: "a".into(), dis: Some("y".into()) }),
        Value::Ref(Ref { value: "b".into(), dis: Some("x".into()) }),
        Value::make_str("a"),
        Value::make_uri("a"),
        Value::make_symbol("a"),
        Value::make_str(""),
        Value::make_str("a\u{0}"),
        Value::make_str("é"),
        Value::make_str("z"),
        Value::make_str("\u{10ffff}"),
        Value::make_str("\u{ffff}"),
        Value::XStr(XStr { r#type: "A".into(), value: "b".into() }),
        Value::XStr(XStr { r#type: "Ab".into(), value: "".into() }),
        Value::Null,
        Value::Marker,
        Value::Na,
        Value::Remove,
        Value::make_true(),
        Value::make_false(),
        Value::List(vec![]),
        Value::Dict(Dict::new()),
        Value::Grid(Grid::default()),
        Value::Grid(Grid::make_empty()),
        Value::Grid(Grid { meta: Some(Dict::new()), ..Grid::default() }),
    ];
    // equal instants in different zones
    for tz in [chrono_tz::UTC, chrono_tz::Australia::Sydney, chrono_tz::America::New_York, chrono_tz::Asia::Kolkata] {
        v.push(Value::DateTime(DateTime::from(tz.timestamp_opt(1_700_000_000, 0).single().unwrap())));
        v.push(Value::DateTime(DateTime::from(tz.timestamp_opt(1_700_000_000, 1).single().unwrap())));
    }
    // dict near-collisions
    let mk = |kvs: &[(&str, Value)]| -> Value {
        let mut d = Dict::new();
        for (k, v) in kvs {
            d.insert(k.to_string(), v.clone());
        }
        Value::Dict(d)
    };
    v.push(mk(&[("a", Value::make_int(2)), ("b", Value::make_int(1))]));
    v.push(mk(&[("a", Value::make_int(1)), ("c", Value::make_int(1))]));
    v.push(mk(&[("a", Value::make_int(1)), ("b", Value::make_int(1))]));
    v.push(mk(&[("a", Value::make_int(1))]));
    v.push(mk(&[("b", Value::make_int(0))]));
    v.push(mk(&[("a", Value::Number(Number { value: 1.0, unit: m })), ("b", Value::make_int(1))]));
    v.push(mk(&[("a", Value::Number(Number { value: 1.0, unit: s })), ("b", Value::make_int(0))]));
    // records: the same `id` and the same `mod` stamp, everything else equal / one other tag different / one tag more
    // (what a "same record" shortcut in == would overlook), and the same shapes with another id or another mod
    {
        let stamp = |secs: i64| Value::DateTime(DateTime::from(chrono_tz::UTC.timestamp_opt(secs, 0).single().unwrap()));
        for (id, md, cur, extra) in [
            ("p1", 1_700_000_000i64, 20.0, false),
            ("p1", 1_700_000_000, 21.5, false),
            ("p1", 1_700_000_000, 20.0, true),
            ("p1", 1_700_000_060, 20.0, false),
            ("p2", 1_700_000_000, 20.0, false),
        ] {
            let mut kvs = vec![("id", Value::make_ref(id)), ("mod", stamp(md)), ("curVal", Value::make_number(cur)), ("dis", Value::make_str("Point"))];
            if extra {
                kvs.push(("point", Value::Marker));
            }
            v.push(mk(&kvs));
        }
        v.push(mk(&[("id", Value::Ref(Ref { value: "p1".into(), dis: Some("shown".into()) })), ("mod", stamp(1_700_000_000)), ("curVal", Value::make_number(20.0)), ("dis", Value::make_str("Point"))]));
    }
    v.push(Value::List(vec![Value::make_int(1)]));
    v.push(Value::List(vec![Value::make_int(1), Value::make_int(2)]));
    v.push(Value::List(vec![Value::Number(Number { value: 1.0, unit: m }), Value::make_int(2)]));
    v.push(Value::List(vec![Value::Number(Number { value: 1.0, unit: s }), Value::make_int(1)]));
    let _ = ctx;
    v
}

pub fn generate(ctx: &mut Ctx) {
    ctx.case("clones", "-");
    let pool = near_scalar_pool(ctx);
    let show3 = |a: &Value, b: &Value, c: &Value| vx::show(&Value::List(vec![a.clone(), b.clone(), c.clone()]));
    // 1. the near-collision pool crossed pair-wise (third element drawn at random from the pool)
    let n = pool.len();
    let stride = if ctx.quick() { 3 } else { 1 };
    for i in 0..n {
        for j in 0..n {
            if (i * n + j) % stride != 0 && i != j {
                continue;
            }
            let k = ctx.rng.below(n as u64) as usize;
            let inp = show3(&pool[i], &pool[j], &pool[k]);
            ctx.case("pool", &inp);
        }
    }
    // 1a. texts that a "natural" / numeric / case-folding order would treat specially: digit runs of every length
    //     (beyond u64 and u128), leading zeros, mixed case, a common prefix - every ordered triple, per text kind
    {
        let texts = ["9", "10", "2", "007", "7", "18446744073709551615", "18446744073709551616", "100000000000000000000", "99999999999999999999999999999999999999999",
                     "AHU-2", "AHU-10", "AHU-100000000000000000000", "ahu-2", "a", "B", "", "é"];
        let mk: [fn(&str) -> Value; 4] = [
            |t| Value::make_str(t),
            |t| Value::make_uri(t),
            |t| Value::make_symbol(t),
            |t| Value::Ref(Ref { value: t.to_string(), dis: None }),
        ];
        let step = if ctx.quick() { 3 } else { 1 };
        let mut c = 0usize;
        for f in mk {
            let vals: Vec<Value> = texts.iter().map(|t| f(t)).collect();
            for a in 0..vals.len() {
                for b in 0..vals.len() {
                    for d in 0..vals.len() {
                        c += 1;
                        if a < b && b < d || c % step == 0 && a != b && b != d && a != d {
                            ctx.case("texts3", &show3(&vals[a], &vals[b], &vals[d]));
                        }
                    }
                }
            }
        }
    }
    // 1b. numbers of different magnitude in convertible and unrelated units: every ordered triple (an order
    // that looks at quantities for some pairs and at raw magnitudes for others is not transitive)
    {
        let u = |s: &str| libhaystack::units::get_unit(s);
        let num = |x: f64, unit: Option<&'static libhaystack::units::Unit>| Value::Number(Number { value: x, unit });
        let nums: Vec<Value> = vec![
            num(1.0, u("km")), num(900.0, u("m")), num(2.0, u("m")), num(1500.0, u("m")), num(1.5, u("s")), num(2.0, u("s")),
            num(1000.0, None), num(1.5, None), num(1.0, None), num(0.0, u("°C")), num(1.0, u("°F")), num(32.0, u("°F")),
            num(1.0, u("kW")), num(999.0, u("W")), num(1.0, u("h")), num(3599.0, u("s")), num(3601.0, u("s")),
        ];
        let m = nums.len();
        let step = if ctx.quick() { 2 } else { 1 };
        let mut t = 0usize;
        for a in 0..m {
            for b in 0..m {
                for c in 0..m {
                    t += 1;
                    if t % step == 0 {
                        ctx.case("units3", &show3(&nums[a], &nums[b], &nums[c]));
                    }
                }
            }
        }
    }
    // 2. random values and their mutants
    let total = ctx.n(2500, 120_000);
    for _ in 0..total {
        let mut cfg = Cfg::any(3);
        cfg.allow_nan = ctx.rng.chance(1, 10);
        let mut rng = ctx.rng.fork();
        let a = if rng.chance(1, 4) { rng.pick(&pool).clone() } else { gen::value(&mut rng, &cfg) };
        let b = match rng.below(5) {
            0 => a.clone(),
            1 => gen::value(&mut rng, &cfg),
            _ => gen::mutate(&mut rng, &a, &cfg),
        };
        let c = match rng.below(6) {
            0 => a.clone(),
            1 => gen::value(&mut rng, &cfg),
            2 | 3 => gen::mutate(&mut rng, &a, &cfg),
            _ => gen::mutate(&mut rng, &b, &cfg),
        };
        let inp = show3(&a, &b, &c);
        ctx.case("rand", &inp);
    }
}
