//! Shrinking of a failing case: `hsverif shrink <prop> <kind> <label> <input>` prints a smaller input on
//! which the same oracle (`kind`) still fails, executed in-process (so not for hangs/aborts).
//! Inputs are `[prefix tokens] <VX value>` or `<mode> <hex bytes> [params]`.

use crate::ctx::CaseOut;
use crate::vx;
use crate::ExecFn;
use libhaystack::val::*;
use std::panic::{catch_unwind, AssertUnwindSafe};
use std::time::{Duration, Instant};

fn fails(exec: ExecFn, label: &str, input: &str, kind: &str) -> bool {
    let mut out = CaseOut::default();
    let r = catch_unwind(AssertUnwindSafe(|| exec(label, input, &mut out)));
    if r.is_err() {
        return kind == "panic";
    }
    out.fails.iter().any(|(k, _)| k == kind)
}

/// one-step simplifications of a value, most aggressive first
fn smaller(v: &Value) -> Vec<Value> {
    let mut out = Vec::new();
    let dict_smaller = |d: &Dict| -> Vec<Dict> {
        let mut r = Vec::new();
        for k in d.keys() {
            let mut d2 = d.clone();
            d2.remove(k);
            r.push(d2);
        }
        for (k, x) in d.iter() {
            for s in smaller(x) {
                let mut d2 = d.clone();
                d2.insert(k.clone(), s);
                r.push(d2);
            }
        }
        r
    };
    match v {
        Value::List(l) => {
            for e in l {
                out.push(e.clone());
            }
            for i in 0..l.len() {
                let mut l2 = l.clone();
                l2.remove(i);
                out.push(Value::List(l2));
            }
            for i in 0..l.len() {
                for s in smaller(&l[i]) {
                    let mut l2 = l.clone();
                    l2[i] = s;
                    out.push(Value::List(l2));
                }
            }
        }
        Value::Dict(d) => {
            for x in d.values() {
                out.push(x.clone());
            }
            for d2 in dict_smaller(d) {
                out.push(Value::Dict(d2));
            }
        }
        Value::Grid(g) => {
            for r in &g.rows {
                for x in r.values() {
                    out.push(x.clone());
                }
            }
            if g.meta.is_some() {
                out.push(Value::Grid(Grid { meta: None, ..g.clone() }));
            }
            for i in 0..g.rows.len() {
                let mut g2 = g.clone();
                g2.rows.remove(i);
                out.push(Value::Grid(g2));
            }
            if g.columns.len() > 1 {
                for i in 0..g.columns.len() {
                    let mut g2 = g.clone();
                    let name = g2.columns.remove(i).name;
                    for r in g2.rows.iter_mut() {
                        r.remove(&name);
                    }
                    out.push(Value::Grid(g2));
                }
            }
            for i in 0..g.columns.len() {
                if g.columns[i].meta.is_some() {
                    let mut g2 = g.clone();
                    g2.columns[i].meta = None;
                    out.push(Value::Grid(g2));
                }
            }
            if let Some(m) = &g.meta {
                for d2 in dict_smaller(m) {
                    out.push(Value::Grid(Grid { meta: Some(d2), ..g.clone() }));
                }
            }
            for i in 0..g.columns.len() {
                if let Some(m) = &g.columns[i].meta {
                    for d2 in dict_smaller(m) {
                        let mut g2 = g.clone();
                        g2.columns[i].meta = Some(d2);
                        out.push(Value::Grid(g2));
                    }
                }
            }
            for i in 0..g.rows.len() {
                for d2 in dict_smaller(&g.rows[i]) {
                    let mut g2 = g.clone();
                    g2.rows[i] = d2;
                    out.push(Value::Grid(g2));
                }
            }
        }
        Value::Str(s) if s.value.chars().count() > 1 => {
            let cs: Vec<char> = s.value.chars().collect();
            out.push(Value::make_str(&cs[..cs.len() / 2].iter().collect::<String>()));
            out.push(Value::make_str(&cs[cs.len() / 2..].iter().collect::<String>()));
            for i in 0..cs.len() {
                let mut c2 = cs.clone();
                c2.remove(i);
                out.push(Value::make_str(&c2.iter().collect::<String>()));
            }
        }
        Value::Uri(s) if s.value.chars().count() > 1 => {
            let cs: Vec<char> = s.value.chars().collect();
            for i in 0..cs.len() {
                let mut c2 = cs.clone();
                c2.remove(i);
                out.push(Value::make_uri(&c2.iter().collect::<String>()));
            }
        }
        Value::Ref(r) if r.dis.is_some() => out.push(Value::Ref(Ref { value: r.value.clone(), dis: None })),
        Value::Number(n) if n.unit.is_some() => out.push(Value::Number(Number { value: n.value, unit: None })),
        _ => {}
    }
    out
}

pub fn shrink(exec: ExecFn, kind: &str, label: &str, input: &str) -> String {
    let deadline = Instant::now() + Duration::from_secs(20);
    if !fails(exec, label, input, kind) {
        return input.to_string();
    }
    // split off prefix tokens until the rest parses as a VX value
    let toks: Vec<&str> = input.split(' ').collect();
    for npre in 0..3.min(toks.len()) {
        let prefix = toks[..npre].join(" ");
        let rest = toks[npre..].join(" ");
        if let Some(mut v) = vx::parse(&rest) {
            let mk = |v: &Value| if prefix.is_empty() { vx::show(v) } else { format!("{prefix} {}", vx::show(v)) };
            'outer: loop {
                if Instant::now() > deadline {
                    break;
                }
                for s in smaller(&v) {
                    if Instant::now() > deadline {
                        break 'outer;
                    }
                    if fails(exec, label, &mk(&s), kind) {
                        v = s;
                        continue 'outer;
                    }
                }
                break;
            }
            return mk(&v);
        }
    }
    // `<mode> <hex> [params]`: delete chunks of bytes
    if toks.len() >= 2 {
        if let Some(mut bytes) = vx::unhex(toks[1]) {
            let mk = |b: &[u8]| {
                let mut t: Vec<String> = toks.iter().map(|s| s.to_string()).collect();
                t[1] = vx::hex(b);
                t.join(" ")
            };
            let mut chunk = (bytes.len() / 2).max(1);
            while chunk >= 1 && Instant::now() < deadline {
                let mut i = 0;
                let mut progressed = false;
                while i < bytes.len() && Instant::now() < deadline {
                    let mut b2 = bytes.clone();
                    let end = (i + chunk).min(b2.len());
                    b2.drain(i..end);
                    if fails(exec, label, &mk(&b2), kind) {
                        bytes = b2;
                        progressed = true;
                    } else {
                        i += chunk;
                    }
                }
                if !progressed {
                    if chunk == 1 {
                        break;
                    }
                    chunk /= 2;
                }
            }
            return mk(&bytes);
        }
    }
    input.to_string()
}
