//! A reference Hayson WRITER written from the Project Haystack JSON encoding, independent of
//! libhaystack's `Serialize` impls: for a value it produces one of the legal documents, choices drawn
//! from the PRNG: member order of every object, optional members (`"_kind":"dict"`, `meta` absent /
//! empty / with `ver`, `tz` absent or "UTC" for UTC timestamps), number spellings of the same real
//! (integer, decimal, exponent).

use crate::jtok::J;
use crate::rng::Rng;
use chrono::SecondsFormat;
use libhaystack::val::*;

pub struct JSpeller<'a> {
    pub rng: &'a mut Rng,
}

impl<'a> JSpeller<'a> {
    fn shuffle(&mut self, mut m: Vec<(String, J)>) -> J {
        for i in (1..m.len()).rev() {
            let j = self.rng.below(i as u64 + 1) as usize;
            m.swap(i, j);
        }
        J::Obj(m)
    }
    fn kind(&mut self, kind: &str, mut rest: Vec<(String, J)>) -> J {
        rest.push(("_kind".into(), J::Str(kind.into())));
        self.shuffle(rest)
    }
    /// a JSON number token denoting exactly `x` (finite)
    pub fn num_token(&mut self, x: f64) -> J {
        let mut cands: Vec<String> = Vec::new();
        let canon = format!("{x}");
        if x.fract() == 0.0 && x.abs() < 9.007199254740992e15 {
            cands.push(format!("{}", x as i64));
            cands.push(format!("{}.0", x as i64));
            cands.push(format!("{}e0", x as i64));
            cands.push(format!("{}E+0", x as i64));
        }
        cands.push(canon.clone());
        cands.push(format!("{x:e}"));
        cands.push(format!("{x:E}"));
        // only spellings JSON allows (no leading '.', no '+', digits after '.') that denote exactly x
        let ok: Vec<String> = cands
            .into_iter()
            .filter(|c| !c.starts_with('.') && !c.starts_with("-.") && !c.contains("inf") && !c.contains("NaN"))
            .filter(|c| crate::jtok::f64_of(c) == x && crate::jtok::f64_of(c).to_bits() == x.to_bits() || (x == 0.0 && crate::jtok::f64_of(c) == 0.0))
            .collect();
        if ok.is_empty() {
            J::Num(canon)
        } else {
            J::Num(self.rng.pick(&ok).clone())
        }
    }
    pub fn value(&mut self, v: &Value) -> J {
        match v {
            Value::Null => J::Null,
            Value::Bool(b) => J::Bool(b.value),
            Value::Str(s) => J::Str(s.value.clone()),
            Value::Marker => self.kind("marker", vec![]),
            Value::Remove => self.kind("remove", vec![]),
            Value::Na => self.kind("na", vec![]),
            Value::Number(n) => {
                let special = if n.value.is_nan() {
                    Some("NaN")
                } else if n.value == f64::INFINITY {
                    Some("INF")
                } else if n.value == f64::NEG_INFINITY {
                    Some("-INF")
                } else {
                    None
                };
                if n.unit.is_none() && special.is_none() && !(n.value == 0.0 && n.value.is_sign_negative()) && self.rng.chance(3, 4) {
                    return self.num_token(n.value);
                }
                let val = match special {
                    Some(s) => J::Str(s.into()),
                    None => self.num_token(n.value),
                };
                let mut m = vec![("val".to_string(), val)];
                if let Some(u) = n.unit {
                    m.push(("unit".into(), J::Str(u.symbol().into())));
                }
                self.kind("number", m)
            }
            Value::Ref(r) => {
                let mut m = vec![("val".to_string(), J::Str(r.value.clone()))];
                if let Some(d) = &r.dis {
                    m.push(("dis".into(), J::Str(d.clone())));
                }
                self.kind("ref", m)
            }
            Value::Uri(u) => self.kind("uri", vec![("val".into(), J::Str(u.value.clone()))]),
            Value::Symbol(s) => self.kind("symbol", vec![("val".into(), J::Str(s.value.clone()))]),
            Value::Date(d) => self.kind("date", vec![("val".into(), J::Str(d.to_string()))]),
            Value::Time(t) => self.kind("time", vec![("val".into(), J::Str(t.to_string()))]),
            Value::DateTime(dt) => {
                let mut m = vec![("val".to_string(), J::Str(dt.to_rfc3339_opts(SecondsFormat::AutoSi, true)))];
                if !dt.is_utc() {
                    m.push(("tz".into(), J::Str(dt.timezone_short_name())));
                } else if self.rng.chance(1, 3) {
                    m.push(("tz".into(), J::Str("UTC".into())));
                }
                self.kind("dateTime", m)
            }
            Value::Coord(c) => {
                let lat = self.num_token(c.lat);
                let lng = self.num_token(c.long);
                self.kind("coord", vec![("lat".into(), lat), ("lng".into(), lng)])
            }
            Value::XStr(x) => self.kind("xstr", vec![("type".into(), J::Str(x.r#type.clone())), ("val".into(), J::Str(x.value.clone()))]),
            Value::List(l) => J::Arr(l.iter().map(|e| self.value(e)).collect()),
            Value::Dict(d) => self.dict(d, true),
            Value::Grid(g) => {
                let mut m: Vec<(String, J)> = Vec::new();
                let has_meta = g.meta.as_ref().map_or(false, |x| !x.is_empty());
                if has_meta || self.rng.chance(1, 2) {
                    let mut mm = match &g.meta {
                        Some(x) => match self.dict(x, false) {
                            J::Obj(v) => v,
                            _ => vec![],
                        },
                        None => vec![],
                    };
                    if self.rng.chance(1, 2) {
                        mm.push(("ver".into(), J::Str("3.0".into())));
                    }
                    m.push(("meta".into(), self.shuffle(mm)));
                }
                let cols: Vec<J> = g
                    .columns
                    .iter()
                    .map(|c| {
                        let mut cm = vec![("name".to_string(), J::Str(c.name.clone()))];
                        match &c.meta {
                            Some(x) if !x.is_empty() => cm.push(("meta".into(), self.dict(x, false))),
                            _ => {
                                if self.rng.chance(1, 4) {
                                    cm.push(("meta".into(), J::Obj(vec![])));
                                }
                            }
                        }
                        self.shuffle(cm)
                    })
                    .collect();
                m.push(("cols".into(), J::Arr(cols)));
                let rows: Vec<J> = g.rows.iter().map(|r| self.dict(r, false)).collect();
                m.push(("rows".into(), J::Arr(rows)));
                self.kind("grid", m)
            }
        }
    }
    fn dict(&mut self, d: &Dict, may_tag: bool) -> J {
        let mut m: Vec<(String, J)> = d.iter().map(|(k, v)| (k.clone(), self.value(v))).collect();
        if may_tag && self.rng.chance(1, 3) {
            m.push(("_kind".into(), J::Str("dict".into())));
        }
        self.shuffle(m)
    }
}

pub fn spell(rng: &mut Rng, v: &Value) -> J {
    let mut sp = JSpeller { rng };
    sp.value(v)
}
