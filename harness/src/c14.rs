//! C14 — namespace caches are invisible: answers ignore query history and thread schedule.
//!
//! Case inputs (`<graph>` = `g <rows as in C13>` or `z` = tests/defs/defs.zinc; query = `sup k` | `asup k` |
//! `inh k` | `fits a b` | `refl <rec>` | `rfits <rec> base` | `rel <rec> relName <term|->` | `tags parent`):
//!   `seq   <graph> <nq> {query}*`
//!        sequential history: all queries in order against ONE cold namespace vs. each query alone against its
//!        own cold namespace - the answers must be identical.
//!   `conc  <graph> <perturbSeed> <nthreads> {<nq> {query}*}* <nsched> {tid}*`
//!        real threads, released together, issue their queries against ONE cold namespace (the hook points
//!        randomly yield / sleep); every answer must equal the answer of a single-threaded cold namespace; a
//!        panic in a thread is caught and reported; a deadlock trips the case watchdog (kind `hang`).
//!   `trace <graph> <budget> <nthreads> {<nq> {query}*}*`
//!        forced interleavings: a controller lets exactly one thread at a time run from one hook point
//!        (`<cache>.miss`, `<cache>.absent`, `<cache>.inserted`, installed with `--cfg libhaystack_verif`) to the
//!        next, and enumerates ALL such interleavings depth-first (up to <budget> schedules).  Each schedule is
//!        a model trace: the Lean model, driven by the same schedule, must predict the same sequence of hook
//!        events (which thread misses, finds the key absent, inserts - with which key), the same answers and
//!        the same final cache contents.
//! After every run the real caches (`verif_cache_snapshot`) are checked against the invariant of the model
//! (`Inv`: every cached value is the value of the cache-free function), here with the DFS oracle of C13 and by
//! the Lean model (`C14 inv`); `C14 run` lets the model execute the same queries under a schedule chosen here
//! and compares answers and final cache contents.

use crate::c13::{self, ExtraV, Oracle, RecSpec, RowSpec};
use crate::ctx::{CaseOut, Ctx};
use crate::rng::Rng;
use crate::vx;
use libhaystack::defs::namespace::{verif_set_step_hook, DefDict, Namespace};
use libhaystack::val::*;
use std::cell::RefCell;
use std::collections::{BTreeMap, BTreeSet};
use std::panic::{catch_unwind, AssertUnwindSafe};
use std::sync::{Arc, Barrier, Condvar, Mutex, Once};
use std::time::Duration;

type Ns = &'static Namespace<'static>;

// ------------------------------------------------------------------------------------------------
// queries
// ------------------------------------------------------------------------------------------------
#[derive(Clone, Debug, PartialEq)]
pub enum Q {
    Sup(String),
    ASup(String),
    Inh(String),
    Fits(String, String),
    Refl(RecSpec),
    RFits(RecSpec, String),
    Rel(RecSpec, String, Option<String>),
    Tags(String),
    /// `fits_marker` / `fits_val` / `fits_choice` / `fits_entity` (0..3)
    FitsRoot(u8, String),
    /// `implementation`
    Impl(String),
    /// `choices_for`
    Choices(String),
    /// `associations(parent, association)`
    Assoc(String, String),
    /// `has_relationship` with a resolver over records (the records, relationship, term, target, index of the subject)
    RelX(Vec<c13::RelRec>, String, Option<String>, Option<String>, usize),
}

impl Q {
    /// known to the Lean model
    fn modelled(&self) -> bool {
        !matches!(self, Q::Choices(_))
    }
    /// the query as the Lean driver reads it (`C14 runx`): the kinds of C13 part 2 have their own spelling
    fn write_model(&self, out: &mut Vec<String>) {
        match self {
            Q::Tags(p) => out.extend(["assoc".into(), vx::h(p), vx::h("tags")]),
            Q::Rel(r, n, t) => {
                // no resolver records, no target; the subject with every tag in key order, a Ref by its id
                let d = subject(r);
                out.extend(["rel".into(), "0".into(), vx::h(n), vx::ho(t), "-".into(), "-".into()]);
                out.push(match d.get_ref("id") {
                    Some(r) => vx::h(&r.value),
                    None => "-".into(),
                });
                out.push(d.len().to_string());
                for (k, v) in d.iter() {
                    out.push(vx::h(k));
                    out.push(match v {
                        Value::Ref(r) => vx::h(&r.value),
                        _ => "-".into(),
                    });
                }
            }
            Q::RelX(recs, rel, term, target, subj) => {
                // the model's records: every tag in key order, `id` included; a Ref value by its id
                let dicts: Vec<Dict> = recs.iter().map(|r| r.dict()).collect();
                let rec_tokens = |r: &c13::RelRec, d: &Dict, out: &mut Vec<String>| {
                    out.push(vx::ho(&r.key));
                    out.push(match d.get_ref("id") {
                        Some(r) => vx::h(&r.value),
                        None => "-".into(),
                    });
                    out.push(d.len().to_string());
                    for (k, v) in d.iter() {
                        out.push(vx::h(k));
                        out.push(match v {
                            Value::Ref(r) => vx::h(&r.value),
                            _ => "-".into(),
                        });
                    }
                };
                out.push("rel".into());
                out.push(recs.len().to_string());
                for (r, d) in recs.iter().zip(&dicts) {
                    rec_tokens(r, d, out);
                }
                out.extend([vx::h(rel), vx::ho(term), vx::ho(target)]);
                let i = (*subj).min(recs.len().saturating_sub(1));
                rec_tokens(&recs[i], &dicts[i], out);
            }
            _ => self.write(out),
        }
    }
    /// the set of cached keys after the query does not depend on hash-set iteration order
    fn deterministic_footprint(&self) -> bool {
        // tags / root tests / implementation / has_relationship reach the caches through `inheritance`, `fits` and
        // `all_supertypes_of` in an order fixed by lists and BTreeMaps (their hash sets only collect results)
        matches!(self, Q::Sup(_) | Q::ASup(_) | Q::Inh(_) | Q::Fits(..) | Q::Refl(_) | Q::Tags(_) | Q::FitsRoot(..) | Q::Impl(_) | Q::Rel(..))
    }
    /// the ORDER of cache operations does not depend on hash-set iteration order
    fn deterministic_order(&self) -> bool {
        matches!(self, Q::Sup(_) | Q::ASup(_) | Q::Inh(_) | Q::Fits(..) | Q::Tags(_) | Q::Assoc(..) | Q::FitsRoot(..) | Q::Impl(_) | Q::Rel(..) | Q::RelX(..))
    }
    fn write(&self, out: &mut Vec<String>) {
        let rec = |r: &RecSpec, out: &mut Vec<String>| {
            out.push(r.len().to_string());
            for (k, m) in r {
                out.push(vx::h(k));
                out.push((*m as u8).to_string());
            }
        };
        match self {
            Q::Sup(k) => out.extend(["sup".into(), vx::h(k)]),
            Q::ASup(k) => out.extend(["asup".into(), vx::h(k)]),
            Q::Inh(k) => out.extend(["inh".into(), vx::h(k)]),
            Q::Fits(a, b) => out.extend(["fits".into(), vx::h(a), vx::h(b)]),
            Q::Refl(r) => {
                out.push("refl".into());
                rec(r, out);
            }
            Q::RFits(r, b) => {
                out.push("rfits".into());
                rec(r, out);
                out.push(vx::h(b));
            }
            Q::Rel(r, n, t) => {
                out.push("rel".into());
                rec(r, out);
                out.push(vx::h(n));
                out.push(vx::ho(t));
            }
            Q::Tags(p) => out.extend(["tags".into(), vx::h(p)]),
            Q::FitsRoot(w, k) => out.extend(["froot".into(), w.to_string(), vx::h(k)]),
            Q::Impl(k) => out.extend(["impl".into(), vx::h(k)]),
            Q::Choices(k) => out.extend(["choices".into(), vx::h(k)]),
            Q::Assoc(p, a) => out.extend(["assoc".into(), vx::h(p), vx::h(a)]),
            Q::RelX(recs, rel, term, target, subj) => {
                out.push("relx".into());
                let q = c13::RelQuery { subject: *subj, rel: rel.clone(), term: term.clone(), target: target.clone() };
                c13::write_rel(recs, &[q], out);
            }
        }
    }
    fn read(rd: &mut vx::Rd) -> Option<Q> {
        let rec = |rd: &mut vx::Rd| -> Option<RecSpec> {
            let k: usize = rd.num()?;
            let mut r = Vec::new();
            for _ in 0..k {
                let n = rd.hs()?;
                let m: u8 = rd.num()?;
                r.push((n, m != 0));
            }
            Some(r)
        };
        Some(match rd.tok()? {
            "sup" => Q::Sup(rd.hs()?),
            "asup" => Q::ASup(rd.hs()?),
            "inh" => Q::Inh(rd.hs()?),
            "fits" => Q::Fits(rd.hs()?, rd.hs()?),
            "refl" => Q::Refl(rec(rd)?),
            "rfits" => {
                let r = rec(rd)?;
                Q::RFits(r, rd.hs()?)
            }
            "rel" => {
                let r = rec(rd)?;
                let n = rd.hs()?;
                Q::Rel(r, n, rd.hos()?)
            }
            "tags" => Q::Tags(rd.hs()?),
            "froot" => {
                let w: u8 = rd.num()?;
                Q::FitsRoot(w, rd.hs()?)
            }
            "impl" => Q::Impl(rd.hs()?),
            "choices" => Q::Choices(rd.hs()?),
            "assoc" => Q::Assoc(rd.hs()?, rd.hs()?),
            "relx" => {
                let (recs, qs) = c13::read_rel(rd)?;
                let q = qs.into_iter().next()?;
                Q::RelX(recs, q.rel, q.term, q.target, q.subject)
            }
            _ => return None,
        })
    }
}

fn write_threads(qss: &[Vec<Q>], out: &mut Vec<String>) {
    out.push(qss.len().to_string());
    for qs in qss {
        out.push(qs.len().to_string());
        for q in qs {
            q.write(out);
        }
    }
}
fn read_queries(rd: &mut vx::Rd) -> Option<Vec<Q>> {
    let n: usize = rd.num()?;
    (0..n).map(|_| Q::read(rd)).collect()
}
fn read_threads(rd: &mut vx::Rd) -> Option<Vec<Vec<Q>>> {
    let n: usize = rd.num()?;
    (0..n).map(|_| read_queries(rd)).collect()
}

/// a record as a dict: Marker tags, `...Ref` tags are Refs, the rest numbers / strings
fn subject(r: &RecSpec) -> Dict {
    let mut d = Dict::new();
    for (i, (k, m)) in r.iter().enumerate() {
        let v = if k.ends_with("Ref") {
            Value::make_ref("r1")
        } else if *m {
            Value::make_marker()
        } else if i % 2 == 0 {
            Value::make_int(7)
        } else {
            Value::make_str("v")
        };
        d.insert(k.clone(), v);
    }
    d
}

/// the answer of the real namespace: (canonical text as the model prints it, extra detail compared only here)
fn ask(ns: Ns, q: &Q) -> (String, String) {
    let n = |v: Vec<String>| format!("n:{}", c13::show(&v));
    let b = |x: bool| format!("b:{}", x as u8);
    match q {
        Q::Sup(k) => (n(c13::names(ns.supertypes_of(&Symbol::from(k.as_str())).iter().copied())), String::new()),
        Q::ASup(k) => (n(c13::names(ns.all_supertypes_of(&Symbol::from(k.as_str())))), String::new()),
        Q::Inh(k) => (n(c13::names(ns.inheritance(&Symbol::from(k.as_str())).iter().copied())), String::new()),
        Q::Fits(a, bb) => (b(ns.fits(&Symbol::from(a.as_str()), &Symbol::from(bb.as_str()))), String::new()),
        Q::Refl(r) => {
            let d = subject(r);
            let refl = ns.reflect(&d);
            (n(c13::names(refl.defs.iter().copied())), format!("entity={}", refl.entity_type.def_name()))
        }
        Q::RFits(r, base) => {
            let d = subject(r);
            (b(ns.reflect(&d).fits(&Symbol::from(base.as_str()))), String::new())
        }
        Q::Rel(r, name, term) => {
            let d = subject(r);
            let resolve = |_: &Ref| -> Option<Dict> { None };
            let t = term.as_ref().map(|t| Symbol::from(t.as_str()));
            (b(ns.has_relationship(&d, &Symbol::from(name.as_str()), &t, &None, &resolve)), String::new())
        }
        Q::Tags(p) => (n(c13::names(ns.tags(&Symbol::from(p.as_str())))), String::new()),
        Q::FitsRoot(w, k) => {
            let sym = Symbol::from(k.as_str());
            let r = match w {
                0 => ns.fits_marker(&sym),
                1 => ns.fits_val(&sym),
                2 => ns.fits_choice(&sym),
                _ => ns.fits_entity(&sym),
            };
            (b(r), String::new())
        }
        Q::Impl(k) => (n(c13::names(ns.implementation(&Symbol::from(k.as_str())))), String::new()),
        Q::Choices(k) => (n(c13::names(ns.choices_for(&Symbol::from(k.as_str())).iter())), String::new()),
        Q::Assoc(p, a) => (n(c13::names(ns.associations(&Symbol::from(p.as_str()), &Symbol::from(a.as_str())))), String::new()),
        Q::RelX(recs, rel, term, target, subj) => {
            let dicts: Vec<Dict> = recs.iter().map(|r| r.dict()).collect();
            let resolve = |r: &Ref| -> Option<Dict> { recs.iter().position(|x| x.key.as_deref() == Some(r.value.as_str())).map(|i| dicts[i].clone()) };
            let i = (*subj).min(recs.len().saturating_sub(1));
            let t = term.as_ref().map(|t| Symbol::from(t.as_str()));
            let g = target.as_ref().map(|g| Ref::from(g.as_str()));
            (b(ns.has_relationship(&dicts[i], &Symbol::from(rel.as_str()), &t, &g, &resolve)), String::new())
        }
    }
}

// ------------------------------------------------------------------------------------------------
// graphs
// ------------------------------------------------------------------------------------------------
enum GraphSrc {
    Rows(Vec<RowSpec>),
    Zinc,
}
impl GraphSrc {
    fn rows(&self) -> &[RowSpec] {
        match self {
            GraphSrc::Rows(r) => r,
            GraphSrc::Zinc => &c13::zinc_db().rows,
        }
    }
    /// a fresh (cold-cache) namespace
    fn fresh(&self) -> Ns {
        match self {
            GraphSrc::Rows(r) => c13::build_ns(r),
            GraphSrc::Zinc => Box::leak(Box::new(Namespace::make(c13::zinc_db().grid.clone()))),
        }
    }
    fn write(&self, out: &mut Vec<String>) {
        match self {
            GraphSrc::Rows(r) => {
                out.push("g".into());
                c13::write_rows(r, out);
            }
            GraphSrc::Zinc => out.push("z".into()),
        }
    }
    fn read(rd: &mut vx::Rd) -> Option<GraphSrc> {
        match rd.tok()? {
            "g" => Some(GraphSrc::Rows(c13::read_rows(rd)?)),
            "z" => Some(GraphSrc::Zinc),
            _ => None,
        }
    }
}

// ------------------------------------------------------------------------------------------------
// the step hook: forced interleavings (controller) or random perturbation
// ------------------------------------------------------------------------------------------------
struct CtlSt {
    grant: Vec<bool>,
    /// 0 running, 1 paused at a hook point, 2 done
    status: Vec<u8>,
    event: Vec<Option<String>>,
}
struct Ctl {
    m: Mutex<CtlSt>,
    cv: Condvar,
}
const CTL_TIMEOUT: Duration = Duration::from_secs(20);

impl Ctl {
    fn new(n: usize) -> Ctl {
        Ctl { m: Mutex::new(CtlSt { grant: vec![false; n], status: vec![0; n], event: vec![None; n] }), cv: Condvar::new() }
    }
    /// worker side: report the event and wait for the next grant
    fn pause(&self, tid: usize, ev: Option<String>) {
        let mut st = self.m.lock().unwrap();
        st.event[tid] = ev;
        st.status[tid] = 1;
        self.cv.notify_all();
        while !st.grant[tid] {
            let (g, to) = self.cv.wait_timeout(st, CTL_TIMEOUT).unwrap();
            st = g;
            if to.timed_out() && !st.grant[tid] {
                panic!("controller: no grant");
            }
        }
        st.grant[tid] = false;
        st.status[tid] = 0;
        self.cv.notify_all();
    }
    fn done(&self, tid: usize) {
        let mut st = self.m.lock().unwrap();
        st.status[tid] = 2;
        self.cv.notify_all();
    }
    fn wait_all_paused(&self) -> bool {
        let mut st = self.m.lock().unwrap();
        while st.status.iter().any(|s| *s == 0) {
            let (g, to) = self.cv.wait_timeout(st, CTL_TIMEOUT).unwrap();
            st = g;
            if to.timed_out() {
                return false;
            }
        }
        true
    }
    /// controller side: let `tid` run to its next hook point; returns the event or `done`; None = stuck
    fn grant(&self, tid: usize) -> Option<String> {
        let mut st = self.m.lock().unwrap();
        st.grant[tid] = true;
        self.cv.notify_all();
        while st.grant[tid] || st.status[tid] == 0 {
            let (g, to) = self.cv.wait_timeout(st, CTL_TIMEOUT).unwrap();
            st = g;
            if to.timed_out() {
                return None;
            }
        }
        if st.status[tid] == 2 {
            Some("done".into())
        } else {
            st.event[tid].take()
        }
    }
}

enum Role {
    Free,
    Controlled(Arc<Ctl>, usize),
    Perturb(Rng),
}
thread_local! {
    static ROLE: RefCell<Role> = const { RefCell::new(Role::Free) };
}

fn install_hook() {
    static ONCE: Once = Once::new();
    ONCE.call_once(|| {
        verif_set_step_hook(Some(Box::new(|point: &'static str, key: &str| {
            ROLE.with(|r| {
                let mut r = r.borrow_mut();
                match &mut *r {
                    Role::Free => {}
                    Role::Controlled(ctl, tid) => {
                        let (ctl, tid) = (ctl.clone(), *tid);
                        drop(r);
                        ctl.pause(tid, Some(format!("{point}:{}", vx::h(key))));
                    }
                    Role::Perturb(rng) => match rng.below(6) {
                        0 | 1 => std::thread::yield_now(),
                        2 => std::thread::sleep(Duration::from_micros(rng.below(40))),
                        _ => {}
                    },
                }
            })
        })));
    });
}

// ------------------------------------------------------------------------------------------------
// shared checks
// ------------------------------------------------------------------------------------------------
fn sorted(mut v: Vec<String>) -> Vec<String> {
    v.sort();
    v
}

/// the real caches must satisfy the model's invariant: checked here (DFS oracle) and by the Lean model
fn check_caches(src: &GraphSrc, ns: Ns, o: &Oracle, out: &mut CaseOut) -> (String, String) {
    let (sup, inh) = ns.verif_cache_snapshot();
    let mut t = vec![sup.len().to_string()];
    let mut sup_s = Vec::new();
    let mut inh_s = Vec::new();
    let sup: BTreeMap<String, Vec<String>> = sup.into_iter().map(|(k, v)| (k, sorted(v))).collect();
    let inh: BTreeMap<String, Vec<String>> = inh.into_iter().map(|(k, v)| (k, sorted(v))).collect();
    for (k, v) in &sup {
        if *v != o.sup(k) {
            out.fail("cache_inv", format!("supertypes_of_cache[{k:?}] = {v:?}, cache-free value {:?}", o.sup(k)));
        }
        t.push(vx::h(k));
        c13::write_names(v, &mut t);
        sup_s.push(format!("{}={}", vx::h(k), c13::show(v)));
    }
    t.push(inh.len().to_string());
    for (k, v) in &inh {
        let want: Vec<String> = o.inheritance(k).into_iter().collect();
        if *v != want {
            out.fail("cache_inv", format!("inheritance_of_cache[{k:?}] = {v:?}, cache-free value {want:?}"));
        }
        t.push(vx::h(k));
        c13::write_names(v, &mut t);
        inh_s.push(format!("{}={}", vx::h(k), c13::show(v)));
    }
    out.req(
        format!("C14 inv {} {}", c13::model_graph_tokens(src.rows()), t.join(" ")),
        format!("ok {} {}", sup.len(), inh.len()),
    );
    out.stat(&format!("cached_keys_{}", match sup.len() + inh.len() { 0 => "0", 1..=9 => "1-9", 10..=99 => "10-99", _ => "100+" }));
    (sup_s.join("+"), inh_s.join("+"))
}

/// answers of a single-threaded cold namespace, one per distinct query
struct Reference {
    ns: Ns,
    memo: Vec<(Q, (String, String))>,
}
impl Reference {
    fn get(&mut self, q: &Q) -> (String, String) {
        if let Some((_, a)) = self.memo.iter().find(|(k, _)| k == q) {
            return a.clone();
        }
        let a = ask(self.ns, q);
        self.memo.push((q.clone(), a.clone()));
        a
    }
}

fn model_threads_tokens(qss: &[Vec<Q>]) -> String {
    let mut t = vec![qss.len().to_string()];
    for qs in qss {
        let only: Vec<&Q> = qs.iter().filter(|q| q.modelled()).collect();
        t.push(only.len().to_string());
        for q in only {
            q.write_model(&mut t);
        }
    }
    t.join(" ")
}

// ------------------------------------------------------------------------------------------------
// exec
// ------------------------------------------------------------------------------------------------
/// A query issued while the RESULT of an earlier query is still alive: `supertypes_of` / `inheritance` hand out a
/// guard into the cache (`dashmap::mapref::one::Ref`), and a cold query has to insert into the cache.  One thread,
/// `n` sibling defs below `marker`; the first answer is kept while every other def is queried cold.  Run on a thread of
/// its own with a deadline: when it does not come back it is left behind (it blocks on a namespace nobody else uses).
fn exec_held(n: usize, inh: bool, out: &mut CaseOut) {
    out.nontrivial = true;
    out.stat("held");
    let mut text = String::from("ver:\"3.0\"\ndef,is\n^marker,\n");
    for i in 0..n {
        text.push_str(&format!("^t{i},[^marker]\n"));
    }
    let (tx, rx) = std::sync::mpsc::channel::<Result<usize, String>>();
    std::thread::spawn(move || {
        let v = match libhaystack::encoding::zinc::decode::from_str(&text) {
            Ok(v) => v,
            Err(e) => return tx.send(Err(format!("defs grid: {e}"))).unwrap_or(()),
        };
        let grid = match Grid::try_from(&v) {
            Ok(g) => g,
            Err(e) => return tx.send(Err(format!("defs grid: {e}"))).unwrap_or(()),
        };
        let ns: &'static Namespace<'static> = Box::leak(Box::new(Namespace::make(grid)));
        let first = Symbol::from("t0");
        let mut wrong = 0usize;
        if inh {
            let held = ns.inheritance(&first);
            for i in 1..n {
                if ns.inheritance(&Symbol::from(format!("t{i}").as_str())).len() != 2 {
                    wrong += 1;
                }
            }
            if held.len() != 2 {
                wrong += 1;
            }
        } else {
            let held = ns.supertypes_of(&first);
            for i in 1..n {
                if ns.supertypes_of(&Symbol::from(format!("t{i}").as_str())).len() != 1 {
                    wrong += 1;
                }
            }
            if held.len() != 1 {
                wrong += 1;
            }
        }
        let _ = tx.send(Ok(wrong));
    });
    match rx.recv_timeout(std::time::Duration::from_secs(8)) {
        Ok(Ok(0)) => {}
        Ok(Ok(w)) => out.fail("history_dependent", format!("{w} answers differ while an earlier answer is kept alive")),
        Ok(Err(e)) => out.fail("harness", e),
        Err(_) => out.fail(
            "guard_deadlock",
            format!(
                "one thread: the answer of {}(^t0) is kept alive and the other {} defs are queried cold: a query never returns (the cache insert waits for the shard lock the kept answer holds)",
                if inh { "inheritance" } else { "supertypes_of" },
                n - 1
            ),
        ),
    }
}

/// A relationship query whose RESOLVER asks the same namespace (a resolver is user code: looking a record up and
/// reflecting it is what resolvers do).  `n` sibling defs, a transitive relationship, a chain of records; the resolver
/// queries `inheritance` / `supertypes_of` of a cold def on every call.  Run on a thread of its own with a deadline.
fn exec_resolver(n: usize, out: &mut CaseOut) {
    out.nontrivial = true;
    out.stat("resolver_queries_ns");
    let mut text = String::from(
        "ver:\"3.0\"\ndef,is,transitive,containedBy\n^marker,,,\n^relationship,[^marker],,\n^ref,,,\n^space,[^marker],,\n^containedBy,[^relationship],M,\n^spaceRef,[^ref],,^space\n",
    );
    for i in 0..n {
        text.push_str(&format!("^t{i},[^marker],,\n"));
    }
    let (tx, rx) = std::sync::mpsc::channel::<Result<(bool, usize), String>>();
    std::thread::spawn(move || {
        let grid = match libhaystack::encoding::zinc::decode::from_str(&text).ok().and_then(|v| Grid::try_from(&v).ok()) {
            Some(g) => g,
            None => return tx.send(Err("defs grid".into())).unwrap_or(()),
        };
        let ns: &'static Namespace<'static> = Box::leak(Box::new(Namespace::make(grid)));
        // records r0 -> r1 -> ... -> r9 through spaceRef
        let rec = |i: usize| {
            let mut d = Dict::new();
            d.insert("id".into(), Value::make_ref(&format!("r{i}")));
            d.insert("spaceRef".into(), Value::make_ref(&format!("r{}", i + 1)));
            d
        };
        let calls = std::cell::Cell::new(0usize);
        let nested_wrong = std::cell::Cell::new(false);
        let resolve = |r: &Ref| -> Option<Dict> {
            let k = calls.get();
            calls.set(k + 1);
            // what a resolver does: look at the namespace (cold symbols, spread over every shard)
            for j in 0..300 {
                let sym = Symbol::from(format!("t{}", (k * 300 + j) % n).as_str());
                let _ = ns.inheritance(&sym).len();
                let _ = ns.supertypes_of(&sym).len();
            }
            let i: usize = r.value[1..].parse().ok()?;
            // ... and ask the namespace a relationship question of its own (a store scoped to "everything contained by
            // r9" does exactly that): a nested `has_relationship` on the same thread, while the outer one is in progress
            let plain = |r: &Ref| -> Option<Dict> {
                let j: usize = r.value[1..].parse().ok()?;
                if j < 9 { Some(rec(j)) } else { None }
            };
            let inner = ns.has_relationship(&rec(i.min(8)), &Symbol::from("containedBy"), &None, &Some(Ref::from("r9")), &plain);
            if !inner {
                nested_wrong.set(true);
            }
            if i < 9 {
                Some(rec(i))
            } else {
                None
            }
        };
        let got = catch_unwind(AssertUnwindSafe(|| ns.has_relationship(&rec(0), &Symbol::from("containedBy"), &None, &Some(Ref::from("r7")), &resolve)));
        let _ = match got {
            Err(_) => tx.send(Err("PANIC".into())),
            Ok(_) if nested_wrong.get() => tx.send(Err("NESTED".into())),
            Ok(got) => tx.send(Ok((got, calls.get()))),
        };
    });
    match rx.recv_timeout(std::time::Duration::from_secs(20)) {
        Ok(Ok((true, _))) => {}
        Ok(Ok((false, c))) => out.fail("harness", format!("the relationship query answered false after {c} resolver calls (the scenario is meant to hold)")),
        Ok(Err(e)) if e == "PANIC" => out.fail("thread_panic", "has_relationship panicked when its resolver asked the same namespace a relationship question of its own (nested has_relationship on one thread)".into()),
        Ok(Err(e)) if e == "NESTED" => out.fail("history_dependent", "a has_relationship query issued from inside a resolver (r_i containedBy r9 along the chain r0 -> .. -> r9) answered false".into()),
        Ok(Err(e)) => out.fail("harness", e),
        Err(_) => out.fail("resolver_deadlock", "has_relationship with a resolver that queries the same namespace (cold symbols) never returns".into()),
    }
}

/// Two threads: A keeps the answer of `inheritance(^t0)` alive for `ms` milliseconds and then lets go of it; B
/// meanwhile queries every other def cold.  B may have to WAIT for A (the cache insert needs the shard A's answer
/// points into) but it must come back with the right answers once A has let go: no panic, no wrong or partial answer.
fn exec_held2(n: usize, ms: u64, out: &mut CaseOut) {
    out.nontrivial = true;
    out.stat("held2");
    let mut text = String::from("ver:\"3.0\"\ndef,is\n^marker,\n");
    for i in 0..n {
        text.push_str(&format!("^t{i},[^marker]\n"));
    }
    let grid = match libhaystack::encoding::zinc::decode::from_str(&text).ok().and_then(|v| Grid::try_from(&v).ok()) {
        Some(g) => g,
        None => return out.fail("harness", "defs grid".into()),
    };
    let ns: &'static Namespace<'static> = Box::leak(Box::new(Namespace::make(grid)));
    let ready = Arc::new(Barrier::new(2));
    let r2 = ready.clone();
    let a = std::thread::spawn(move || {
        let held = ns.inheritance(&Symbol::from("t0"));
        r2.wait();
        std::thread::sleep(std::time::Duration::from_millis(ms));
        held.len()
    });
    let (tx, rx) = std::sync::mpsc::channel::<Result<usize, String>>();
    std::thread::spawn(move || {
        ready.wait();
        let r = catch_unwind(AssertUnwindSafe(|| {
            let mut wrong = 0usize;
            for i in 1..n {
                let sym = Symbol::from(format!("t{i}").as_str());
                if ns.inheritance(&sym).len() != 2 || ns.supertypes_of(&sym).len() != 1 {
                    wrong += 1;
                }
            }
            wrong
        }));
        let _ = tx.send(r.map_err(|e| e.downcast_ref::<String>().cloned().or_else(|| e.downcast_ref::<&str>().map(|s| s.to_string())).unwrap_or_default()));
    });
    match rx.recv_timeout(std::time::Duration::from_millis(ms + 20000)) {
        Ok(Ok(0)) => {}
        Ok(Ok(w)) => out.fail("history_dependent", format!("{w} answers differ while another thread keeps an answer alive")),
        Ok(Err(p)) => out.fail("panic", format!("a cold query panicked while another thread kept an answer alive for {ms} ms: {p}")),
        Err(_) => out.fail("guard_deadlock2", format!("cold queries did not come back {} s after the other thread had let go of its answer", 20)),
    }
    match a.join() {
        Ok(2) => {}
        other => out.fail("history_dependent", format!("the kept answer has {other:?} entries, expected 2")),
    }
}

pub fn exec(_label: &str, input: &str, out: &mut CaseOut) {
    install_hook();
    let mut rd = vx::Rd::new(input);
    let mode = rd.tok().unwrap_or("");
    if mode == "resolver" {
        let n: usize = rd.num().unwrap_or(3000);
        return exec_resolver(n, out);
    }
    if mode == "held2" {
        let n: usize = rd.num().unwrap_or(2000);
        let ms: u64 = rd.num().unwrap_or(1500);
        return exec_held2(n, ms, out);
    }
    if mode == "held" {
        let n: usize = rd.num().unwrap_or(2000);
        let inh = rd.tok() == Some("inh");
        return exec_held(n, inh, out);
    }
    let Some(src) = GraphSrc::read(&mut rd) else {
        out.fail("harness", "unparsable C14 input".into());
        return;
    };
    let o = Oracle::new(src.rows());
    match mode {
        "seq" => {
            let Some(qs) = read_queries(&mut rd) else {
                out.fail("harness", "unparsable C14 input".into());
                return;
            };
            exec_seq(&src, &o, &qs, out)
        }
        "conc" => {
            let parsed = (|| {
                let seed: u64 = rd.num()?;
                let qss = read_threads(&mut rd)?;
                let n: usize = rd.num()?;
                let sched: Option<Vec<usize>> = (0..n).map(|_| rd.num()).collect();
                Some((seed, qss, sched?))
            })();
            let Some((seed, qss, sched)) = parsed else {
                out.fail("harness", "unparsable C14 input".into());
                return;
            };
            exec_conc(&src, &o, seed, &qss, &sched, out)
        }
        "trace" => {
            let parsed = (|| {
                let budget: usize = rd.num()?;
                let qss = read_threads(&mut rd)?;
                Some((budget, qss))
            })();
            let Some((budget, qss)) = parsed else {
                out.fail("harness", "unparsable C14 input".into());
                return;
            };
            exec_trace(&src, &o, budget, &qss, out)
        }
        _ => out.fail("harness", "unparsable C14 input".into()),
    }
}

fn exec_seq(src: &GraphSrc, o: &Oracle, qs: &[Q], out: &mut CaseOut) {
    out.nontrivial = qs.len() >= 2;
    let hist = src.fresh();
    let mut answers = Vec::new();
    for (i, q) in qs.iter().enumerate() {
        let a = ask(hist, q);
        // the same query as the FIRST query of a cold namespace
        let alone_ns = src.fresh();
        let alone = ask(alone_ns, q);
        unsafe { c13::free_ns(alone_ns) };
        if a != alone {
            out.fail("history_dependent", format!("query #{i} {q:?}: after the history {a:?}, alone {alone:?}"));
        }
        // and asked a second time right away (warm)
        let again = ask(hist, q);
        if again != a {
            out.fail("history_dependent", format!("query #{i} {q:?}: first {a:?}, repeated {again:?}"));
        }
        answers.push(a.0);
    }
    let (sup_s, inh_s) = check_caches(src, hist, o, out);
    if qs.iter().all(|q| q.modelled()) {
        let det = qs.iter().all(|q| q.deterministic_footprint());
        let model_ans = answers.join("/");
        out.req(
            format!("C14 runx {} {} 3 {} 0", det as u8, c13::model_graph_tokens_x(src.rows()), model_threads_tokens(&[qs.to_vec()])),
            if det { format!("ok {model_ans} # {sup_s} # {inh_s}") } else { format!("ok {model_ans}") },
        );
    }
    unsafe { c13::free_ns(hist) };
}

fn exec_conc(src: &GraphSrc, o: &Oracle, seed: u64, qss: &[Vec<Q>], sched: &[usize], out: &mut CaseOut) {
    out.nontrivial = qss.len() >= 2;
    out.stat(&format!("threads_{}", qss.len()));
    let ns = src.fresh();
    let barrier = Arc::new(Barrier::new(qss.len()));
    let mut handles = Vec::new();
    for (tid, qs) in qss.iter().enumerate() {
        let qs = qs.clone();
        let barrier = barrier.clone();
        let tseed = seed.wrapping_mul(0x9E3779B97F4A7C15).wrapping_add(tid as u64);
        handles.push(std::thread::spawn(move || {
            ROLE.with(|r| *r.borrow_mut() = if seed == 0 { Role::Free } else { Role::Perturb(Rng::new(tseed)) });
            barrier.wait();
            let mut res: Vec<Result<(String, String), ()>> = Vec::new();
            for q in &qs {
                res.push(catch_unwind(AssertUnwindSafe(|| ask(ns, q))).map_err(|_| ()));
            }
            res
        }));
    }
    let results: Vec<Vec<Result<(String, String), ()>>> =
        handles.into_iter().map(|h| h.join().unwrap_or_else(|_| vec![Err(())])).collect();
    // reference: one cold namespace, one thread
    let mut reference = Reference { ns: src.fresh(), memo: Vec::new() };
    let mut thread_ans = Vec::new();
    for (tid, (qs, rs)) in qss.iter().zip(results.iter()).enumerate() {
        let mut mine = Vec::new();
        if rs.len() != qs.len() {
            out.fail("thread_panic", format!("thread {tid} died"));
        }
        for (q, r) in qs.iter().zip(rs.iter()) {
            match r {
                Err(()) => out.fail("thread_panic", format!("thread {tid} panicked in {q:?}")),
                Ok(a) => {
                    let want = reference.get(q);
                    if *a != want {
                        out.fail("schedule_dependent", format!("thread {tid} {q:?}: concurrent {a:?}, single-threaded {want:?}"));
                    }
                    if q.modelled() {
                        mine.push(a.0.clone());
                    }
                }
            }
        }
        thread_ans.push(mine.join("/"));
    }
    let (sup_s, inh_s) = check_caches(src, ns, o, out);
    let all_modelled = qss.iter().flatten().all(|q| q.modelled());
    let det = all_modelled && qss.iter().flatten().all(|q| q.deterministic_footprint());
    let mut st = vec![sched.len().to_string()];
    st.extend(sched.iter().map(|t| t.to_string()));
    out.req(
        format!("C14 runx {} {} 3 {} {}", det as u8, c13::model_graph_tokens_x(src.rows()), model_threads_tokens(qss), st.join(" ")),
        if det { format!("ok {} # {sup_s} # {inh_s}", thread_ans.join(";")) } else { format!("ok {}", thread_ans.join(";")) },
    );
    unsafe {
        c13::free_ns(ns);
        c13::free_ns(reference.ns);
    }
}

/// one controlled run: `prefix` fixes the first choices, afterwards the lowest unfinished thread runs.
/// Returns (schedule, alternatives per step, events, answers per thread, caches) or None when stuck.
#[allow(clippy::type_complexity)]
fn controlled_run(
    src: &GraphSrc,
    o: &Oracle,
    qss: &[Vec<Q>],
    choose: &mut dyn FnMut(usize, &[usize]) -> usize,
    out: &mut CaseOut,
) -> Option<(Vec<usize>, Vec<Vec<usize>>, Vec<String>, Vec<Vec<(String, String)>>, (String, String))> {
    let n = qss.len();
    let ns = src.fresh();
    let ctl = Arc::new(Ctl::new(n));
    let mut handles = Vec::new();
    for (tid, qs) in qss.iter().enumerate() {
        let qs = qs.clone();
        let ctl = ctl.clone();
        handles.push(std::thread::spawn(move || {
            ROLE.with(|r| *r.borrow_mut() = Role::Controlled(ctl.clone(), tid));
            ctl.pause(tid, None);
            let res = catch_unwind(AssertUnwindSafe(|| qs.iter().map(|q| ask(ns, q)).collect::<Vec<_>>()));
            ROLE.with(|r| *r.borrow_mut() = Role::Free);
            ctl.done(tid);
            res.ok()
        }));
    }
    if !ctl.wait_all_paused() {
        out.fail("hang", "threads did not reach their start point".into());
        return None;
    }
    let mut finished = vec![false; n];
    let mut sched = Vec::new();
    let mut alts = Vec::new();
    let mut events = Vec::new();
    while finished.iter().any(|f| !f) {
        let open: Vec<usize> = (0..n).filter(|t| !finished[*t]).collect();
        let choice = choose(sched.len(), &open);
        alts.push(open);
        sched.push(choice);
        match ctl.grant(choice) {
            None => {
                out.fail("hang", format!("thread {choice} neither reached a hook point nor finished (schedule {sched:?})"));
                // let the rest go so that the process is not left with blocked threads
                return None;
            }
            Some(ev) => {
                if ev == "done" {
                    finished[choice] = true;
                }
                events.push(format!("{choice}:{ev}"));
            }
        }
    }
    let mut answers = Vec::new();
    for (tid, h) in handles.into_iter().enumerate() {
        match h.join().ok().flatten() {
            Some(a) => answers.push(a),
            None => {
                out.fail("thread_panic", format!("thread {tid} panicked (schedule {sched:?})"));
                answers.push(vec![]);
            }
        }
    }
    let caches = check_caches_quiet(ns, o, out);
    unsafe { c13::free_ns(ns) };
    Some((sched, alts, events, answers, caches))
}

/// like `check_caches` without the Lean request (the `trace` reply carries the cache contents)
fn check_caches_quiet(ns: Ns, o: &Oracle, out: &mut CaseOut) -> (String, String) {
    let (sup, inh) = ns.verif_cache_snapshot();
    let sup: BTreeMap<String, Vec<String>> = sup.into_iter().map(|(k, v)| (k, sorted(v))).collect();
    let inh: BTreeMap<String, Vec<String>> = inh.into_iter().map(|(k, v)| (k, sorted(v))).collect();
    for (k, v) in &sup {
        if *v != o.sup(k) {
            out.fail("cache_inv", format!("supertypes_of_cache[{k:?}] = {v:?}, cache-free value {:?}", o.sup(k)));
        }
    }
    for (k, v) in &inh {
        let want: Vec<String> = o.inheritance(k).into_iter().collect();
        if *v != want {
            out.fail("cache_inv", format!("inheritance_of_cache[{k:?}] = {v:?}, cache-free value {want:?}"));
        }
    }
    let f = |m: &BTreeMap<String, Vec<String>>| m.iter().map(|(k, v)| format!("{}={}", vx::h(k), c13::show(v))).collect::<Vec<_>>().join("+");
    (f(&sup), f(&inh))
}

fn exec_trace(src: &GraphSrc, o: &Oracle, budget: usize, qss: &[Vec<Q>], out: &mut CaseOut) {
    out.nontrivial = true;
    if !qss.iter().flatten().all(|q| q.deterministic_order()) {
        out.fail("harness", "trace cases take queries with a deterministic order of cache operations only".into());
        return;
    }
    let mut reference = Reference { ns: src.fresh(), memo: Vec::new() };
    let graph = c13::model_graph_tokens_x(src.rows());
    let threads = model_threads_tokens(qss);
    let mut stack: Vec<Vec<usize>> = vec![vec![]];
    let mut runs = 0usize;
    let mut exhausted = true;
    let mut distinct_event_seqs = BTreeSet::new();
    let mut report = |sched: &[usize], events: &[String], answers: &[Vec<(String, String)>], caches: &(String, String),
                      reference: &mut Reference, out: &mut CaseOut| {
        let mut thread_ans = Vec::new();
        for (tid, (qs, ans)) in qss.iter().zip(answers.iter()).enumerate() {
            for (q, a) in qs.iter().zip(ans.iter()) {
                let want = reference.get(q);
                if *a != want {
                    out.fail("schedule_dependent", format!("schedule {sched:?}: thread {tid} {q:?}: {a:?}, single-threaded {want:?}"));
                }
            }
            thread_ans.push(ans.iter().map(|a| a.0.clone()).collect::<Vec<_>>().join("/"));
        }
        distinct_event_seqs.insert(events.join(","));
        let mut st = vec![sched.len().to_string()];
        st.extend(sched.iter().map(|t| t.to_string()));
        out.req(
            format!("C14 tracex {graph} 1 {threads} {}", st.join(" ")),
            format!("ok {} | {} # {} # {}", events.join(","), thread_ans.join(";"), caches.0, caches.1),
        );
    };
    // phase 1: depth-first enumeration of ALL interleavings of the hook points (half the budget)
    while let Some(prefix) = stack.pop() {
        if runs >= budget / 2 {
            exhausted = false;
            break;
        }
        runs += 1;
        let mut choose = |i: usize, open: &[usize]| if i < prefix.len() { prefix[i] } else { open[0] };
        let Some((sched, alts, events, answers, caches)) = controlled_run(src, o, qss, &mut choose, out) else {
            break;
        };
        for i in (prefix.len()..sched.len()).rev() {
            for alt in alts[i].iter().rev() {
                if *alt > sched[i] {
                    let mut p = sched[..i].to_vec();
                    p.push(*alt);
                    stack.push(p);
                }
            }
        }
        report(&sched, &events, &answers, &caches, &mut reference, out);
    }
    // phase 2 (only when the space is larger than that): uniformly random interleavings
    if !exhausted {
        let mut rng = Rng::new(0xC14 ^ (budget as u64) ^ ((qss.len() as u64) << 32) ^ (threads.len() as u64) << 8);
        while runs < budget {
            runs += 1;
            let mut choose = |_i: usize, open: &[usize]| *rng.pick(open);
            let Some((sched, _alts, events, answers, caches)) = controlled_run(src, o, qss, &mut choose, out) else {
                break;
            };
            report(&sched, &events, &answers, &caches, &mut reference, out);
        }
    }
    drop(report);
    out.stat(if exhausted { "trace_all_interleavings" } else { "trace_budget_reached" });
    for _ in 0..runs {
        out.stat("trace_schedules");
    }
    for _ in 0..distinct_event_seqs.len() {
        out.stat("trace_distinct_event_sequences");
    }
    unsafe { c13::free_ns(reference.ns) };
}

// ------------------------------------------------------------------------------------------------
// generators
// ------------------------------------------------------------------------------------------------
/// relationship / association structure for `has_relationship` and `tags`, respecting the rank order
fn add_rel_rows(rng: &mut Rng, g: &mut c13::GenGraph) {
    let has = |g: &c13::GenGraph, n: &str| g.defined.iter().any(|d| d == n);
    if ["tags", "tagOn", "inputs", "hotRef", "coldRef"].iter().any(|n| has(g, n)) {
        return;
    }
    let some = |s: &str| Some(s.to_string());
    let pick = |rng: &mut Rng, g: &c13::GenGraph| -> String {
        if g.defined.is_empty() {
            "marker".into()
        } else {
            rng.pick(&g.defined).clone()
        }
    };
    let mut rows = Vec::new();
    if !has(g, "association") {
        rows.push(RowSpec::plain("association", vec![]));
    }
    if !has(g, "relationship") {
        rows.push(RowSpec::plain("relationship", vec![]));
    }
    rows.push(RowSpec::plain("tagOn", vec![some("association")]));
    let mut tags = RowSpec::plain("tags", vec![some("association")]);
    tags.extra = vec![("computedFromReciprocal".into(), ExtraV::Marker), ("reciprocalOf".into(), ExtraV::sym("tagOn"))];
    rows.push(tags);
    rows.push(RowSpec::plain("inputs", vec![some("relationship")]));
    let mut hot = RowSpec::plain("hotRef", vec![]);
    hot.extra = vec![("inputs".into(), ExtraV::Sym(pick(rng, g)))];
    rows.push(hot);
    let mut cold = RowSpec::plain("coldRef", vec![]);
    cold.extra = vec![("inputs".into(), ExtraV::Sym(pick(rng, g)))];
    rows.push(cold);
    // some defs are tagOn other defs
    for _ in 0..3 {
        let mut r = RowSpec::plain(&format!("prop{}", rng.below(1000)), vec![]);
        r.extra = vec![("tagOn".into(), ExtraV::List(vec![Some(pick(rng, g))]))];
        rows.push(r);
    }
    for r in rows {
        if let c13::DefTag::Sym(n) = &r.def {
            if has(g, n) {
                continue;
            }
            g.defined.push(n.clone());
        }
        g.rows.push(r);
    }
}

fn gen_queries(rng: &mut Rng, o: &Oracle, universe: &[String], n: u64, kinds: &[u64]) -> Vec<Q> {
    let recs = c13::gen_records(rng, o, 4);
    let name = |rng: &mut Rng| -> String {
        if universe.is_empty() || rng.chance(1, 12) {
            "neverMentioned".into()
        } else {
            rng.pick(universe).clone()
        }
    };
    let relx_pool = {
        let rows: Vec<RowSpec> = o.is.iter().map(|(k, v)| RowSpec::plain(k, v.iter().cloned().map(Some).collect())).collect();
        c13::gen_rel(rng, &rows, universe.iter().any(|u| u == "hotWaterRef"))
    };
    let mut qs = Vec::new();
    for _ in 0..n {
        let q = match *rng.pick(kinds) {
            0 => Q::Sup(name(rng)),
            1 => Q::ASup(name(rng)),
            2 => Q::Inh(name(rng)),
            3 => Q::Fits(name(rng), name(rng)),
            4 => Q::Refl(rng.pick(&recs).clone()),
            5 => Q::RFits(rng.pick(&recs).clone(), name(rng)),
            6 => {
                let mut r = rng.pick(&recs).clone();
                for t in ["hotRef", "coldRef", "hotWaterRef", "chilledWaterRef", "equipRef"] {
                    if rng.chance(1, 3) && !r.iter().any(|(k, _)| k == t) {
                        r.push((t.to_string(), false));
                    }
                }
                r.sort();
                let rel = rng.pick(&["inputs", "outputs", "containedBy", "relationship"]).to_string();
                Q::Rel(r, rel, if rng.chance(2, 3) { Some(name(rng)) } else { None })
            }
            7 => Q::Tags(name(rng)),
            8 => {
                let w = rng.below(4) as u8;
                // the roots themselves are the interesting arguments
                let k = if rng.chance(1, 2) { ["marker", "val", "choice", "entity"][w as usize].to_string() } else { name(rng) };
                Q::FitsRoot(w, k)
            }
            9 => Q::Impl(name(rng)),
            11 => {
                // several associations of the SAME parent, computed ones among them
                let a = rng.pick(&["tags", "tagOn", "is", "quantities", "quantityOf", "cools", "heats", "neverMentioned"]).to_string();
                let p = if rng.chance(1, 2) { rng.pick(&["site", "air", "ahu", "equip", "marker"]).to_string() } else { name(rng) };
                Q::Assoc(p, a)
            }
            12 => {
                // a family member: one of a few (relationship, term, target) triples over ONE record set per call of
                // this generator, asked of a random record - the walks run through the same refs
                let (recs, qs) = &relx_pool;
                let q = rng.pick(qs).clone();
                Q::RelX(recs.clone(), q.rel, q.term, q.target, rng.below(recs.len() as u64) as usize)
            }
            _ => Q::Choices(name(rng)),
        };
        qs.push(q);
    }
    qs
}

const MODELLED_DET: &[u64] = &[0, 1, 1, 2, 2, 2, 3, 3, 4];
const MODELLED: &[u64] = &[0, 1, 2, 2, 3, 3, 4, 5, 5];
const ALL_KINDS: &[u64] = &[0, 1, 2, 2, 3, 3, 4, 5, 6, 6, 7, 8, 8, 9, 10, 11, 11, 11, 12, 12, 12];
const ORDERED: &[u64] = &[0, 1, 2, 2, 3];
const ORDERED_X: &[u64] = &[0, 1, 2, 3, 6, 7, 7, 8, 9];

fn universe_of(o: &Oracle) -> Vec<String> {
    let mut s: BTreeSet<String> = o.is.keys().cloned().collect();
    s.extend(o.subs.keys().cloned());
    s.into_iter().collect()
}

fn emit(ctx: &mut Ctx, label: &str, mode: &str, src: &GraphSrc, tail: Vec<String>) {
    let mut t = vec![mode.to_string()];
    src.write(&mut t);
    t.extend(tail);
    ctx.case(label, &t.join(" "));
}

pub fn generate(ctx: &mut Ctx) {
    let mut rng = ctx.rng.fork();
    // an earlier answer kept alive across cold queries (known finding GUARD)
    ctx.case("held:sup", "held 2000 sup");
    ctx.case("held2", "held2 2000 1500");
    ctx.case("resolver", "resolver 3000");
    if !ctx.quick() {
        ctx.case("held:inh", "held 2000 inh");
    }
    let some = |s: &str| Some(s.to_string());
    // ---- forced interleavings ---------------------------------------------------------------
    let diamond = vec![
        RowSpec::plain("m", vec![]),
        RowSpec::plain("a", vec![some("m")]),
        RowSpec::plain("b", vec![some("m"), some("zz")]),
        RowSpec::plain("d", vec![some("a"), some("b")]),
        RowSpec::plain("e", vec![some("a")]),
    ];
    let s = |x: &str| x.to_string();
    let budget = ctx.n(1000, 10000) as usize;
    let fixed: Vec<(&str, Vec<Vec<Q>>)> = vec![
        ("one_key_sup_2", vec![vec![Q::Sup(s("d"))], vec![Q::Sup(s("d"))]]),
        ("one_key_inh_2", vec![vec![Q::Inh(s("a"))], vec![Q::Inh(s("a"))]]),
        ("one_key_sup_3", vec![vec![Q::Sup(s("d"))], vec![Q::Sup(s("d"))], vec![Q::Sup(s("d"))]]),
        ("shared_supertype_inh", vec![vec![Q::Inh(s("b"))], vec![Q::Inh(s("e"))]]),
        ("shared_supertype_asup", vec![vec![Q::ASup(s("d"))], vec![Q::ASup(s("e"))]]),
        ("fits_vs_inh", vec![vec![Q::Fits(s("e"), s("m"))], vec![Q::Inh(s("e")), Q::Sup(s("a"))]]),
        ("undefined_key", vec![vec![Q::Inh(s("zz")), Q::Sup(s("zz"))], vec![Q::Sup(s("zz")), Q::Inh(s("zz"))]]),
        ("three_mixed", vec![vec![Q::Inh(s("a"))], vec![Q::Sup(s("a"))], vec![Q::Fits(s("a"), s("m"))]]),
    ];
    for (name, qss) in &fixed {
        let mut t = vec![budget.to_string()];
        write_threads(qss, &mut t);
        emit(ctx, &format!("trace:{name}"), "trace", &GraphSrc::Rows(diamond.clone()), t);
    }
    // the association / implementation / relationship queries at the hook points: the diamond with `tags` computed from
    // `tagOn`, a mandatory def, a transitive relationship carried by a ref tag
    {
        let mut rows = diamond.clone();
        rows.push(RowSpec::plain("association", vec![]));
        rows.push(RowSpec::plain("relationship", vec![]));
        rows.push(RowSpec::plain("tagOn", vec![some("association")]));
        let mut tags = RowSpec::plain("tags", vec![some("association")]);
        tags.extra = vec![("computedFromReciprocal".into(), ExtraV::Marker), ("reciprocalOf".into(), ExtraV::sym("tagOn"))];
        rows.push(tags);
        let mut p = RowSpec::plain("p", vec![]);
        p.extra = vec![("tagOn".into(), ExtraV::List(vec![some("a")]))];
        rows.push(p);
        let mut cb = RowSpec::plain("containedBy", vec![some("relationship")]);
        cb.extra = vec![("transitive".into(), ExtraV::Marker)];
        rows.push(cb);
        let mut xr = RowSpec::plain("xRef", vec![]);
        xr.extra = vec![("containedBy".into(), ExtraV::sym("a"))];
        rows.push(xr);
        for r in rows.iter_mut() {
            if matches!(&r.def, c13::DefTag::Sym(n) if n == "m") {
                r.extra.push(("mandatory".into(), ExtraV::Marker));
            }
        }
        let rec: RecSpec = vec![(s("d"), true), (s("xRef"), false)];
        let fixed2: Vec<(&str, Vec<Vec<Q>>)> = vec![
            ("tags_vs_inh", vec![vec![Q::Tags(s("d"))], vec![Q::Inh(s("d"))]]),
            ("tags_tags", vec![vec![Q::Tags(s("d"))], vec![Q::Tags(s("e"))]]),
            ("impl_vs_asup", vec![vec![Q::Impl(s("d"))], vec![Q::ASup(s("d"))]]),
            ("froot_2", vec![vec![Q::FitsRoot(0, s("d"))], vec![Q::FitsRoot(0, s("d"))]]),
            ("rel_vs_fits", vec![vec![Q::Rel(rec.clone(), s("containedBy"), Some(s("m")))], vec![Q::Fits(s("a"), s("m"))]]),
            ("rel_rel", vec![vec![Q::Rel(rec.clone(), s("containedBy"), Some(s("a")))], vec![Q::Rel(rec.clone(), s("containedBy"), None)]]),
        ];
        for (name, qss) in &fixed2 {
            let mut t = vec![(budget / 2).to_string()];
            write_threads(qss, &mut t);
            emit(ctx, &format!("trace:{name}"), "trace", &GraphSrc::Rows(rows.clone()), t);
        }
    }
    for i in 0..ctx.n(6, 60) {
        let mut g = c13::gen_graph(&mut rng, 7);
        if i % 2 == 1 {
            add_rel_rows(&mut rng, &mut g);
        }
        let o = Oracle::new(&g.rows);
        let uni = universe_of(&o);
        let nthreads = 2 + rng.below(2) as usize;
        let kinds: &[u64] = if i % 2 == 1 { ORDERED_X } else { ORDERED };
        let qss: Vec<Vec<Q>> = (0..nthreads).map(|_| { let n = 1 + rng.below(2); gen_queries(&mut rng, &o, &uni, n, kinds) }).collect();
        let mut t = vec![(budget / 6).to_string()];
        write_threads(&qss, &mut t);
        emit(ctx, &format!("trace:rand{i}"), "trace", &GraphSrc::Rows(g.rows), t);
    }
    // ---- sequential histories ---------------------------------------------------------------
    // every ordered pair (and a few triples) of questions about odd symbols - the empty symbol as a def, undefined
    // symbols, a def that lists an undefined supertype - each on a cold namespace of its own: an entry that two
    // symbols share in a cache shows as an answer that depends on which was asked first
    {
        let odd = vec![
            RowSpec::plain("m", vec![]),
            RowSpec::plain("", vec![some("m")]),
            RowSpec::plain("a", vec![some(""), some("zz")]),
            RowSpec::plain("b", vec![some("a")]),
        ];
        let pool: Vec<Q> = vec![
            Q::Inh(s("")), Q::Sup(s("")), Q::ASup(s("")), Q::Fits(s(""), s("m")), Q::Fits(s("a"), s("")),
            Q::Inh(s("zz")), Q::Sup(s("zz")), Q::Fits(s("zz"), s("m")), Q::Fits(s("zz"), s("")), Q::Inh(s("nodef")), Q::Fits(s("nodef"), s("nodef")),
            Q::Inh(s("b")), Q::ASup(s("b")),
        ];
        for (i, q1) in pool.iter().enumerate() {
            for (j, q2) in pool.iter().enumerate() {
                if i == j {
                    continue;
                }
                let qs = [q1.clone(), q2.clone(), q1.clone(), pool[(i + j) % pool.len()].clone()];
                let mut t = vec![qs.len().to_string()];
                for q in &qs {
                    q.write(&mut t);
                }
                emit(ctx, &format!("seq:odd{i}_{j}"), "seq", &GraphSrc::Rows(odd.clone()), t);
            }
        }
    }
    for i in 0..ctx.n(60, 1200) {
        let mut g = c13::gen_graph(&mut rng, 22);
        let kinds = match i % 3 {
            0 => MODELLED_DET,
            1 => MODELLED,
            _ => {
                add_rel_rows(&mut rng, &mut g);
                ALL_KINDS
            }
        };
        let o = Oracle::new(&g.rows);
        let uni = universe_of(&o);
        let n = 2 + rng.below(14);
        let qs = gen_queries(&mut rng, &o, &uni, n, kinds);
        let mut t = vec![qs.len().to_string()];
        for q in &qs {
            q.write(&mut t);
        }
        emit(ctx, &format!("seq:{i}"), "seq", &GraphSrc::Rows(g.rows), t);
    }
    // deep supertype chains (deeper than anything in the shipped defs): what was asked first must not
    // decide what a later question answers
    for (ci, len) in [18usize, 19, 24, 40, 90].iter().enumerate() {
        let mut rows: Vec<RowSpec> = (0..*len).map(|i| RowSpec::plain(&format!("c{i}"), if i == 0 { vec![] } else { vec![Some(format!("c{}", i - 1))] })).collect();
        // a side branch half way up and a second root
        rows.push(RowSpec::plain("side", vec![Some(format!("c{}", len / 2))]));
        rows.push(RowSpec::plain("leaf", vec![Some(format!("c{}", len - 1)), some("side")]));
        let c = |i: usize| format!("c{i}");
        let last = len - 1;
        let orders: Vec<Vec<Q>> = vec![
            vec![Q::Inh(c(last)), Q::Inh(c(last / 2)), Q::Fits(c(last / 2), c(0)), Q::ASup(c(last / 2)), Q::Inh(c(last - 1)), Q::Fits(c(last), c(1))],
            vec![Q::Inh(c(last / 2)), Q::Inh(c(last)), Q::Fits(c(last), c(0)), Q::Inh(c(1)), Q::Inh(c(last - 2))],
            vec![Q::Fits(s("leaf"), c(0)), Q::Inh(s("side")), Q::Inh(c(last)), Q::Fits(c(last - 3), c(2)), Q::Inh(s("leaf"))],
            (0..*len).map(|i| Q::Inh(c(i))).collect(),
            (0..*len).rev().map(|i| Q::Inh(c(i))).collect(),
            (0..*len).rev().map(|i| Q::Fits(c(i), c(0))).collect(),
        ];
        for (oi, qs) in orders.iter().enumerate() {
            let mut t = vec![qs.len().to_string()];
            for q in qs {
                q.write(&mut t);
            }
            emit(ctx, &format!("seq:chain{ci}_{oi}"), "seq", &GraphSrc::Rows(rows.clone()), t);
        }
        let o = Oracle::new(&rows);
        let uni = universe_of(&o);
        for k in 0..ctx.n(2, 20) {
            let qs = gen_queries(&mut rng, &o, &uni, 12, MODELLED);
            let mut t = vec![qs.len().to_string()];
            for q in &qs {
                q.write(&mut t);
            }
            emit(ctx, &format!("seq:chain{ci}_r{k}"), "seq", &GraphSrc::Rows(rows.clone()), t);
        }
    }
    // ---- concurrency ------------------------------------------------------------------------
    for i in 0..ctx.n(120, 3000) {
        let mut g = c13::gen_graph(&mut rng, 22);
        let kinds = match i % 3 {
            0 => MODELLED_DET,
            1 => MODELLED,
            _ => {
                add_rel_rows(&mut rng, &mut g);
                ALL_KINDS
            }
        };
        let o = Oracle::new(&g.rows);
        let uni = universe_of(&o);
        let nthreads = if ctx.quick() { 2 + rng.below(15) as usize } else if i % 4 == 0 { 16 } else { 2 + rng.below(15) as usize };
        // overlapping keys: every thread draws from the same small pool of queries
        let npool = 6 + rng.below(10);
        let pool = gen_queries(&mut rng, &o, &uni, npool, kinds);
        let qss: Vec<Vec<Q>> = (0..nthreads).map(|_| (0..(1 + rng.below(8))).map(|_| rng.pick(&pool).clone()).collect()).collect();
        emit_conc(ctx, &mut rng, &format!("conc:{i}"), &GraphSrc::Rows(g.rows), &qss);
    }
    // ---- the real database ------------------------------------------------------------------
    let db = c13::zinc_db();
    let o = Oracle::new(&db.rows);
    let uni = db.symbols.clone();
    for i in 0..ctx.n(3, 40) {
        let n = 6 + rng.below(10);
        let qs = gen_queries(&mut rng, &o, &uni, n, if i % 2 == 0 { MODELLED } else { ALL_KINDS });
        let mut t = vec![qs.len().to_string()];
        for q in &qs {
            q.write(&mut t);
        }
        emit(ctx, &format!("seq:zinc{i}"), "seq", &GraphSrc::Zinc, t);
    }
    // every root helper first on a cold namespace and again after its inheritance was cached
    for (w, root) in ["marker", "val", "choice", "entity"].iter().enumerate() {
        for arg in [root.to_string(), "site".to_string(), "ahu".to_string(), "hot-water".to_string(), "neverMentioned".to_string()] {
            let qs = vec![
                Q::FitsRoot(w as u8, arg.clone()),
                Q::Inh(arg.clone()),
                Q::FitsRoot(w as u8, arg.clone()),
                Q::Refl(vec![(arg.clone(), true)]),
                Q::FitsRoot(w as u8, arg.clone()),
                Q::Impl(arg.clone()),
                Q::Choices(arg.clone()),
            ];
            let mut t = vec![qs.len().to_string()];
            for q in &qs {
                q.write(&mut t);
            }
            emit(ctx, &format!("seq:root_{root}"), "seq", &GraphSrc::Zinc, t);
        }
    }
    // has_relationship over ONE record set whose Refs point at each other: one (relationship, term, target) asked of every
    // record, in every rotation of the order - what one walk learns about a ref must not decide another walk
    for i in 0..ctx.n(14, 60) {
        let mut g = c13::gen_graph(&mut rng, 12);
        let mut rows = g.rows.clone();
        c13::add_assoc_rows(&mut rng, &mut rows);
        g.rows = rows;
        let (recs, fam) = c13::gen_rel(&mut rng, &g.rows, false);
        let _ = fam;
        // `containedBy? @target` without a term (every declared tag takes part in the walk), for two targets
        let triples: Vec<c13::RelQuery> = ["r1", "r4"]
            .iter()
            .map(|g| c13::RelQuery { subject: 0, rel: "containedBy".into(), term: None, target: Some(g.to_string()) })
            .collect();
        for (ti, t) in triples.iter().enumerate() {
            for rot in 0..recs.len() {
                let mut qs: Vec<Q> = (0..recs.len()).map(|k| Q::RelX(recs.clone(), t.rel.clone(), t.term.clone(), t.target.clone(), (k + rot) % recs.len())).collect();
                // ... then some records CHANGE (every Ref of the odd records points at the next record) and the family is
                // asked again of the same namespace: the walks start on the same refs but lead elsewhere now
                let rotr = |r: &str| -> String {
                    match r.strip_prefix('r').and_then(|n| n.parse::<usize>().ok()) {
                        Some(n) => format!("r{}", (n + 1) % 6),
                        None => r.to_string(),
                    }
                };
                let moved: Vec<c13::RelRec> = recs
                    .iter()
                    .enumerate()
                    .map(|(i, r)| {
                        if i % 2 == 1 {
                            c13::RelRec { key: r.key.clone(), tags: r.tags.iter().map(|(k, v)| (k.clone(), if k == "id" { v.clone() } else { v.as_deref().map(rotr) })).collect() }
                        } else {
                            r.clone()
                        }
                    })
                    .collect();
                qs.extend((0..recs.len()).map(|k| Q::RelX(moved.clone(), t.rel.clone(), t.term.clone(), t.target.clone(), (k + rot) % recs.len())));
                let mut tk = vec![qs.len().to_string()];
                for q in &qs {
                    q.write(&mut tk);
                }
                emit(ctx, &format!("seq:relx{i}_{ti}"), "seq", &GraphSrc::Rows(g.rows.clone()), tk);
            }
        }
    }
    // several associations of ONE parent one after the other (computed ones among them: tags, quantities, ...), in both
    // orders, on the real database: each answer is that of a fresh namespace
    for parent in ["air", "site", "ahu", "elec-meter", "weather", "neverMentioned"] {
        for order in [["tags", "quantities", "tagOn", "is", "tags"], ["quantities", "tags", "is", "tagOn", "quantities"]] {
            let qs: Vec<Q> = order.iter().map(|a| Q::Assoc(parent.to_string(), a.to_string())).chain([Q::Tags(parent.to_string())]).collect();
            let mut t = vec![qs.len().to_string()];
            for q in &qs {
                q.write(&mut t);
            }
            emit(ctx, &format!("seq:assoc_{parent}"), "seq", &GraphSrc::Zinc, t);
        }
    }
    // many distinct symbols that are no defs: the caches grow far beyond the number of defs while
    // several threads miss at the same time
    for i in 0..ctx.n(2, 12) {
        let nthreads = 8;
        let qss: Vec<Vec<Q>> = (0..nthreads)
            .map(|t| {
                (0..420)
                    .map(|k| {
                        if k % 7 == 6 {
                            Q::Inh(rng.pick(&uni).clone())
                        } else if k % 7 == 3 {
                            Q::Sup(format!("zz{i}x{t}x{k}"))
                        } else {
                            Q::Inh(format!("zz{i}x{t}x{k}"))
                        }
                    })
                    .collect()
            })
            .collect();
        emit_conc(ctx, &mut rng, &format!("conc:flood{i}"), &GraphSrc::Zinc, &qss);
    }
    for i in 0..ctx.n(8, 300) {
        let nthreads = if i % 2 == 0 { 16 } else { 2 + rng.below(15) as usize };
        let npool = 10 + rng.below(20);
        let pool = gen_queries(&mut rng, &o, &uni, npool, if i % 3 == 0 { MODELLED_DET } else { ALL_KINDS });
        let qss: Vec<Vec<Q>> = (0..nthreads).map(|_| (0..(2 + rng.below(10))).map(|_| rng.pick(&pool).clone()).collect()).collect();
        emit_conc(ctx, &mut rng, &format!("conc:zinc{i}"), &GraphSrc::Zinc, &qss);
    }
}

fn emit_conc(ctx: &mut Ctx, rng: &mut Rng, label: &str, src: &GraphSrc, qss: &[Vec<Q>]) {
    let mut t = vec![(if rng.chance(1, 5) { 0 } else { 1 + rng.next() % 1_000_000 }).to_string()];
    write_threads(qss, &mut t);
    // the schedule the MODEL is run under (the real threads are scheduled by the OS)
    let n = rng.below(400) as usize;
    t.push(n.to_string());
    for _ in 0..n {
        t.push(rng.below(qss.len() as u64).to_string());
    }
    emit(ctx, label, "conc", src, t);
}
