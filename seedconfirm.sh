#!/bin/bash
# seedconfirm.sh <property> <k> <detected-by...>
# Confirms a seeded change produced by an independent sub-agent (in /tmp/seed/<property>/out) in a scratch
# worktree: the pinned suite passes with it, the demonstration fails with it and passes without it;
# then files it under /verif/seeded/<property>-<k>/.
set -u
ID=$1; K=$2; shift 2; DET="$*"
SRC=/tmp/seed/$ID/out
WT=/tmp/seedconfirm${CONFIRM_SLOT:-}
OUT=/verif/seeded/$ID-$K
[ -f $SRC/patch_$K.diff ] || { echo "no patch"; exit 2; }
if [ ! -d $WT ]; then git -C /repo worktree add -q --detach $WT HEAD; fi
git -C $WT checkout -q --detach $(git -C /repo rev-parse HEAD); git -C $WT checkout -q -- .; rm -f $WT/tests/seed_demo.rs
export CARGO_TARGET_DIR=/tmp/seedconfirm-target${CONFIRM_SLOT:-} CARGO_NET_OFFLINE=true
cp $SRC/demo_$K.rs $WT/tests/seed_demo.rs
clean=$(cd $WT && cargo test --offline --test seed_demo 2>&1 | grep -E '^test result' | tail -1)
git -C $WT apply $SRC/patch_$K.diff || { echo "patch does not apply"; exit 2; }
mut=$(cd $WT && cargo test --offline --test seed_demo 2>&1 | grep -E '^test result|has overflowed|SIGABRT|signal' | tail -2 | tr '\n' ' ')
rm -f $WT/tests/seed_demo.rs
suite=$(cd $WT && cargo test --workspace --no-fail-fast --offline 2>&1 | grep -E '^test result' | tr '\n' ' ')
git -C $WT checkout -q -- .
mkdir -p $OUT
cp $SRC/patch_$K.diff $OUT/patch.diff; cp $SRC/demo_$K.rs $OUT/demo.rs
python3 - "$ID" "$K" "$clean" "$mut" "$suite" "$DET" "$SRC/meta_$K.json" "$OUT/meta.json" <<'PY'
import json, sys
pid, k, clean, mut, suite, det, src, out = sys.argv[1:9]
m = json.load(open(src))
json.dump({"property": pid, "summary": m.get("summary"), "mechanism": m.get("mechanism"), "needs": m.get("needs"),
           "origin": "independent sub-agent given only the property text and a scratch worktree",
           "confirmed": {"demo_on_unchanged_tree": clean, "demo_with_change": mut, "pinned_suite_with_change": suite,
                         "how": "seedconfirm.sh: scratch worktree of /repo HEAD, cargo test --offline"},
           "detected_by": det}, open(out, "w"), indent=1)
print(pid, k, "| clean:", clean, "| mutated:", mut, "| suite:", suite[:200])
PY
