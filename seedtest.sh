#!/bin/bash
# seedtest.sh <property> <patch.diff> [check ids...]
# Applies a seeded change to a scratch worktree of /repo, runs the given checks (default: the
# property's own) from a private copy of /verif pointed at that worktree, prints what they report,
# and removes the change again.  /repo itself is not touched.
set -u
PROP=$1; PATCH=$2; shift 2
CHECKS=${@:-$PROP}
SLOT=${SEED_SLOT:-}
WT=/tmp/seedrepo$SLOT
CP=/tmp/w/seedtest$SLOT
if [ ! -d $WT ]; then git -C /repo worktree add -q --detach $WT HEAD; fi
git -C $WT checkout -q --detach $(git -C /repo rev-parse HEAD) 2>/dev/null
git -C $WT checkout -q -- . 
mkdir -p /tmp/w
if [ ! -d $CP ]; then cp -r /verif $CP; fi
# sync sources (keep the copy's build caches)
# the COMMITTED state of /verif is what gets tested (work in progress in /verif cannot leak into a result)
EXP=/tmp/w/seedexport$SLOT; rm -rf $EXP; mkdir -p $EXP; git -C /verif archive HEAD | tar -x -C $EXP
rsync -a --delete --exclude .cache --exclude 'lean/.lake' --exclude 'lean/Hs/Gen' --exclude .git --exclude replay --exclude evidence $EXP/ $CP/
rm -rf $EXP
sed -i "s|path = \"/repo\"|path = \"$WT\"|" $CP/harness/Cargo.toml
find $CP/harness/src -name '*.rs' -exec touch {} +
if ! git -C $WT apply --check "$PATCH" 2>/dev/null; then echo "PATCH-DOES-NOT-APPLY"; exit 2; fi
git -C $WT apply "$PATCH"
for c in $CHECKS; do
  out=$(cd $CP && VERIF_REPO=$WT ./check $c --tier quick 2>&1 | grep -E 'VIOLATION|KNOWN-FINDING' | sed -E 's/^(KNOWN-FINDING: property=[A-Z0-9]+ [A-Za-z0-9_]+):.*/\1/' | head -8)
  echo "== $c: $(echo "${out:-no violation reported}" | cut -c1-260 | tr '\n' ';')"
done
git -C $WT checkout -q -- .
