#!/usr/bin/env python3
"""propsfor.py <patch.diff> — ids of the properties anchored in a file the patch touches (from properties.jsonl)."""
import json, re, sys, os, fnmatch
files = set(re.findall(r"^\+\+\+ b/(\S+)", open(sys.argv[1], errors="replace").read(), re.M))
out = []
for l in open(os.path.join(os.path.dirname(os.path.abspath(__file__)), "properties.jsonl")):
    p = json.loads(l)
    af = set((p.get("anchors") or {}).get("files", []))
    if any(any(fnmatch.fnmatch(f, a) for a in af) for f in files):
        out.append(p["id"])
print(" ".join(out))
