#!/usr/bin/env python3
"""Writes seeded/README.md from the meta.json files."""
import json, os
V = os.path.dirname(os.path.abspath(__file__))
rows = []
for d in sorted(os.listdir(os.path.join(V, "seeded"))):
    p = os.path.join(V, "seeded", d, "meta.json")
    if os.path.exists(p):
        m = json.load(open(p))
        rows.append((d, m.get("summary", ""), m.get("needs", ""), m.get("detected_by", "")))
out = ["# Seeded changes", "",
       "Each directory: `patch.diff` (apply to /repo), `demo.rs` (integration test that passes without and fails with the change), `meta.json`.",
       "Produced by sub-agents that saw only the property text and a scratch worktree; confirmed with `seedconfirm.sh`; run against the checks with `seedtest.sh`.", "",
       "| id | change | needs | reported by |", "|---|---|---|---|"]
for r in rows:
    out.append("| " + " | ".join(x.replace("|", "/").replace("\n", " ") for x in r) + " |")
open(os.path.join(V, "seeded", "README.md"), "w").write("\n".join(out) + "\n")
print(len(rows), "seeded changes")
