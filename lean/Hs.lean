import Hs.Model.Val
import Hs.Model.Vx
import Hs.Model.Cmp
