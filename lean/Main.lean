/-
  hsdriver — line-protocol driver of the executable model.  One request per line on stdin
  (`<property id> <command> <arguments…>`), one canonical reply per line on stdout.
  Imports nothing outside core (links as a lean_exe).
-/
import Hs.Model.Vx
import Hs.Drv.C01
import Hs.Drv.C02
import Hs.Drv.C03
import Hs.Drv.C04
import Hs.Drv.C05
import Hs.Drv.C06
import Hs.Drv.C07
import Hs.Drv.C08
import Hs.Drv.C09
import Hs.Drv.C10
import Hs.Drv.C11
import Hs.Drv.C12
import Hs.Drv.C13
import Hs.Drv.C14
import Hs.Drv.C15
import Hs.Drv.C16
import Hs.Drv.C17
import Hs.Drv.C18
import Hs.Drv.C19
import Hs.Drv.C20

open Hs

def dispatch (line : String) : String :=
  match Vx.tokens line with
  | [] => "bad-request"
  | cmd :: ts =>
    match cmd with
    | "C01" => Drv.C01.handle ts
    | "C02" => Drv.C02.handle ts
    | "C03" => Drv.C03.handle ts
    | "C04" => Drv.C04.handle ts
    | "C05" => Drv.C05.handle ts
    | "C06" => Drv.C06.handle ts
    | "C07" => Drv.C07.handle ts
    | "C08" => Drv.C08.handle ts
    | "C09" => Drv.C09.handle ts
    | "C10" => Drv.C10.handle ts
    | "C11" => Drv.C11.handle ts
    | "C12" => Drv.C12.handle ts
    | "C13" => Drv.C13.handle ts
    | "C14" => Drv.C14.handle ts
    | "C15" => Drv.C15.handle ts
    | "C16" => Drv.C16.handle ts
    | "C17" => Drv.C17.handle ts
    | "C18" => Drv.C18.handle ts
    | "C19" => Drv.C19.handle ts
    | "C20" => Drv.C20.handle ts
    | "echo" => match Vx.pVal ts with
      | some (v, _) => "ok " ++ Vx.showVal v
      | none => "bad-request"
    | _ => "bad-request"

partial def loop (h : IO.FS.Stream) (out : IO.FS.Stream) : IO Unit := do
  let line ← h.getLine
  if line.isEmpty then return ()
  out.putStrLn (dispatch line)
  loop h out

def main : IO Unit := do
  let stdin ← IO.getStdin
  let stdout ← IO.getStdout
  loop stdin stdout
