/-
  hsdriver — line-protocol driver of the executable model.  One request per line on stdin,
  one canonical reply per line on stdout.  Imports nothing outside core (links as lean_exe).
-/
import Hs.Model.Vx
import Hs.Drv.C12

open Hs

def dispatch (line : String) : String :=
  match Vx.tokens line with
  | [] => "bad-request"
  | cmd :: ts =>
    match cmd with
    | "cmp" => Drv.C12.handle ts
    | "echo" => match Vx.pVal ts with
      | some (v, _) => "ok " ++ Vx.showVal v
      | none => "bad-request"
    | _ => "bad-request"

partial def loop (h : IO.FS.Stream) (out : IO.FS.Stream) : IO Unit := do
  let line ← h.getLine
  if line.isEmpty then return ()
  out.putStrLn (dispatch line)
  loop h out

def main : IO Unit := do
  let stdin ← IO.getStdin
  let stdout ← IO.getStdout
  loop stdin stdout
