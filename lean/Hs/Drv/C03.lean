import Hs.Model.Vx
namespace Hs.Drv.C03

/-- requests `C03 <cmd> ...` (tokens after the property id) -/
def handle (_ts : List String) : String := "bad-request"

end Hs.Drv.C03
