import Hs.Model.Vx
import Hs.Model.Ns
/-
  Driver glue for C13.  Requests (tokens after `C13`); `G` = `<nrows> {<def|-> <nis> {<item|->}*}*`, names
  are hex strings, name lists are count-prefixed:
    sym  G <kq> q.. <ku> u..            per query symbol `q`, joined by `;`:
                                        sup=..|asup=..|sub=..|asub=..|inh=..|cho=..|conj=..|fits=<the u it fits>
    refl G <kr> {<ntags> {<tag> <0|1>}*}* <kb> base..
                                        per record, joined by `;`:  defs=..|fits=<the bases it fits>
  Every name list is sorted (code point order) and printed as comma-separated hex.
-/
namespace Hs.Drv.C13
open Hs Hs.Vx Hs.Ns

def pRow : P Row := fun ts => do
  let (n, ts) ← pHO ts
  let (k, ts) ← pNat ts
  let (items, ts) ← pRep pHO k ts
  pure ({ name := n, isRaw := items }, ts)

def pRows : P (List Row) := fun ts => do
  let (k, ts) ← pNat ts
  pRep pRow k ts

def pNames : P (List Name) := fun ts => do
  let (k, ts) ← pNat ts
  pRep pH k ts

def pTag : P (Name × Bool) := fun ts => do
  let (n, ts) ← pH ts
  let (m, ts) ← pNat ts
  pure ((n, m != 0), ts)

def pRec : P Rec := fun ts => do
  let (k, ts) ← pNat ts
  pRep pTag k ts

def pRecs : P (List Rec) := fun ts => do
  let (k, ts) ← pNat ts
  pRep pRec k ts

def nameLe : List Char → List Char → Bool
  | [], _ => true
  | _ :: _, [] => false
  | a :: as, b :: bs => if a.toNat < b.toNat then true else if b.toNat < a.toNat then false else nameLe as bs

def showNames (l : List Name) : String :=
  ",".intercalate ((l.mergeSort nameLe).map H)

def showRes : Res (List Name) → String
  | .ok l => showNames l
  | r => "!" ++ r.tag

def symReply (fuel : Nat) (ns : Ns) (u : List Name) (q : Name) : String :=
  "sup=" ++ showNames (supertypesOf ns.defs q) ++
  "|asup=" ++ showRes (allSupertypesOf fuel ns q) ++
  "|sub=" ++ showNames (subtypesOf ns q) ++
  "|asub=" ++ showRes (allSubtypesOf fuel ns q) ++
  "|inh=" ++ showRes (inheritance fuel ns q) ++
  "|cho=" ++ showNames (choicesFor ns q) ++
  "|conj=" ++ showNames (conjunctsDefs ns q) ++
  "|fits=" ++ showRes (fitsRow fuel ns q u)

def reflReply (fuel : Nat) (ns : Ns) (bases : List Name) (r : Rec) : String :=
  match reflect fuel ns r with
  | .ok ds =>
    let fit := bases.filter (fun b => match anyFits fuel ns b ds with | .ok true => true | _ => false)
    let bad := bases.any (fun b => match anyFits fuel ns b ds with | .ok _ => false | _ => true)
    "defs=" ++ showNames ds ++ "|fits=" ++ (if bad then "!diverge" else showNames fit)
  | e => "defs=!" ++ e.tag ++ "|fits=!" ++ e.tag

def symReq (ts : List String) : String :=
  match pRows ts with
  | none => "bad-request"
  | some (rows, ts) =>
    match pNames ts with
    | none => "bad-request"
    | some (qs, ts) =>
      match pNames ts with
      | none => "bad-request"
      | some (us, _) =>
        let ns := make rows
        let fuel := fuelFor ns.defs
        "ok " ++ ";".intercalate (qs.map (symReply fuel ns us))

def reflReq (ts : List String) : String :=
  match pRows ts with
  | none => "bad-request"
  | some (rows, ts) =>
    match pRecs ts with
    | none => "bad-request"
    | some (recs, ts) =>
      match pNames ts with
      | none => "bad-request"
      | some (bases, _) =>
        let ns := make rows
        let fuel := fuelFor ns.defs
        "ok " ++ ";".intercalate (recs.map (reflReply fuel ns bases))

/-- requests `C13 <cmd> ...` (tokens after the property id) -/
def handle (ts : List String) : String :=
  match ts with
  | cmd :: rest =>
    if cmd = "sym" then symReq rest
    else if cmd = "refl" then reflReq rest
    else "bad-request"
  | [] => "bad-request"

end Hs.Drv.C13
